import RsslVerif.Lemmas.Lexer
/-! # Integer literals: the accumulated value is exactly the written one, or the literal is rejected -/
namespace RsslVerif.Model.Lexer
open RsslVerif.Gen.LexTables RsslVerif.Spec

/-- the digits (as numbers) of the maximal run of digit bytes at the start of the input -/
def digitRun (f : UInt8 → Option Nat) : Bytes → List Nat
  | [] => []
  | b :: r => match f b with | some d => d :: digitRun f r | none => []

/-- the input after that run -/
def afterRun (f : UInt8 → Option Nat) : Bytes → Bytes
  | [] => []
  | b :: r => match f b with | some _ => afterRun f r | none => b :: r

def step (base : Nat) (a d : Nat) : Nat := a * base + d

theorem foldl_step_ge (base : Nat) (hb : 1 ≤ base) (ds : List Nat) (v : Nat) :
    v ≤ ds.foldl (step base) v := by
  induction ds generalizing v with
  | nil => exact Nat.le_refl _
  | cons d ds ih =>
    simp only [List.foldl_cons]
    have h1 : v ≤ step base v d := by
      unfold step
      calc v = v * 1 := (Nat.mul_one v).symm
        _ ≤ v * base := Nat.mul_le_mul_left v hb
        _ ≤ v * base + d := Nat.le_add_right _ _
    exact Nat.le_trans h1 (ih _)

/-- closed form of the `digits*` loop: exact accumulation, or rejection as soon as 64 bits overflow -/
theorem digitsLoop_closed (f : UInt8 → Option Nat) (base : Nat) (hb : 1 ≤ base) (start inp : Bytes) (v : Nat) :
    (digitsLoop f base start inp v =
      (if (digitRun f inp).foldl (step base) v < 2 ^ 64 then
        (.ok (afterRun f inp, (digitRun f inp).foldl (step base) v) : LexResult Nat)
      else .error (.lex (.rest start) .IntegerLiteralTooLarge))) ∨ 2 ^ 64 ≤ v := by
  induction inp generalizing v with
  | nil =>
    simp only [digitsLoop, digitRun, afterRun, List.foldl_nil]
    by_cases hv : v < 2 ^ 64
    · left; simp [hv]
    · right; omega
  | cons b r ih =>
    by_cases hv : v < 2 ^ 64
    · left
      cases hf : f b with
      | none => simp [digitsLoop, digitRun, afterRun, hf, hv]
      | some d =>
        simp only [digitsLoop, digitRun, afterRun, hf, List.foldl_cons]
        by_cases hc : v * base + d < 2 ^ 64
        · have hc1 : v * base < 2 ^ 64 := by omega
          simp only [hc1, hc, and_self, if_true]
          rcases ih (v * base + d) with h | h
          · exact h
          · omega
        · have hge := foldl_step_ge base hb (digitRun f r) (step base v d)
          have : ¬ ((digitRun f r).foldl (step base) (step base v d) < 2 ^ 64) := by
            unfold step at hge ⊢; omega
          simp only [this, if_false]
          have : ¬ (v * base < 2 ^ 64 ∧ v * base + d < 2 ^ 64) := by omega
          simp [this]
    · right; omega

theorem ofDigits_cons (base d : Nat) (ds : List Nat) :
    Dec2Bin.ofDigits base (d :: ds) = ds.foldl (step base) d := by
  simp only [Dec2Bin.ofDigits, List.foldl_cons, Nat.zero_mul, Nat.zero_add]; rfl

/-- closed form of `digits` / `digits_hex` / `digits_octal` on an input that starts with a digit -/
theorem digitsWith_closed (f : UInt8 → Option Nat) (base : Nat) (hb : 1 ≤ base)
    (hf : ∀ b d, f b = some d → d < 2 ^ 64) (b : UInt8) (r : Bytes) (d : Nat) (hd : f b = some d) :
    digitsWith f base (b :: r) =
      (if Dec2Bin.ofDigits base (digitRun f (b :: r)) < 2 ^ 64 then
        (.ok (afterRun f (b :: r), Dec2Bin.ofDigits base (digitRun f (b :: r))) : LexResult Nat)
      else .error (.lex (.rest (b :: r)) .IntegerLiteralTooLarge)) := by
  simp only [digitsWith, digitWith, hd, digitRun, afterRun, ofDigits_cons]
  rcases digitsLoop_closed f base hb (b :: r) r d with h | h
  · exact h
  · have := hf b d hd; omega

/-- the integer a token denotes -/
def Token.intValue? : Token → Option Int
  | .litInt v | .litIntU32 v | .litIntU64 v => some (v : Int)
  | .litIntS64 v => some v
  | _ => none

/-- a token, once built, denotes exactly the value it was built from -/
theorem mkIntToken?_value {v : Nat} {k : Option IntType} {tok : Token} (h : mkIntToken? v k = some tok) :
    tok.intValue? = some (v : Int) := by
  match k, h with
  | none, h => simp [mkIntToken?] at h; subst h; rfl
  | some .Unsigned32, h =>
    simp only [mkIntToken?] at h
    split at h
    · simp at h; subst h; rfl
    · cases h
  | some .Unsigned64, h => simp [mkIntToken?] at h; subst h; rfl
  | some .Signed64, h =>
    simp only [mkIntToken?] at h
    split at h
    · simp at h; subst h; rfl
    · cases h

/-- the literal does not fit the type its suffix names: `u` ⇒ 32 bits, `l` ⇒ signed 64 bits -/
def SuffixOverflow (v : Nat) (k : Option IntType) : Prop :=
  (k = some .Unsigned32 ∧ 2 ^ 32 ≤ v) ∨ (k = some .Signed64 ∧ 2 ^ 63 ≤ v)

/-- the only literals that are not given a token -/
theorem mkIntToken?_none {v : Nat} {k : Option IntType} :
    mkIntToken? v k = none ↔ SuffixOverflow v k := by
  unfold SuffixOverflow
  match k with
  | none => simp [mkIntToken?]
  | some .Unsigned32 =>
    simp only [mkIntToken?]
    split
    · simp; omega
    · simp; omega
  | some .Unsigned64 => simp [mkIntToken?]
  | some .Signed64 =>
    simp only [mkIntToken?]
    split
    · simp; omega
    · simp; omega

/-- the range of the type the token's kind names: `u` ⇒ `[0, 2^32)`, `l` ⇒ `[0, 2^63)`, none / `ul` ⇒ `[0, 2^64)` -/
def Token.intInRange : Token → Prop
  | .litInt v | .litIntU64 v => v < 2 ^ 64
  | .litIntU32 v => v < 2 ^ 32
  | .litIntS64 v => 0 ≤ v ∧ v < 2 ^ 63
  | _ => True

theorem mkIntToken?_inRange {v : Nat} {k : Option IntType} {tok : Token} (hv : v < 2 ^ 64)
    (h : mkIntToken? v k = some tok) : tok.intInRange := by
  match k, h with
  | none, h => simp [mkIntToken?] at h; subst h; exact hv
  | some .Unsigned32, h =>
    simp only [mkIntToken?] at h
    split at h
    · rename_i hlt; simp at h; subst h; exact hlt
    · cases h
  | some .Unsigned64, h => simp [mkIntToken?] at h; subst h; exact hv
  | some .Signed64, h =>
    simp only [mkIntToken?] at h
    split at h
    · rename_i hlt; simp at h; subst h
      simp only [Token.intInRange]; omega
    · cases h

theorem decDigit_lt (b : UInt8) (d : Nat) (h : decDigit? b = some d) : d < 10 := by
  unfold decDigit? at h; split at h <;> simp at h; omega
theorem octDigit_lt (b : UInt8) (d : Nat) (h : octDigit? b = some d) : d < 8 := by
  unfold octDigit? at h; split at h <;> simp at h; omega
theorem hexDigit_lt (b : UInt8) (d : Nat) (h : hexDigit? b = some d) : d < 16 := by
  unfold hexDigit? at h
  split at h
  · simp at h; omega
  · split at h
    · simp at h; omega
    · split at h
      · simp at h; omega
      · cases h

end RsslVerif.Model.Lexer

import RsslVerif.Model.HlslAst
/-!
# `Model.MslAst` — what the Metal exporter adds to the `rssl_ast` fragment of `Model.HlslAst`

Both exporters emit the same syntax tree type (`rssl_ast`); expressions and statements of the scalar subset are the
ones of `Model.HlslAst` (a scoped callee such as `metal::fmod` is the identifier text `"metal::fmod"`, the tag argument
`metal::true_type()` is `Call "metal::true_type" []`).  Only function parameters need more: Metal parameters are
`T name` (by value), `thread T& name` (by reference: out/inout parameters and threaded globals) and the unnamed
`metal::true_type` that distinguishes a trampoline target from its trampoline.
-/
namespace RsslVerif.Model.MslAst
open RsslVerif.Model

/-- `ast::FunctionParam` of the subset -/
inductive Param where
  | val (ty name : String)                  -- `T name`
  | ref (space ty name : String)            -- `<space> T& name` (`Declarator::Reference`, `TypeModifier::AddressSpace`)
  | tag (ty : String)                       -- unnamed parameter (`Declarator::Empty`) of type `ty`
  deriving DecidableEq, Repr, Inhabited

def Param.isTag : Param → Bool
  | .tag _ => true
  | _ => false

/-- `FunctionDefinition`; the body is a plain `Vec<Statement>` -/
structure Func where
  name : String
  ret : String
  params : List Param
  body : HlslAst.Stmts
  deriving Repr, Inhabited

/-- a trampoline target carries the tag parameter -/
def Func.isTarget (f : Func) : Bool := f.params.any Param.isTag

end RsslVerif.Model.MslAst

//! C03, return statements and the function that contains them: template instantiations (struct templates with methods,
//! function templates) that happen in the middle of a function body are re-entrant runs of the function-body checker; a
//! `return` written after such an episode must still be checked against, and converted to, the return type of the
//! function it is written in.
//!
//! request : C03.ret \t <prog>
//!             prog  = (prog root*)
//!             root  = (fn R item*)                       free function `R fn<k>() { .. }`
//!                   | (sm (m R item*)*)                  ordinary struct `P<k>` with methods `p<k>m<j>`, defined at this place
//!             item  = (ret V)                            `return <value of type V>;`   V = `-` : bare `return;`
//!                   | (if item*)                         `if (gb) { .. }`
//!                   | (st FORM A (m R item*)*)           a struct template `template<typename T> struct B<k> { T v; methods }` (declared
//!                                                        before every root) is named here for the first time with argument A:
//!                                                        FORM = local `B<k><A> x;` | cast `(B<k><A>)0;` | sizeof `gu = sizeof(B<k><A>);`
//!                                                             | twice (two locals of the same instance) | init (`B<k><A> x = (B<k><A>)0;`)
//!                   | (ft R A item*)                     a function template `template<typename T> R ft<k>(T x) { .. }` called here as `ft<k><A>(value)`
//!             R, A, V = f | i | b | f2 | i2 | s0 | s1 | T (the type argument of the innermost enclosing template; as a value: the
//!                       member `v` / the parameter `x`) ; R also v (void)
//!             numbering k: one counter over st / ft / sm / fn nodes in pre-order
//! observe : accept <function>:<type of each Return expression, `-` for a bare return>,..;<function>:..   (functions sorted by name)
//!         | reject WrongTypeInReturnStatement got=<type> want=<type> | reject <TyperError variant> | panic <file>
//! oracle  : **from the request alone**: a return statement belongs to the function node that textually contains it; its operand
//!           must be convertible to that node's return type (numeric scalars / 2-vectors convert to each other, a struct only to
//!           itself, nothing to or from void).  A program with an unconvertible return must be rejected; in an accepted program
//!           the expression of every Return statement of function `x` has exactly the type the request gives `x`.
//!           Accepted modules are also walked by the IR oracle of the other streams.
use super::*;

const VALS: &[&str] = &["f", "i", "b", "f2", "i2", "s0", "s1"];

fn is_numeric_code(c: &str) -> bool {
    matches!(c, "f" | "i" | "b" | "f2" | "i2")
}

/// the language rule, in the property's words: is a value of type `got` (None = no value) returnable from a function of type `want`?
fn returnable(got: Option<&str>, want: &str) -> bool {
    match got {
        None => want == "v",
        Some(g) => want != "v" && (g == want || (is_numeric_code(g) && is_numeric_code(want))),
    }
}

fn spell_code(c: &str) -> Option<&'static str> {
    Some(match c {
        "f" => "float",
        "i" => "int",
        "b" => "bool",
        "f2" => "float2",
        "i2" => "int2",
        "s0" => "S0",
        "s1" => "S1",
        "v" => "void",
        "T" => "T",
        _ => return None,
    })
}

/// a value of the given type that can be named everywhere (globals), or the template-typed member / parameter
fn value_of(c: &str, tval: Option<&str>) -> Option<String> {
    Some(match c {
        "T" => tval?.to_string(),
        _ if VALS.contains(&c) => format!("g{}", c),
        _ => return None,
    })
}

#[derive(Default)]
struct Spell {
    counter: u32,
    /// template definitions, inner ones first
    templates: Vec<String>,
    /// (function name, declared return type resolved, operands resolved (None = bare)) in processing order
    rets: Vec<(String, String, Option<String>)>,
    funcs: Vec<(String, String)>,
    st_forms: Vec<String>,
    depth_max: u32,
}

struct Scope<'a> {
    owner: &'a str,
    ret: &'a str,
    /// resolved type argument of the innermost enclosing template and how a value of that type is spelled
    targ: Option<&'a str>,
    tval: Option<&'a str>,
    depth: u32,
}

impl Spell {
    fn resolve<'a>(c: &'a str, targ: Option<&'a str>) -> Option<&'a str> {
        if c == "T" { targ } else { Some(c) }
    }

    fn methods(&mut self, prefix: &str, ms: &[Sx], targ: Option<&str>, tval: Option<&str>, depth: u32) -> Option<String> {
        let mut s = String::new();
        for (j, m) in ms.iter().enumerate() {
            let ("m", rest) = head(m)? else { return None };
            let (r, items) = rest.split_first()?;
            let r = atom_str(r)?;
            let name = format!("{}m{}", prefix, j);
            let rr = Self::resolve(r, targ)?.to_string();
            self.funcs.push((name.clone(), rr.clone()));
            let body = self.items(items, &Scope { owner: &name, ret: &rr, targ, tval, depth: depth + 1 })?;
            s.push_str(&format!(" {} {}() {{ {}}}", spell_code(r)?, name, body));
        }
        Some(s)
    }

    fn items(&mut self, items: &[Sx], sc: &Scope) -> Option<String> {
        self.depth_max = self.depth_max.max(sc.depth);
        let mut s = String::new();
        for it in items {
            let (h, rest) = head(it)?;
            match (h, rest) {
                ("ret", [v]) => {
                    let v = atom_str(v)?;
                    if v == "-" {
                        self.rets.push((sc.owner.to_string(), sc.ret.to_string(), None));
                        s.push_str("return; ");
                    } else {
                        let rv = Self::resolve(v, sc.targ)?;
                        self.rets.push((sc.owner.to_string(), sc.ret.to_string(), Some(rv.to_string())));
                        s.push_str(&format!("return {}; ", value_of(v, sc.tval)?));
                    }
                }
                ("if", body) => {
                    let b = self.items(body, sc)?;
                    s.push_str(&format!("if (gb) {{ {}}} ", b));
                }
                ("st", [form, a, ms @ ..]) => {
                    let (form, a) = (atom_str(form)?, atom_str(a)?);
                    let k = self.counter;
                    self.counter += 1;
                    let ra = Self::resolve(a, sc.targ)?.to_string();
                    if ra == "v" {
                        return None;
                    }
                    let body = self.methods(&format!("b{}", k), ms, Some(&ra), Some("v"), sc.depth)?;
                    self.templates.push(format!("template<typename T> struct B{} {{ T v;{} }};\n", k, body));
                    let ty = format!("B{}<{}>", k, spell_code(a)?);
                    self.st_forms.push(form.to_string());
                    match form {
                        "local" => s.push_str(&format!("{} x{}; ", ty, k)),
                        "twice" => s.push_str(&format!("{} x{}; {} y{}; ", ty, k, ty, k)),
                        "cast" => s.push_str(&format!("({})0; ", ty)),
                        "init" => s.push_str(&format!("{} x{} = ({})0; ", ty, k, ty)),
                        "sizeof" => s.push_str(&format!("gu = sizeof({}); ", ty)),
                        _ => return None,
                    }
                }
                ("ft", [r, a, body @ ..]) => {
                    let (r, a) = (atom_str(r)?, atom_str(a)?);
                    let k = self.counter;
                    self.counter += 1;
                    let ra = Self::resolve(a, sc.targ)?.to_string();
                    if ra == "v" {
                        return None;
                    }
                    let rr = Self::resolve(r, Some(&ra))?.to_string();
                    let name = format!("ft{}", k);
                    self.funcs.push((name.clone(), rr.clone()));
                    let b = self.items(body, &Scope { owner: &name, ret: &rr, targ: Some(&ra), tval: Some("x"), depth: sc.depth + 1 })?;
                    self.templates.push(format!("template<typename T> {} {}(T x) {{ {}}}\n", spell_code(r)?, name, b));
                    s.push_str(&format!("{}<{}>({}); ", name, spell_code(a)?, value_of(a, sc.tval)?));
                }
                _ => return None,
            }
        }
        Some(s)
    }

    fn program(&mut self, prog: &Sx) -> Option<String> {
        let ("prog", roots) = head(prog)? else { return None };
        let mut body = String::new();
        for r in roots {
            let (h, rest) = head(r)?;
            let k = self.counter;
            self.counter += 1;
            match h {
                "fn" => {
                    let (rt, items) = rest.split_first()?;
                    let rt = atom_str(rt)?;
                    if rt == "T" {
                        return None;
                    }
                    let name = format!("fn{}", k);
                    self.funcs.push((name.clone(), rt.to_string()));
                    let b = self.items(items, &Scope { owner: &name, ret: rt, targ: None, tval: None, depth: 0 })?;
                    body.push_str(&format!("{} {}() {{ {}}}\n", spell_code(rt)?, name, b));
                }
                "sm" => {
                    let ms = self.methods(&format!("p{}", k), rest, None, None, 0)?;
                    body.push_str(&format!("struct P{} {{ int q;{} }};\n", k, ms));
                }
                _ => return None,
            }
        }
        let mut s = String::from(
            "struct S0 { float a; };\nstruct S1 { int k; };\nstatic float gf; static int gi; static bool gb; static float2 gf2; static int2 gi2; static S0 gs0; static S1 gs1; static uint gu;\n",
        );
        for t in &self.templates {
            s.push_str(t);
        }
        s.push_str(&body);
        Some(s)
    }
}

fn code_of(m: &ir::Module, t: ir::TypeId) -> String {
    let reg = &m.type_registry;
    let t = reg.remove_modifier(t);
    match reg.get_type_layer(t) {
        ir::TypeLayer::Void => "v".into(),
        ir::TypeLayer::Scalar(ScalarType::Float32) => "f".into(),
        ir::TypeLayer::Scalar(ScalarType::Int32) => "i".into(),
        ir::TypeLayer::Scalar(ScalarType::Bool) => "b".into(),
        ir::TypeLayer::Vector(e, 2) => match reg.get_type_layer(e) {
            ir::TypeLayer::Scalar(ScalarType::Float32) => "f2".into(),
            ir::TypeLayer::Scalar(ScalarType::Int32) => "i2".into(),
            _ => "?vec".into(),
        },
        ir::TypeLayer::Struct(id) => match m.struct_registry[id.0 as usize].name.node.as_str() {
            "S0" => "s0".into(),
            "S1" => "s1".into(),
            other => format!("?{}", other),
        },
        _ => "?".into(),
    }
}

fn collect_returns(m: &ir::Module, b: &ir::ScopeBlock, out: &mut Vec<String>) {
    for s in &b.0 {
        match &s.kind {
            ir::StatementKind::Return(None) => out.push("-".into()),
            ir::StatementKind::Return(Some(e)) => out.push(match guard(|| e.get_type(m)) {
                Ok(Ok(t)) => code_of(m, t.0),
                _ => "?untyped".into(),
            }),
            ir::StatementKind::Block(b)
            | ir::StatementKind::If(_, b)
            | ir::StatementKind::While(_, b)
            | ir::StatementKind::Switch(_, b)
            | ir::StatementKind::DoWhile(b, _)
            | ir::StatementKind::For(_, _, _, b) => collect_returns(m, b, out),
            ir::StatementKind::IfElse(_, a, b) => {
                collect_returns(m, a, out);
                collect_returns(m, b, out);
            }
            _ => {}
        }
    }
}

enum RetChecked {
    Accept(ir::Module),
    Reject(String),
    Front(String),
}

fn type_check_ret(src: &str) -> RetChecked {
    let mut sm = rssl::text::SourceManager::new();
    let mut inc = MemFiles(vec![("main.rssl".to_string(), src.to_string())]);
    let tokens = match rssl::preprocess::preprocess("main.rssl", &mut sm, &mut inc, &[]) {
        Ok(t) => t,
        Err(_) => return RetChecked::Front("preprocess".into()),
    };
    let tokens = rssl::preprocess::prepare_tokens(&tokens);
    let ast = match rssl::parser::parse(&tokens) {
        Ok(a) => a,
        Err(_) => return RetChecked::Front("parse".into()),
    };
    match rssl::typer::type_check(&ast) {
        Ok(m) => RetChecked::Accept(m),
        Err(e) => match &e.0 {
            rssl::typer::TyperError::WrongTypeInReturnStatement(got, want, _) => {
                RetChecked::Reject(format!("WrongTypeInReturnStatement got={} want={}", code_of(&e.1.module, *got), code_of(&e.1.module, *want)))
            }
            other => {
                let d = format!("{:?}", other);
                RetChecked::Reject(d.chars().take_while(|c| c.is_alphanumeric()).collect())
            }
        },
    }
}

impl Runner {
    pub fn ret_case(&mut self, prog: &str, out: &mut Out) {
        let req = format!("C03.ret\t{}", prog);
        let mut sp = Spell::default();
        let Some(src) = parse_sx(prog).and_then(|p| sp.program(&p)) else {
            out.case(&req, "-", "SKIP:bad request");
            self.hist.add("ret:skip");
            return;
        };
        self.compiles += 1;
        for f in &sp.st_forms {
            self.hist.add(&format!("ret:st-form:{}", f));
        }
        self.hist.add(&format!("ret:template-depth:{}", sp.depth_max));
        self.hist.add(&format!("ret:returns:{}", sp.rets.len().min(8)));
        // the request's own verdict: the first return (in writing order = processing order) that is not returnable
        let bad = sp.rets.iter().find(|(_, want, got)| !returnable(got.as_deref(), want));
        self.hist.add(if bad.is_some() { "ret:ill-typed" } else { "ret:well-typed" });
        let (obs, oracle) = match guard(|| type_check_ret(&src)) {
            Err(p) => (format!("panic {}", panic_file(&p)), format!("FAIL:panic {}", p)),
            Ok(RetChecked::Front(stage)) => (format!("front {}", stage), "SKIP:rejected before type checking".to_string()),
            Ok(RetChecked::Reject(kind)) => {
                self.hist.add(&format!("ret:reject:{}", kind.split(' ').next().unwrap_or("")));
                (format!("reject {}", kind), "ok".to_string())
            }
            Ok(RetChecked::Accept(m)) => {
                self.hist.add("ret:accept");
                let names = Names::build(&m);
                let (nodes, errors) = walk_module(&m, &names);
                self.nodes += nodes;
                let mut per: Vec<(String, Vec<String>)> = Vec::new();
                for id in m.function_registry.iter() {
                    if m.function_registry.get_intrinsic_data(id).is_some() {
                        continue;
                    }
                    // the placeholder of an uninstantiated function template has no body of its own
                    if !m.function_registry.get_function_signature(id).template_params.is_empty() && m.function_registry.get_template_instantiation_data(id).is_none() {
                        continue;
                    }
                    if let Some(imp) = m.function_registry.get_function_implementation(id) {
                        let mut v = Vec::new();
                        collect_returns(&m, &imp.scope_block, &mut v);
                        per.push((m.function_registry.get_function_name(id).to_string(), v));
                    }
                }
                per.sort();
                let obs = format!("accept {}", per.iter().map(|(n, v)| format!("{}:{}", n, v.join(","))).collect::<Vec<_>>().join(";"));
                let mut oracle = errors.first().map(|e| format!("FAIL:{}", e)).unwrap_or_else(|| "ok".into());
                // every Return of function `x` has exactly the type the request declares for `x`
                for (name, types) in &per {
                    let Some((_, want)) = sp.funcs.iter().find(|(n, _)| n == name) else {
                        // an uninstantiated template's placeholder implementation has no statements
                        if !types.is_empty() {
                            oracle = format!("FAIL:return statement in a function the request does not declare: {}", name);
                        }
                        continue;
                    };
                    for t in types {
                        let exact = if t == "-" { want == "v" } else { t == want };
                        if !exact {
                            oracle = format!("FAIL:return of type {} in function {} which returns {}", t, name, want);
                        }
                    }
                }
                if let Some((owner, want, got)) = bad {
                    oracle = format!(
                        "FAIL:ill-typed program accepted: return of {} in function {} which returns {}",
                        got.as_deref().unwrap_or("nothing"),
                        owner,
                        want
                    );
                }
                (obs, oracle)
            }
        };
        out.case(&req, &obs, &oracle);
    }
}

// ------------------------------------------------------------------------------------------- generator

const RTYPES: &[&str] = &["f", "i", "b", "f2", "i2", "s0", "s1", "v"];
const ARGS: &[&str] = &["f", "i", "f2", "i2", "s0", "s1"];
const FORMS: &[&str] = &["local", "cast", "sizeof", "twice", "init"];

fn ret_item(v: &str) -> String {
    format!("(ret {})", v)
}

/// a value that is returnable / not returnable from a function of type `r` (resolved)
fn good_value(rng: &mut Rng, r: &str) -> String {
    match r {
        "v" => "-".into(),
        "s0" | "s1" => r.into(),
        _ => (*rng.pick(&["f", "i", "b", "f2", "i2"])).into(),
    }
}

fn bad_value(rng: &mut Rng, r: &str) -> String {
    match r {
        "v" => (*rng.pick(VALS)).into(),
        "s0" => (*rng.pick(&["s1", "f", "i2", "-"])).into(),
        "s1" => (*rng.pick(&["s0", "f", "i2", "-"])).into(),
        _ => (*rng.pick(&["s0", "s1", "-"])).into(),
    }
}

/// random method list: return types mostly different from `outer`
fn random_methods(rng: &mut Rng, outer: &str, arg: &str, depth: u32, bad_budget: &mut u32) -> String {
    let n = rng.below(4);
    let mut s = String::new();
    for _ in 0..n {
        let r = if rng.below(5) == 0 { "T" } else { *rng.pick(RTYPES) };
        let rr = if r == "T" { arg } else { r };
        let _ = outer;
        s.push_str(&format!(" (m {} {})", r, random_items(rng, rr, Some(arg), depth + 1, bad_budget)));
    }
    s
}

fn random_items(rng: &mut Rng, r: &str, targ: Option<&str>, depth: u32, bad_budget: &mut u32) -> String {
    let n = 1 + rng.below(if depth == 0 { 5 } else { 3 });
    let mut v = Vec::new();
    for _ in 0..n {
        match rng.below(if depth >= 3 { 4 } else { 9 }) {
            0..=2 => {
                let val = if *bad_budget > 0 && rng.below(6) == 0 {
                    *bad_budget -= 1;
                    bad_value(rng, r)
                } else if targ == Some(r) && rng.below(3) == 0 {
                    "T".into()
                } else {
                    good_value(rng, r)
                };
                v.push(ret_item(&val));
            }
            3 => v.push(format!("(if {})", random_items(rng, r, targ, depth.max(2), bad_budget))),
            4..=6 => {
                let a = if targ.is_some() && rng.below(3) == 0 { "T" } else { *rng.pick(ARGS) };
                let ra = if a == "T" { targ.unwrap() } else { a };
                v.push(format!("(st {} {}{})", rng.pick(FORMS), a, random_methods(rng, r, ra, depth, bad_budget)));
            }
            _ => {
                let a = if targ.is_some() && rng.below(3) == 0 { "T" } else { *rng.pick(ARGS) };
                let ra = if a == "T" { targ.unwrap() } else { a };
                let fr = if rng.below(4) == 0 { "T" } else { *rng.pick(RTYPES) };
                let rfr = if fr == "T" { ra } else { fr };
                v.push(format!("(ft {} {} {})", fr, a, random_items(rng, rfr, Some(ra), depth + 1, bad_budget)));
            }
        }
    }
    v.join(" ")
}

pub fn run_ret(r: &mut Runner, rng: &mut Rng, thorough: bool, n_random: u64, out: &mut Out) {
    // (a) one episode between function entry and a return: every outer return type x every form x method return types
    //     (one or two methods; the LAST method's type is what a "current function" left behind would be) x a well-typed
    //     and an ill-typed operand, the return directly after the episode and inside a nested block
    let outers: &[&str] = if thorough { RTYPES } else { &["f", "i2", "s0", "v"] };
    let lasts: &[&str] = if thorough { RTYPES } else { &["f", "i2", "s1", "v", "T"] };
    for outer in outers {
        for last in lasts {
            for (fi, form) in FORMS.iter().enumerate() {
                for arg in if thorough { ARGS } else { &["f", "s0"][..] } {
                    let rl: &str = if *last == "T" { *arg } else { *last };
                    let first = RTYPES[(fi + outer.len() + last.len()) % RTYPES.len()];
                    let m_first = format!("(m {} (ret {}))", first, good_value(rng, first));
                    let m_last = format!("(m {} (ret {}))", last, if *last == "T" { "T".to_string() } else { good_value(rng, rl) });
                    let methods = if fi % 2 == 0 { m_last.clone() } else { format!("{} {}", m_first, m_last) };
                    let st = format!("(st {} {} {})", form, arg, methods);
                    // values: returnable from the outer function / returnable only from the last method
                    let good = good_value(rng, outer);
                    let mut vals = vec![good, bad_value(rng, outer)];
                    if !returnable(if rl == "v" { None } else { Some(rl) }, outer) {
                        vals.push(if rl == "v" { "-".to_string() } else { rl.to_string() });
                    }
                    for v in vals {
                        r.ret_case(&format!("(prog (fn {} {} (ret {})))", outer, st, v), out);
                        if thorough || fi == 0 {
                            r.ret_case(&format!("(prog (fn {} (ret {}) {} (if (ret {})) (ret {})))", outer, good_value(rng, outer), st, v, good_value(rng, outer)), out);
                        }
                    }
                }
            }
            // the same with a function template (the episode whose caller context the code restores explicitly)
            for v in [good_value(rng, outer), bad_value(rng, outer)] {
                let arg = *rng.pick(ARGS);
                let rl = if *last == "T" { arg } else { last };
                r.ret_case(&format!("(prog (fn {} (ft {} {} (ret {})) (ret {})))", outer, last, arg, good_value(rng, rl), v), out);
            }
            // an ordinary struct with methods defined between two functions, and a template used by the second one only
            let v = bad_value(rng, outer);
            r.ret_case(
                &format!(
                    "(prog (fn {o} (ret {g})) (sm (m {l} (ret {lg})) (m {o} (st local f (m {l} (ret {lg}))) (ret {g2}))) (fn {o} (st cast i (m {l} (ret {lg}))) (ret {v})))",
                    o = outer,
                    l = if *last == "T" { "b" } else { last },
                    g = good_value(rng, outer),
                    g2 = good_value(rng, outer),
                    lg = good_value(rng, if *last == "T" { "b" } else { last }),
                    v = v
                ),
                out,
            );
        }
    }
    // (b) nesting: a template instantiated inside a method of a template instantiated inside a function, returns at every level
    for outer in outers {
        for mid in ["f", "s1", "v", "T"] {
            for inner in ["i2", "s0", "v"] {
                for bad_at in 0..4u32 {
                    let pick = |rng: &mut Rng, lvl: u32, r: &str| if bad_at == lvl { bad_value(rng, r) } else { good_value(rng, r) };
                    let arg = *rng.pick(ARGS);
                    let rmid = if mid == "T" { arg } else { mid };
                    let vi = pick(rng, 1, inner);
                    let vm = pick(rng, 2, rmid);
                    let vo = pick(rng, 3, outer);
                    r.ret_case(
                        &format!("(prog (fn {} (st local {} (m {} (st sizeof T (m {} (ret {}))) (ret {}))) (ret {})))", outer, arg, mid, inner, vi, vm, vo),
                        out,
                    );
                    r.ret_case(
                        &format!("(prog (fn {} (ft {} {} (st cast T (m {} (ret {}))) (ret {})) (if (ret {}))))", outer, mid, arg, inner, vi, vm, vo),
                        out,
                    );
                }
            }
        }
    }
    // (c) random programs: mostly well typed, at most two ill-typed returns
    for _ in 0..n_random {
        let nroots = 1 + rng.below(3);
        let mut roots = Vec::new();
        let mut bad_budget = if rng.below(2) == 0 { 0 } else { 1 + rng.below(2) as u32 };
        for _ in 0..nroots {
            if rng.below(5) == 0 {
                roots.push(format!("(sm{})", random_methods(rng, "v", "f", 0, &mut bad_budget).replace(" T ", " f ").replace(" T ", " f ").replace("(ret T)", "(ret f)")));
            } else {
                let rt = *rng.pick(RTYPES);
                roots.push(format!("(fn {} {})", rt, random_items(rng, rt, None, 0, &mut bad_budget)));
            }
        }
        r.ret_case(&format!("(prog {})", roots.join(" ")), out);
    }
}

import RsslVerif.Spec.Sem
import RsslVerif.Model.Ieee
/-!
# `Spec.SemIeee` — the IEEE-754 reading of the comparison and conversion primitives (core Lean only)

One particular interpretation of the `fcmp / i2f / u2f / f2i / f2u` fields of `Prim`: what real hardware computes
(`Model/Ieee.lean`).  The theorems of `Thm/C01` hold for *every* `Prim`, hence for this one; it is used
(a) by the drivers as the concrete interpretation of the correspondence runs and
(b) in `Thm/C01` to state that the comparisons of a `Prim` are not each other's negations.
-/
namespace RsslVerif.Spec.Sem
open RsslVerif.Model

/-- IEEE-754 comparison of two binary32 bit patterns: every ordered comparison with a NaN is false, `!=` is true -/
def ieeeCmp (m : MBin) (x y : BitVec 32) : Bool :=
  match m with
  | .lt => Ieee.lt x y | .le => Ieee.le x y | .gt => Ieee.lt y x | .ge => Ieee.le y x
  | .eq => Ieee.eq x y | .ne => !Ieee.eq x y | _ => false

/-- `base` with the real comparisons and int <-> float conversions -/
def Prim.withIeee (base : Prim) : Prim :=
  { base with fcmp := ieeeCmp, i2f := Ieee.i2f, u2f := Ieee.u2f, f2i := Ieee.f2i, f2u := Ieee.f2u }

end RsslVerif.Spec.Sem

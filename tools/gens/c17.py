"""Gen.CompileTables: facts re-extracted from src/compile.rs and every reader of `Module.pipelines`."""
import os
import re


def register(gen, T):
    R = T  # translate module

    @gen("CompileTables")
    def compile_tables():
        from rustsrc import ExtractError, fn_body, first_match, match_arms, lean_str, normws
        compile_rs = T.src("src/compile.rs")
        out = [T.header("CompileTables", ["src/compile.rs", "all crates (readers of Module.pipelines)"])]
        body = fn_body(compile_rs, "compile")
        bp = fn_body(compile_rs, "build_pipeline")

        # --- MSL entry point names per stage (match stage.stage inside the Msl arm of build_pipeline)
        m = re.search(r'entry_point:\s*String::from\(\s*match\s+stage\.stage\s*\{', bp)
        if not m:
            raise ExtractError("MSL entry_point match not found in build_pipeline")
        scrut, arms_text, _ = first_match(bp, r'^stage\.stage$', m.start())
        stages = []
        for pats, guard, result in match_arms(arms_text):
            if guard is not None:
                raise ExtractError("guard in MSL entry name match")
            sm = re.fullmatch(r'"([A-Za-z0-9_]+)"', result)
            if not sm:
                raise ExtractError(f"MSL entry name {result!r}")
            for p in pats:
                pm = re.fullmatch(r'ShaderStage::([A-Za-z]+)', p)
                if not pm:
                    raise ExtractError(f"stage pattern {p!r}")
                stages.append((pm.group(1), sm.group(1)))
        out.append("inductive Stage where | Vertex | Task | Mesh | Pixel | Compute\n  deriving DecidableEq, Repr, Inhabited\n\n")
        out.append("def Stage.name : Stage → String\n  | .Vertex => \"Vertex\" | .Task => \"Task\" | .Mesh => \"Mesh\" | .Pixel => \"Pixel\" | .Compute => \"Compute\"\n\n")
        out.append("/-- entry point names reported for Metal (build_pipeline, Msl arm) -/\ndef mslEntryName : Stage → String\n")
        seen = set()
        for st, nm in stages:
            if st in seen:
                continue
            seen.add(st)
            out.append(f"  | .{st} => {lean_str(nm)}\n")
        if seen != {"Vertex", "Task", "Mesh", "Pixel", "Compute"}:
            raise ExtractError(f"MSL entry names cover {sorted(seen)}")
        # HLSL reports the name the exporter generated for each stage's entry function (in stage order)
        nbp0 = normws(bp)
        hl = (re.search(r'for \(stage, entry_point\) in pipeline \.stages \.iter\(\) \.zip\(&exported_source\.entry_point_names\)', nbp0)
              and re.search(r'entry_point: entry_point\.clone\(\),', nbp0))
        hlsl_lib = normws(T.src("hlsl/src/ast_generate.rs"))
        gen_names = re.search(r'for stage in &module\.pipelines\[pipeline\]\.stages \{ entry_point_names\.push\(context\.get_function_name\(stage\.entry_point\)\?\.to_string\(\)\); \}', hlsl_lib)
        out.append(f"\n/-- HLSL stages report the exporter's generated name of the entry function, one per stage in order -/\ndef hlslReportsEmittedName : Bool := {'true' if (hl and gen_names) else 'false'}\n\n")
        # --- shape of the selection loop
        nb = normws(body)
        facts = {
            "noPipelineModeBuildsOnce": r'if args\.no_pipeline_mode \{ output_pipelines\.push\(build_pipeline\( &args, &ir, &source_manager, &binding_params, None,',
            "loopsOverPipelinesInOrder": r'\} else \{ for pipeline in &ir\.pipelines \{',
            "nameFilterSkips": r'if let Some\(name\) = args\.pipeline_name && pipeline\.name\.node != name \{ continue; \}',
            "buildsSelected": r'output_pipelines\.push\(build_pipeline\( &args, &ir, &source_manager, &binding_params, Some\(pipeline\),',
            "multiplePanics": r'if let Some\(name\) = args\.pipeline_name \{ if output_pipelines\.len\(\) > 1 \{ panic!\(',
            "unknownNameIsError": r'if output_pipelines\.is_empty\(\) \{ return Err\(CompileError::Text\(format!\( "Shader does not contain the pipeline: \{\}", name \)\)\); \}',
            "noPipelineIsError": r'\} else if output_pipelines\.is_empty\(\) && !args\.no_pipeline_mode \{ return Err\(CompileError::Text\(String::from\( "Shader does not contain a single pipeline", \)\)\); \}',
            "returnsAllOutputs": r'Ok\(output_pipelines\)\s*$',
        }
        out.append("/-- syntactic facts about compile()'s selection loop (each is a regex over the normalised source) -/\n")
        out.append("structure LoopShape where\n" + "".join(f"  {k} : Bool\n" for k in facts) + "  deriving DecidableEq, Repr\n\n")
        vals = []
        for k, rx in facts.items():
            vals.append(f"{k} := {'true' if re.search(rx, nb) else 'false'}")
        out.append("def loopShape : LoopShape := { " + ", ".join(vals) + " }\n\n")
        # build_pipeline selects by name and clones
        nbp = normws(bp)
        sel = re.search(r'let ir = ir\.clone\(\); let ir = if let Some\(pipeline\) = pipeline \{ ir\.select_pipeline\(&pipeline\.name\)\.unwrap\(\) \} else \{ ir \};', nbp)
        out.append(f"def buildClonesAndSelectsByName : Bool := {'true' if sel else 'false'}\n\n")
        # Module::select_pipeline marks the one pipeline whose name is *equal* to the requested name; assign_api_bindings
        # takes the default bind group from the marked pipeline
        irm = T.src("ir/src/ir_module.rs")
        sp = re.sub(r'\s+', '', fn_body(irm, "select_pipeline"))
        sel_exact = sp == ("letmutselected=None;for(i,pipeline)inself.pipelines.iter().enumerate(){ifpipeline.name.node==name{"
                           "assert_eq!(selected,None);selected=Some(i);}}selected?;letmutoutput=self.clone();"
                           "output.selected_pipeline=selected;Some(output)")
        ab = re.sub(r'\s+', '', fn_body(irm, "assign_api_bindings"))
        dset = "letdefault_set=matchself.selected_pipeline{Some(index)=>self.pipelines[index].default_bind_group_index,None=>0,};" in ab
        out.append(f"def selectPipelineByExactName : Bool := {'true' if sel_exact else 'false'}\n\n")
        out.append(f"def defaultSetFromSelectedPipeline : Bool := {'true' if dset else 'false'}\n\n")

        # --- every textual use of `.pipelines` in non-test sources, classified
        uses = []
        for crate in ["src", "ir/src", "hlsl/src", "msl/src", "typer/src", "parser/src", "formatter/src", "preprocess/src", "text/src", "ast/src"]:
            base = os.path.join(T.REPO, crate)
            for dp, _, files in os.walk(base):
                for fn in sorted(files):
                    if not fn.endswith(".rs") or fn.endswith("tests.rs"):
                        continue
                    rel = os.path.relpath(os.path.join(dp, fn), T.REPO)
                    text = T.src(rel)
                    for m in re.finditer(r'\.pipelines\b(\s*\[[^\]]*\]|\s*\.\s*[a-z_]+\s*\(|\s*\{)?', text):
                        tail = normws(m.group(1) or "")
                        pre = re.sub(r'\s*\.\s*', '.', text[max(0, m.start() - 60):m.start()] + '.')[:-1]
                        owner = re.search(r'([A-Za-z_\.]+)$', pre)
                        owner = owner.group(1) if owner else "?"
                        if tail.startswith("["):
                            idx = tail[1:-1].strip()
                            cls = "index:" + idx
                        elif tail.startswith("."):
                            cls = "method:" + re.sub(r'[\s\.\(]', '', tail)
                        else:
                            cls = "plain"
                        uses.append((rel, owner, cls))
        out.append("/-- every textual use of `.pipelines` in non-test sources: (file, receiver, use class) -/\n")
        out.append("def pipelineUses : List (String × String × String) := [\n")
        out.append(",\n".join(f"  ({lean_str(a)}, {lean_str(b)}, {lean_str(c)})" for a, b, c in sorted(set(uses))))
        out.append("\n]\n")
        out.append(T.footer("CompileTables"))
        return "".join(out)


def squash(s):
    """remove all whitespace except where it separates two identifier characters"""
    s = re.sub(r'\s+', ' ', s).strip()
    return re.sub(r' ?([^A-Za-z0-9_ ]) ?', r'\1', s)


def _register_pipeline_tables(gen, T):
    @gen("PipelineTables")
    def pipeline_tables():
        from rustsrc import ExtractError, fn_body, first_match, match_arms, lean_str, normws
        rel = "typer/src/typer/pipelines.rs"
        text = T.src(rel)
        out = [T.header("PipelineTables", [rel, "typer/src/typer.rs", "ir/src/intrinsic_data.rs"])]
        pp = fn_body(text, "parse_pipeline")
        add = fn_body(text, "add_stage")
        pbs = fn_body(text, "parse_blend_state")

        def str_pats(pats):
            r = []
            for p in pats:
                m = re.fullmatch(r'"([A-Za-z0-9_]+)"', p)
                if not m:
                    return None
                r.append(m.group(1))
            return r

        # ---- entry pass: property name -> stage
        i0 = pp.index("let mut remaining_properties")
        _, arms_text, end1 = first_match(pp, r'^property\.property\.as_str\(\)$', i0)
        stage_props = []
        saw_rest = False
        for pats, guard, result in match_arms(arms_text):
            if guard is not None:
                raise ExtractError("guard in the entry-point match")
            if pats == ["_"]:
                if squash(result) != "remaining_properties.push(property)":
                    raise ExtractError("entry-point match: catch-all arm is not `remaining_properties.push(property)`")
                saw_rest = True
                continue
            names = str_pats(pats)
            m = re.fullmatch(r'add_stage\(&property\.value,ir::ShaderStage::([A-Za-z]+),context,&mut pipeline,?\)\?', squash(result))
            if not names or not m:
                raise ExtractError(f"entry-point match arm {pats!r} => {result!r}")
            for n in names:
                stage_props.append((n, m.group(1)))
        if not saw_rest:
            raise ExtractError("entry-point match has no catch-all arm")
        out.append("/-- parse_pipeline, first pass: property name -> shader stage handed to add_stage (anything else is kept for the state pass) -/\n")
        out.append("def stageProps : List (String × String) := " + T.lean_list(f"({lean_str(a)}, {lean_str(b)})" for a, b in stage_props) + "\n\n")

        # ---- state pass: property name -> (kind, needs a graphics pipeline)
        i1 = pp.index("for property in &remaining_properties")
        _, arms2, _ = first_match(pp, r'^property\.property\.as_str\(\)$', i1)
        state_props = []
        unknown_ok = False
        guard_rx = r'if is_compute\{return Err\(TyperError::PipelinePropertyRequiresGraphicsPipeline\(property\.property\.location,?\)\);\}'
        for pats, guard, result in match_arms(arms2):
            if guard is not None:
                raise ExtractError("guard in the state match")
            sq = squash(result)
            if pats == ["_"]:
                unknown_ok = re.fullmatch(r'\{return Err\(TyperError::PipelinePropertyUnknown\(property\.property\.location,?\)\);\}', sq) is not None
                continue
            names = str_pats(pats)
            if not names:
                raise ExtractError(f"state match patterns {pats!r}")
            needs_gfx = re.search(guard_rx, sq) is not None
            body = re.sub(guard_rx, '', sq)
            if re.fullmatch(r'\{let index=\(property\.property\.as_str\(\)\.as_bytes\(\)\[18\]-b\'0\'\)as usize;if gpo\.render_target_formats\.len\(\)<index\+1\{gpo\.render_target_formats\.resize\(index\+1,None\);\}assert!\(gpo\.render_target_formats\[index\]\.is_none\(\)\);gpo\.render_target_formats\[index\]=Some\(extract_string\(&property\.value\)\?\.to_string\(\)\);\}', body):
                for n in names:
                    if len(n) != 19 or not n[18].isdigit():
                        raise ExtractError(f"render target property {n!r}")
                    state_props.append((n, "rt:" + n[18], needs_gfx))
            elif re.fullmatch(r'\{assert!\(gpo\.depth_target_format\.is_none\(\)\);gpo\.depth_target_format=Some\(extract_string\(&property\.value\)\?\.to_string\(\)\);\}', body):
                state_props += [(n, "depth", needs_gfx) for n in names]
            elif re.fullmatch(r'\{let value=extract_uint32\(&property\.value,context\)\?;pipeline\.default_bind_group_index=value;\}', body):
                state_props += [(n, "group", needs_gfx) for n in names]
            elif re.fullmatch(r'\{assert!\(!cull_mode_set\);cull_mode_set=true;gpo\.cull_mode=extract_cull_mode\(property\)\?;\}', body):
                state_props += [(n, "cull", needs_gfx) for n in names]
            elif re.fullmatch(r'\{assert!\(!winding_order_set\);winding_order_set=true;gpo\.winding_order=extract_winding_order\(property\)\?;\}', body):
                state_props += [(n, "winding", needs_gfx) for n in names]
            elif re.fullmatch(r'\{shared_blend_state=parse_blend_state\(&property\.value,context\)\?;\}', body):
                state_props += [(n, "blendShared", needs_gfx) for n in names]
            elif re.fullmatch(r'\{let index=\(property\.property\.as_str\(\)\.as_bytes\(\)\[10\]-b\'0\'\)as usize;gpo\.blend_state\.attachments\[index\]=parse_blend_state\(&property\.value,context\)\?;blend_state_set\[index\]=true;\}', body):
                for n in names:
                    if len(n) != 11 or not n[10].isdigit() or int(n[10]) > 7:
                        raise ExtractError(f"indexed blend property {n!r}")
                    state_props.append((n, "blend:" + n[10], needs_gfx))
            else:
                raise ExtractError(f"state match arm {pats!r} has an unknown body: {sq[:200]}")
        out.append("/-- parse_pipeline, state pass: property name -> (what the arm does, guarded by `if is_compute { return Err(..RequiresGraphicsPipeline) }`) -/\n")
        def lean_kind(k):
            if k.startswith("rt:"):
                return f".rt {k[3:]}"
            if k.startswith("blend:"):
                return f".blend {k[6:]}"
            return "." + k
        out.append("inductive StateKind where\n  | rt (i : Nat) | depth | group | cull | winding | blendShared | blend (i : Nat)\n  deriving DecidableEq, Repr\n\n")
        out.append("def stateProps : List (String × StateKind × Bool) := " + T.lean_list(
            f"({lean_str(a)}, {lean_kind(b)}, {'true' if c else 'false'})" for a, b, c in state_props) + "\n\n")

        # ---- string -> enum variant tables
        def enum_table(fn_name, extractor, enum_name):
            b = fn_body(text, fn_name)
            _, arms, _ = first_match(b, r'^' + extractor + r'\(&property\.value\)\?$')
            rows = []
            ok_default = False
            for pats, guard, result in match_arms(arms):
                if pats == ["_"]:
                    ok_default = re.fullmatch(r'\{return Err\(TyperError::PipelinePropertyArgumentUnknown\(property\.property\.location,?\)\);\}', squash(result)) is not None
                    continue
                names = str_pats(pats)
                m = re.fullmatch(r'ir::' + enum_name + r'::([A-Za-z0-9_]+)', squash(result))
                if not names or not m or guard is not None:
                    raise ExtractError(f"{fn_name}: arm {pats!r} => {result!r}")
                rows += [(n, m.group(1)) for n in names]
            if not ok_default:
                raise ExtractError(f"{fn_name}: default arm is not ArgumentUnknown at the property name")
            return rows
        for lean_name, fn_name, enum_name in [("cullModes", "extract_cull_mode", "CullMode"),
                                              ("windingOrders", "extract_winding_order", "WindingOrder"),
                                              ("blendFactors", "extract_blend_factor", "BlendFactor"),
                                              ("blendOps", "extract_blend_op", "BlendOp")]:
            rows = enum_table(fn_name, "extract_string", enum_name)
            out.append(f"/-- {fn_name}: string literal -> ir::{enum_name} variant (anything else: ArgumentUnknown) -/\n")
            out.append(f"def {lean_name} : List (String × String) := " + T.lean_list(f"({lean_str(a)}, {lean_str(b)})" for a, b in rows) + "\n\n")

        # ---- defaults of the state
        ir_text = T.src("ir/src/ir_pipelines.rs")

        def default_variant(enum_name):
            m = re.search(r'\benum\s+' + enum_name + r'\s*\{(.*?)\}', ir_text, re.S)
            if not m:
                raise ExtractError(f"enum {enum_name}")
            d = re.search(r'#\[default\]\s*([A-Za-z0-9_]+)', m.group(1))
            if not d:
                raise ExtractError(f"enum {enum_name} has no #[default]")
            return d.group(1)
        bas = re.search(r'impl Default for BlendAttachmentState\s*\{(.*?)\n\}', ir_text, re.S)
        if not bas:
            raise ExtractError("Default for BlendAttachmentState")
        sqd = squash(bas.group(1))
        defaults = {}
        for f in ["src_blend", "dst_blend", "src_blend_alpha", "dst_blend_alpha"]:
            m = re.search(f + r':BlendFactor::([A-Za-z0-9]+),', sqd)
            if not m:
                raise ExtractError(f"default of {f}")
            defaults[f] = m.group(1)
        for f in ["blend_enabled", "blend_op", "blend_op_alpha", "write_mask"]:
            if not re.search(f + r':Default::default\(\),', sqd):
                raise ExtractError(f"default of {f}")
        cm = re.search(r'impl Default for ComponentMask\{fn default\(\)->Self\{ComponentMask\(0x([0-9A-Fa-f]+)\)\}\}', squash(ir_text))
        if not cm:
            raise ExtractError("Default for ComponentMask")
        out.append("/-- defaults: (cull mode, winding order, blend op, src factor, dst factor, src alpha factor, dst alpha factor, write mask) -/\n")
        out.append("def stateDefaults : String × String × String × String × String × String × String × Nat := (" + ", ".join([
            lean_str(default_variant("CullMode")), lean_str(default_variant("WindingOrder")), lean_str(default_variant("BlendOp")),
            lean_str(defaults["src_blend"]), lean_str(defaults["dst_blend"]), lean_str(defaults["src_blend_alpha"]),
            lean_str(defaults["dst_blend_alpha"]), str(int(cm.group(1), 16))]) + ")\n\n")

        # ---- blend sub-properties
        _, arms3, _ = first_match(pbs, r'^property\.property\.as_str\(\)$')
        sub = []
        sub_unknown = False
        for pats, guard, result in match_arms(arms3):
            sq = squash(result)
            if pats == ["_"]:
                sub_unknown = re.fullmatch(r'\{return Err\(TyperError::PipelinePropertyUnknown\(property\.property\.location,?\)\);\}', sq) is not None
                continue
            names = str_pats(pats)
            if not names or guard is not None:
                raise ExtractError(f"parse_blend_state arm {pats!r}")
            m = re.fullmatch(r'state\.([a-z_]+)=extract_(bool|blend_factor|blend_op)\((&property\.value|property)\)\?', sq)
            if m:
                sub += [(n, m.group(2), m.group(1)) for n in names]
            elif re.fullmatch(r'\{let value=extract_uint32\(&property\.value,context\)\?;let value=match u8::try_from\(value\)\{Ok\(value\)=>value,_=>\{return Err\(TyperError::PipelinePropertyRequiresIntegerArgument\(property\.value\.location,?\)\);\}\};state\.write_mask=ir::ComponentMask\(value\);\}', sq):
                sub += [(n, "u8", "write_mask") for n in names]
            else:
                raise ExtractError(f"parse_blend_state arm {pats!r}: {sq[:160]}")
        out.append("/-- parse_blend_state: sub-property -> (value kind, field written) -/\n")
        kinds = {"bool": ".bool", "blend_factor": ".factor", "blend_op": ".op", "u8": ".u8"}
        fields = {"blend_enabled": ".blendEnabled", "src_blend": ".srcBlend", "dst_blend": ".dstBlend", "blend_op": ".blendOp",
                  "src_blend_alpha": ".srcBlendAlpha", "dst_blend_alpha": ".dstBlendAlpha", "blend_op_alpha": ".blendOpAlpha",
                  "write_mask": ".writeMask"}
        for a, b, c in sub:
            if b not in kinds or c not in fields:
                raise ExtractError(f"parse_blend_state: {a} has kind {b} / field {c}")
            want = {"bool": ["blend_enabled"], "blend_op": ["blend_op", "blend_op_alpha"], "u8": ["write_mask"],
                    "blend_factor": ["src_blend", "dst_blend", "src_blend_alpha", "dst_blend_alpha"]}[b]
            if c not in want:
                raise ExtractError(f"parse_blend_state: {a} writes {c} with a value of kind {b}")
        out.append("inductive SubKind where | bool | factor | op | u8\n  deriving DecidableEq, Repr\n\n")
        out.append("inductive BlendField where\n  | blendEnabled | srcBlend | dstBlend | blendOp | srcBlendAlpha | dstBlendAlpha | blendOpAlpha | writeMask\n  deriving DecidableEq, Repr\n\n")
        out.append("def blendSubProps : List (String × SubKind × BlendField) := " + T.lean_list(
            f"({lean_str(a)}, {kinds[b]}, {fields[c]})" for a, b, c in sub) + "\n\n")

        # ---- intrinsic free functions (they live in the same function registry the entry lookup scans)
        idata = T.src("ir/src/intrinsic_data.rs")
        m = re.search(r'const INTRINSICS: &\[IntrinsicDefinition\] = &\[(.*?)\n\];', idata, re.S)
        if not m:
            raise ExtractError("INTRINSICS table")
        names = []
        for mm in re.finditer(r'f!\s*\{\s*[A-Za-z0-9_]+\s+([A-Za-z_][A-Za-z0-9_]*)\s*\(', m.group(1)):
            if mm.group(1) not in names:
                names.append(mm.group(1))
        if len(names) < 50:
            raise ExtractError("INTRINSICS table: too few names")
        out.append("/-- names of the intrinsic free functions (registered in the function registry before any user code) -/\n")
        out.append("def intrinsicFunctionNames : List String := " + T.lean_list(lean_str(n) for n in names) + "\n\n")

        # ---- control skeleton fingerprints (exact text, whitespace squashed)
        spp, sadd, spbs = squash(pp), squash(add), squash(pbs)
        typer_rs = squash(T.src("typer/src/typer.rs"))
        facts = {
            # the name must be new, checked against the pipelines pushed so far, before anything else
            "dupNameCheckedFirst": spp.startswith(
                "if context.module.pipelines.iter().any(|existing|existing.name.node==def.name.node){return Err(TyperError::PipelineAlreadyDefined(def.name.location));}"
                "let mut pipeline=ir::PipelineDefinition{name:def.name.clone(),default_bind_group_index:0,stages:Vec::new(),graphics_pipeline_state:None,};"),
            "dupPropsChecked": (
                "for i in 1..def.properties.len(){let new_property=&def.properties[i];let before_properties=&def.properties[..i];"
                "for before_prop in before_properties{if new_property.property.as_str()==before_prop.property.as_str(){"
                "return Err(TyperError::PipelinePropertyDuplicate(new_property.property.location,));}}}") in spp,
            "entryPassInOrder": "let mut remaining_properties=Vec::new();for property in&def.properties{match property.property.as_str(){" in spp,
            "noEntryPointChecked": "if pipeline.stages.is_empty(){return Err(TyperError::PipelineNoEntryPoint(pipeline.name.location));}" in spp,
            "computeFromFirstStage": "let is_compute=pipeline.stages[0].stage==ir::ShaderStage::Compute;" in spp,
            "stageCombinationChecked": (
                "if is_compute{if pipeline.stages.len()!=1{return Err(TyperError::PipelineInvalidStageCombination(pipeline.name.location,));}}"
                "else{for stage in&pipeline.stages{if stage.stage==ir::ShaderStage::Compute{return Err(TyperError::PipelineInvalidStageCombination(pipeline.name.location,));}}}") in spp,
            "statePassInOrder": "for property in&remaining_properties{match property.property.as_str(){" in spp,
            "stateUnknownPropertyIsError": unknown_ok,
            "sharedBlendFillsUnset": "for(i,set)in blend_state_set.iter().enumerate(){if!set{gpo.blend_state.attachments[i]=shared_blend_state;}}" in spp,
            "stateOnlyOnGraphics": "if!is_compute{pipeline.graphics_pipeline_state=Some(gpo);}else{" in spp,
            "pushedLast": spp.endswith("context.module.pipelines.push(pipeline);Ok(())"),
            # add_stage
            "entryMustBeTrivialIdentifier": sadd.startswith(
                "let location=entry_name.location;let entry_name=match&entry_name.node{ast::PipelinePropertyValue::Single(ast::Expression::Identifier(id))=>{"
                "match id.try_trivial(){Some(name)=>name.as_str(),None=>return Err(TyperError::PipelineEntryPointFunctionUnknown(location)),}}"
                "_=>return Err(TyperError::PipelineEntryPointFunctionUnknown(location)),};"),
            # the lookup walks the *live* registry of the module on every call: no table, no cache
            "entryLookupScansLiveRegistry": (
                "let mut func_id=None;for id in context.module.function_registry.iter(){let name=context.module.function_registry.get_function_name(id);"
                "if name==entry_name{if func_id.is_some(){return Err(TyperError::PipelineEntryPointFunctionUnknown(location));}func_id=Some(id);}}") in sadd
                and "let func_id=match func_id{Some(id)=>id,None=>return Err(TyperError::PipelineEntryPointFunctionUnknown(location)),};" in sadd,
            "templateRejected": (
                "let is_template=!context.module.function_registry.get_function_signature(func_id).template_params.is_empty();"
                "if is_template{return Err(TyperError::PipelineEntryPointFunctionUnknown(location));}") in sadd,
            "bodyRequired": (
                "let function_impl=match context.module.function_registry.get_function_implementation(func_id){Some(function_impl)=>function_impl,"
                "None=>return Err(TyperError::PipelineEntryPointFunctionUnknown(location)),};") in sadd,
            "threadsFromNumThreadsAttribute": (
                "for attribute in&function_impl.attributes.clone(){if let ir::FunctionAttribute::NumThreads(x,y,z)=attribute{" in sadd
                and "thread_group_size=Some((x,y,z));}}" in sadd),
            # every numthreads argument of the implementation must evaluate to a u32, else a location-less diagnostic
            "numthreadsMustEvaluateToU32": (
                "let mut evaluate=|expr:&ir::Expression|{let value=match crate::evaluator::evaluate_constexpr(expr,&mut context.module){Ok(value)=>value,"
                "_=>{return Err(TyperError::PipelinePropertyRequiresIntegerArgument(SourceLocation::UNKNOWN,));}};"
                "let integer=match value.to_uint64(){Some(v)if v<=u32::MAX as u64=>v as u32,"
                "_=>{return Err(TyperError::PipelinePropertyRequiresIntegerArgument(SourceLocation::UNKNOWN,));}};Ok(integer)};"
                "let x=evaluate(x)?;let y=evaluate(y)?;let z=evaluate(z)?;thread_group_size=Some((x,y,z));") in sadd,
            # an integer property value is type checked by parse_expr on the *live* context (this is how a value can
            # instantiate a template: `instancesOf`, known finding property-value-instantiates-template)
            "uintValueCheckedOnLiveContext": (
                "let value_expr=super::expressions::parse_expr(property_value,context)?;"
                "let value_res=crate::evaluator::evaluate_constexpr(&value_expr.0,&mut context.module);"
                "let value=match value_res{Ok(value)=>value,_=>{return Err(TyperError::PipelinePropertyRequiresIntegerArgument(property.location,));}};"
                "match value.to_uint64(){Some(v)if v<=u32::MAX as u64=>Ok(v as u32),_=>Err(TyperError::PipelinePropertyRequiresIntegerArgument(property.location,)),}") in squash(fn_body(text, "extract_uint32")),
            "stagePushed": sadd.endswith("def.stages.push(ir::PipelineStage{stage,entry_point:func_id,thread_group_size,});Ok(())"),
            # parse_blend_state
            "blendNeedsAggregate": spbs.startswith(
                "let properties=match&properties.node{rssl_ast::PipelinePropertyValue::Single(_)=>{return Err(TyperError::PipelinePropertyArgumentUnknown(properties.location,));}"
                "rssl_ast::PipelinePropertyValue::Aggregate(properties)=>properties,};let mut state=ir::BlendAttachmentState::default();for property in properties{"),
            "blendUnknownSubPropertyIsError": sub_unknown,
            # typer.rs: definitions are processed in file order, a Pipeline block is handed to parse_pipeline where it stands
            "rootDefinitionsInOrder": "for def in&ast.root_definitions{let mut def_ir=parse_rootdefinition(def,context)?;context.module.root_definitions.append(&mut def_ir);}" in typer_rs,
            "pipelineHandledInPlace": "ast::RootDefinition::Pipeline(def)=>{pipelines::parse_pipeline(def,context)?;Ok(Vec::new())}" in typer_rs,
        }
        out.append("/-- syntactic facts about parse_pipeline / add_stage / parse_blend_state / type_check_internal (exact text, whitespace removed) -/\n")
        out.append("structure TyperShape where\n" + "".join(f"  {k} : Bool\n" for k in facts) + "  deriving DecidableEq, Repr\n\n")
        out.append("def typerShape : TyperShape := { " + ", ".join(f"{k} := {'true' if v else 'false'}" for k, v in facts.items()) + " }\n\n")

        # ---- everything pipelines.rs reaches through the typer context
        uses = set()
        sq_all = squash(text)
        for m in re.finditer(r'\bcontext((?:\.[a-z_][a-z0-9_]*)*)', sq_all):
            tail = m.group(1)
            nxt = sq_all[m.end():m.end() + 1]
            # a trailing `(` means the last component is a method call
            uses.add("context" + tail + ("()" if nxt == "(" and tail else ""))
        out.append("/-- every way pipelines.rs touches the typer context (field paths and method calls, textual) -/\n")
        out.append("def contextUses : List String := " + T.lean_list(lean_str(u) for u in sorted(uses)) + "\n")
        out.append(T.footer("PipelineTables"))
        return "".join(out)


_old_register = register


def register(gen, T):  # noqa: F811
    _old_register(gen, T)
    _register_pipeline_tables(gen, T)

import RsslVerif.Gen.FmtTables
import RsslVerif.Gen.ParseTables
/-!
# C09 model, printing half: `format_subexpression` and friends of `formatter/src/formatter.rs`

The printer produces *pieces*: tokens (with their text) and explicit spaces, so that both the text
(`render`) and the token stream the lexer will produce (`toks`) can be read off the same value.
Tables (precedence, associativity, spelling, the equal-precedence rule, the sign characters, the
(outer precedence, side) used at every child position) come from `Gen.FmtTables`; the lexer's symbol
tables from `Gen.ParseTables`.

Abstractions (stated in notes/C09.md): a scoped identifier `a::b` and a literal are one token each,
named by their text / by `kind value`; float literals are modelled only on a dyadic subset where Rust's
shortest-round-trip `Display` is the exact decimal expansion.
-/
namespace RsslVerif.Model.Format
open RsslVerif.Gen.FmtTables RsslVerif.Gen.ParseTables

/-! ## Syntax trees -/
mutual
inductive Expr where
  /-- literal, named `kind value` exactly as in the request syntax, e.g. `i 3`, `f32 0x3fc00000` -/
  | lit (n : String)
  /-- (scoped) identifier, named by its text, e.g. `a`, `N::v`, `::a` -/
  | id (n : String)
  | un (op : UnOp) (e : Expr)
  | bin (op : BinOp) (l r : Expr)
  | tern (c a b : Expr)
  | sub (o i : Expr)
  | mem (o : Expr) (n : String)
  | call (f : Expr) (args : Args)
inductive Args where
  | nil
  | cons (e : Expr) (rest : Args)
end

deriving instance Repr for Expr
deriving instance Repr for Args

mutual
def Expr.beq : Expr → Expr → Bool
  | .lit a, .lit b => a == b
  | .id a, .id b => a == b
  | .un o e, .un o' e' => o == o' && Expr.beq e e'
  | .bin o l r, .bin o' l' r' => o == o' && Expr.beq l l' && Expr.beq r r'
  | .tern c a b, .tern c' a' b' => Expr.beq c c' && Expr.beq a a' && Expr.beq b b'
  | .sub o i, .sub o' i' => Expr.beq o o' && Expr.beq i i'
  | .mem o n, .mem o' n' => Expr.beq o o' && n == n'
  | .call f a, .call f' a' => Expr.beq f f' && Args.beq a a'
  | _, _ => false
def Args.beq : Args → Args → Bool
  | .nil, .nil => true
  | .cons e r, .cons e' r' => Expr.beq e e' && Args.beq r r'
  | _, _ => false
end

/-! ## Pieces -/
inductive Piece where
  | t (tok : Tok) (text : String)
  | sp
  deriving Repr

def toks : List Piece → List Tok
  | [] => []
  | .t tok _ :: r => tok :: toks r
  | .sp :: r => toks r

def render : List Piece → String
  | [] => ""
  | .t _ s :: r => s ++ render r
  | .sp :: r => " " ++ render r

@[simp] theorem toks_nil : toks [] = [] := rfl
@[simp] theorem toks_cons_t (tok : Tok) (s : String) (r : List Piece) : toks (.t tok s :: r) = tok :: toks r := rfl
@[simp] theorem toks_cons_sp (r : List Piece) : toks (.sp :: r) = toks r := rfl
@[simp] theorem toks_append (a b : List Piece) : toks (a ++ b) = toks a ++ toks b := by
  induction a with
  | nil => rfl
  | cons p a ih => cases p <;> simp [toks, ih]

/-! ## Spelling of punctuation (inverse of the lexer's symbol tables) -/
def punctChars (p : Punct) : List Char :=
  match symOps.find? (fun e => e.2.1 == p) with
  | some e => [e.1]
  | none =>
    match symOps.find? (fun e => e.2.2.1 == some p) with
    | some e => [e.1, '=']
    | none =>
      match symOps.find? (fun e => e.2.2.2 == some p) with
      | some e => [e.1, e.1]
      | none =>
        match symSingles.find? (fun e => e.2 == p) with
        | some e => [e.1]
        | none => ['?', '?']

def pp (p : Punct) : Piece := .t (.p p) (String.ofList (punctChars p))

/-! ## A lexer for strings of operator characters (`symbol_op_or_op_equals`, `symbol_single`, `<`, `>`)

`lexSyms cs` lexes a string consisting of operator characters and spaces, maximal munch as the Rust
functions do it. Used to tie the operator token tables below to the generated spellings, and for
`glue_safe`. `none` = a character that is not an operator character. -/
def isSpace (c : Char) : Bool := c == ' '

def lexSym1 (c : Char) (rest : List Char) : Option (Tok × List Char) :=
  if c == '<' then some (.lt (match rest with | [] => false | d :: _ => !isSpace d), rest)
  else if c == '>' then some (.gt (match rest with | [] => false | d :: _ => !isSpace d), rest)
  else
    match symOps.find? (fun e => e.1 == c) with
    | some (_, op, opEq, opOp) =>
      match rest with
      | d :: rest' =>
        if d == '=' && opEq.isSome then opEq.map (fun t => (.p t, rest'))
        else if d == c && opOp.isSome then opOp.map (fun t => (.p t, rest'))
        else some (.p op, rest)
      | [] => some (.p op, rest)
    | none =>
      match symSingles.find? (fun e => e.1 == c) with
      | some (_, t) => some (.p t, rest)
      | none => none

def lexSyms : Nat → List Char → Option (List Tok)
  | 0, _ => none
  | _ + 1, [] => some []
  | f + 1, c :: rest =>
    if isSpace c then lexSyms f rest
    else
      match lexSym1 c rest with
      | some (t, rest') => (lexSyms f rest').map (t :: ·)
      | none => none

/-! ## Operator tokens (hand-written tables, tied to the generated spellings by `Thm.C09.*_lexes`) -/
def unTok : UnOp → Tok
  | .PrefixIncrement => .p .PlusPlus
  | .PrefixDecrement => .p .MinusMinus
  | .PostfixIncrement => .p .PlusPlus
  | .PostfixDecrement => .p .MinusMinus
  | .Plus => .p .Plus
  | .Minus => .p .Minus
  | .LogicalNot => .p .ExclamationPoint
  | .BitwiseNot => .p .Tilde
  | .Dereference => .p .Asterix
  | .AddressOf => .p .Ampersand

/-- tokens of a binary operator as printed, i.e. followed by a space -/
def binToks : BinOp → List Tok
  | .Add => [.p .Plus]
  | .Subtract => [.p .Minus]
  | .Multiply => [.p .Asterix]
  | .Divide => [.p .ForwardSlash]
  | .Modulus => [.p .Percent]
  | .LeftShift => [.lt true, .lt false]
  | .RightShift => [.gt true, .gt false]
  | .BitwiseAnd => [.p .Ampersand]
  | .BitwiseOr => [.p .VerticalBar]
  | .BitwiseXor => [.p .Hat]
  | .BooleanAnd => [.p .AmpersandAmpersand]
  | .BooleanOr => [.p .VerticalBarVerticalBar]
  | .LessThan => [.lt false]
  | .LessEqual => [.lt true, .p .Equals]
  | .GreaterThan => [.gt false]
  | .GreaterEqual => [.gt true, .p .Equals]
  | .Equality => [.p .EqualsEquals]
  | .Inequality => [.p .ExclamationPointEquals]
  | .Assignment => [.p .Equals]
  | .SumAssignment => [.p .PlusEquals]
  | .DifferenceAssignment => [.p .MinusEquals]
  | .ProductAssignment => [.p .AsterixEquals]
  | .QuotientAssignment => [.p .ForwardSlashEquals]
  | .RemainderAssignment => [.p .PercentEquals]
  | .LeftShiftAssignment => [.lt true, .lt true, .p .Equals]
  | .RightShiftAssignment => [.gt true, .gt true, .p .Equals]
  | .BitwiseAndAssignment => [.p .AmpersandEquals]
  | .BitwiseOrAssignment => [.p .VerticalBarEquals]
  | .BitwiseXorAssignment => [.p .HatEquals]
  | .Sequence => [.p .Comma]

/-- the operator as one piece carrying the whole spelling followed by the remaining tokens without text -/
def binPieces (op : BinOp) : List Piece :=
  match binToks op with
  | [] => []
  | t :: ts => .t t (binSpell op) :: ts.map (fun t => .t t "")

def unPiece (op : UnOp) : Piece := .t (unTok op) (unSpell op)

@[simp] theorem toks_binPieces (op : BinOp) : toks (binPieces op) = binToks op := by
  cases op <;> rfl

/-! ## Literals (`format_literal`, target HLSL) followed by what the lexer makes of the text -/
def natOfDec? (s : String) : Option Nat := if s.isEmpty then none else s.toNat?

def hexVal? (s : String) : Option Nat :=
  if s.startsWith "0x" then
    (s.drop 2).toString.toList.foldl (fun acc c =>
      match acc with
      | none => none
      | some a =>
        if '0' ≤ c ∧ c ≤ '9' then some (a * 16 + (c.toNat - '0'.toNat))
        else if 'a' ≤ c ∧ c ≤ 'f' then some (a * 16 + (c.toNat - 'a'.toNat + 10))
        else none) (some 0)
  else none

def hexDigits (width n : Nat) : String :=
  let ds := (List.range width).reverse.map fun i => "0123456789abcdef".toList.getD ((n / 16 ^ i) % 16) '0'
  String.ofList ds

/-- eighths of a binary float: `(negative, q)` with value `±q/8`, when the value is a multiple of 1/8 below 4096 -/
def eighths? (expBits manBits bits : Nat) : Option (Bool × Nat) :=
  let neg := bits / 2 ^ (expBits + manBits) % 2 == 1
  let e := bits / 2 ^ manBits % 2 ^ expBits
  let m := bits % 2 ^ manBits
  let bias := 2 ^ (expBits - 1) - 1
  if e == 0 then (if m == 0 then some (neg, 0) else none)
  else if e == 2 ^ expBits - 1 then none
  else
    -- value = (2^manBits + m) * 2^(e - bias - manBits); times 8
    let sig := 2 ^ manBits + m
    let sh := e + 3
    let lo := bias + manBits
    if sh ≥ lo then
      let q := sig * 2 ^ (sh - lo)
      if q < 8 * 4096 then some (neg, q) else none
    else
      let d := 2 ^ (lo - sh)
      if sig % d == 0 then some (neg, sig / d) else none

/-- Rust `Display` of `q/8` when it is not integral -/
def fracText (q : Nat) : String :=
  let frac := match q % 8 with
    | 1 => "125" | 2 => "25" | 3 => "375" | 4 => "5" | 5 => "625" | 6 => "75" | _ => "875"
  toString (q / 8) ++ "." ++ frac

/-- pieces of a literal named `kind value`; `none` = outside the modelled subset.
The tokens are the ones the lexer produces for the printed text (so a negative literal is a `-` and a literal). -/
def litPieces (n : String) : Option (List Piece) :=
  match n.splitOn " " with
  | ["b", "1"] => some [.t (.lit n) "true"]
  | ["b", "0"] => some [.t (.lit n) "false"]
  | ["i", v] => (natOfDec? v).map fun k => [.t (.lit ("i " ++ toString k)) (toString k)]
  | ["u", v] => (natOfDec? v).map fun k => [.t (.lit ("u " ++ toString k)) (toString k ++ "u")]
  | ["ul", v] => (natOfDec? v).map fun k => [.t (.lit ("ul " ++ toString k)) (toString k ++ "ul")]
  | ["l", v] =>
    if v.startsWith "-" then
      (natOfDec? (v.drop 1).toString).map fun k =>
        -- since dc17362 an `l` literal that does not fit in i64 is a lexer error (before: wrapped to i64::MIN)
        let name := if k ≥ 2 ^ 63 then "l!too-large" else "l " ++ toString k
        [.t (.p .Minus) "-", .t (.lit name) (toString k ++ "l")]
    else (natOfDec? v).map fun k => [.t (.lit ("l " ++ toString k)) (toString k ++ "l")]
  | ["f32", v] =>
    match (hexVal? v).bind (eighths? 8 23) with
    | some (neg, q) =>
      let text := if q % 8 == 0 then toString (q / 8) ++ ".0f" else fracText q ++ "f"
      let bits := (hexVal? v).getD 0 % 2 ^ 31
      let tok : Piece := .t (.lit ("f32 0x" ++ hexDigits 8 bits)) text
      some (if neg && q != 0 then [.t (.p .Minus) "-", tok] else [tok])
    | none => none
  | ["f", v] =>
    match (hexVal? v).bind (eighths? 11 52) with
    | some (neg, q) =>
      let text := if q % 8 == 0 then toString (q / 8) ++ ".0" else fracText q
      let bits := (hexVal? v).getD 0 % 2 ^ 63
      let tok : Piece := .t (.lit ("f 0x" ++ hexDigits 16 bits)) text
      some (if neg && q != 0 then [.t (.p .Minus) "-", tok] else [tok])
    | none => none
  | ["f64", v] =>
    match (hexVal? v).bind (eighths? 11 52) with
    | some (neg, q) =>
      -- since 8468e83 whole values print as `N.0L` (before: `NL`, which reads back as a 64-bit integer)
      let text := if q % 8 == 0 then toString (q / 8) ++ ".0L" else fracText q ++ "L"
      let bits := (hexVal? v).getD 0 % 2 ^ 63
      let tok : Piece := .t (.lit ("f64 0x" ++ hexDigits 16 bits)) text
      some (if neg && q != 0 then [.t (.p .Minus) "-", tok] else [tok])
    | none => none
  | ["h", v] =>
    -- Float16 literals carry an f32; whole values print as `N.0h` since 8468e83
    match (hexVal? v).bind (eighths? 8 23) with
    | some (neg, q) =>
      let text := if q % 8 == 0 then toString (q / 8) ++ ".0h" else fracText q ++ "h"
      let bits := (hexVal? v).getD 0 % 2 ^ 31
      let tok : Piece := .t (.lit ("h 0x" ++ hexDigits 8 bits)) text
      some (if neg && q != 0 then [.t (.p .Minus) "-", tok] else [tok])
    | none => none
  | _ => none

/-- the literal prints as exactly one token that reads back as itself -/
def LitOk (n : String) : Bool :=
  match litPieces n with
  | some [.t (.lit m) _] => m == n
  | _ => false

/-! ## `format_subexpression` -/
def Expr.prec : Expr → Nat
  | .lit _ => precLiteral
  | .id _ => precIdentifier
  | .un op _ => unPrec op
  | .bin op _ _ => binPrec op
  | .tern _ _ _ => precTernaryConditional
  | .sub _ _ => precArraySubscript
  | .mem _ _ => precMember
  | .call _ _ => precCall

/-- `requires_paren` -/
def needParen (p outer : Nat) (side : Side) : Bool :=
  if p > outer then true
  else if p < outer then false
  else !(noParenAtEqual side (assoc p))

def lp : Piece := pp .LeftParen
def rp : Piece := pp .RightParen

def wrap (b : Bool) (body : List Piece) : List Piece := if b then lp :: (body ++ [rp]) else body

/-- does the printed operand start with the operator's sign character? -/
def startsWithSign (op : UnOp) (operand : List Piece) : Bool :=
  match unSign op, operand with
  | some c, .t _ s :: _ => s.toList.head? == some c
  | _, _ => false

/-- `false_is_assignment` of the conditional arm -/
def falseIsAssignment (b : Expr) : Bool :=
  ternFalseAssignmentParens &&
  match b with
  | .bin op _ _ => binPrec op == precTernaryConditional && op != .Sequence
  | _ => false

/-- literal pieces, total: outside the modelled subset a placeholder (the driver answers `unsupported` there,
see `Expr.supported`; theorems assume `LitOk`) -/
def litPiecesT (n : String) : List Piece := (litPieces n).getD [.t (.lit n) "?"]

mutual
/-- `format_subexpression expr outer side` -/
def fmtSub : Expr → Nat → Side → List Piece
  | .lit n, outer, side => wrap (needParen precLiteral outer side) (litPiecesT n)
  | .id n, outer, side => wrap (needParen precIdentifier outer side) [.t (.id n) n]
  | .un op x, outer, side =>
    let inner := fmtSub x (unPrec op) (if isPostfix op then postfixOperandSide else prefixOperandSide)
    wrap (needParen (unPrec op) outer side)
      (if isPostfix op then inner ++ [unPiece op]
       else unPiece op :: (if startsWithSign op inner then .sp :: inner else inner))
  | .bin op l r, outer, side =>
    wrap (needParen (binPrec op) outer side)
      (fmtSub l (binPrec op) binLeftSide ++ ((if spaceBeforeBin op then [.sp] else []) ++
        (binPieces op ++ (.sp :: fmtSub r (binPrec op) binRightSide))))
  | .tern c a b, outer, side =>
    wrap (needParen precTernaryConditional outer side)
      (fmtSub c precTernaryConditional ternCondSide ++ (.sp :: pp .QuestionMark :: .sp ::
        (fmtSub a precTernaryConditional ternTrueSide ++ (.sp :: pp .Colon :: .sp ::
          wrap (falseIsAssignment b) (fmtSub b precTernaryConditional ternFalseSide)))))
  | .sub o i, outer, side =>
    wrap (needParen precArraySubscript outer side)
      (fmtSub o precArraySubscript subObjectSide ++ (pp .LeftSquareBracket ::
        (fmtSub i precArraySubscript subIndexSide ++ [pp .RightSquareBracket])))
  | .mem o n, outer, side =>
    wrap (needParen precMember outer side) (fmtSub o precMember memObjectSide ++ [pp .Period, .t (.id n) n])
  | .call f args, outer, side =>
    wrap (needParen precCall outer side)
      (fmtSub f callObjectPrec callObjectSide ++ (pp .LeftParen :: (fmtArgs args ++ [pp .RightParen])))
/-- the argument list of a call: `a, b, c` -/
def fmtArgs : Args → List Piece
  | .nil => []
  | .cons e .nil => fmtSub e callArgPrec callArgSide
  | .cons e (.cons e' rest) =>
    fmtSub e callArgMainPrec callArgMainSide ++ (pp .Comma :: .sp :: fmtArgs (.cons e' rest))
end

mutual
/-- every literal of the tree lies in the modelled subset of `format_literal` -/
def Expr.supported : Expr → Bool
  | .lit n => (litPieces n).isSome
  | .id _ => true
  | .un _ x => x.supported
  | .bin _ l r => l.supported && r.supported
  | .tern c a b => c.supported && a.supported && b.supported
  | .sub o i => o.supported && i.supported
  | .mem o _ => o.supported
  | .call f args => f.supported && args.supported
def Args.supported : Args → Bool
  | .nil => true
  | .cons e r => e.supported && r.supported
end

/-- `format_expression` -/
def fmtExpr (e : Expr) : List Piece := fmtSub e topPrec topSide

/-- `format_initializer_inner` on `Initializer::Expression` -/
def fmtInit (e : Expr) : List Piece := fmtSub e initPrec initSide

end RsslVerif.Model.Format

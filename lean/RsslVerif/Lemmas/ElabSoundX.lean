import RsslVerif.Lemmas.ElabNewX
/-! Lemmas for C03, extended language: soundness of elaboration in every build mode, and redundancy of the debug-build type
query, by mutual structural induction over all source expressions (port of the main inductions of
`Lemmas/ElabRelease.lean` plus the cases of member access, subscripts and constructors). Core Lean only. -/
namespace RsslVerif.Lemmas.ElabSoundX
open RsslVerif.Gen.RankTable RsslVerif.Gen.TypingTables RsslVerif.Model.Conv RsslVerif.Model.Overload
open RsslVerif.Model.IrTyping (FuncSig opReturn boolOf)
open RsslVerif.Model.Elab (Err)
open RsslVerif.Model.IrTypingX RsslVerif.Model.ElabX RsslVerif.Lemmas.ElabConv RsslVerif.Lemmas.ElabX
open RsslVerif.Lemmas.ElabFormsX RsslVerif.Lemmas.ElabExactX RsslVerif.Lemmas.ElabReleaseX RsslVerif.Lemmas.ElabNewX

variable {Γ : Env}

/-- a node typed by its own lemma passes through the (possibly absent) debug query unchanged -/
theorem selfCheck_keep {dbg : Bool} {n e' : IExpr} {τ' τ : ETy} (h : selfCheck dbg Γ n τ' = .ok (e', τ))
    (ht : HasType Γ n τ') : HasType Γ e' τ := by
  obtain ⟨rfl, rfl⟩ := selfCheck_type h
  exact ht

mutual
/-- **Soundness of elaboration in every build mode.**  By induction over all source expressions; the per-node
    debug query is not used. -/
theorem elab_sound_any (dbg : Bool) : ∀ (e : SExpr) (e' : IExpr) (τ : ETy),
    elabE dbg Γ e = .ok (e', τ) → HasType Γ e' τ
  | .lit k, e', τ, h => by
    simp only [elabE] at h
    exact selfCheck_any h trivial (by simp [typeOf])
  | .var i, e', τ, h => by
    simp only [elabE] at h
    split at h
    · simp at h
    · split at h
      · rename_i t ht
        exact selfCheck_any h trivial (by simp [typeOf, ht])
      · simp at h
  | .un o e, e', τ, h => by
    simp only [elabE] at h
    split at h
    · simp at h
    · rename_i e1 τ1 h1
      have ih := elab_sound_any dbg e e1 τ1 h1
      split at h
      · simp at h
      · rename_i n τn hn
        exact selfCheck_any h (elabUn_children ⟨_, ih⟩ hn) (elabUn_type ih hn)
  | .bin o a b, e', τ, h => by
    simp only [elabE] at h
    split at h
    · simp at h
    · rename_i a1 τa ha
      have iha := elab_sound_any dbg a a1 τa ha
      split at h
      · simp at h
      · rename_i b1 τb hb
        have ihb := elab_sound_any dbg b b1 τb hb
        split at h
        · rename_i hcls
          split at h
          · simp at h
          · rename_i n τn hn
            exact selfCheck_any h (elabArith_children ⟨_, iha⟩ ⟨_, ihb⟩ hn) (elabArith_type hcls iha ihb hn)
        · split at h
          · simp at h
          · rename_i n τn hn
            exact selfCheck_any h (elabAssign_children ⟨_, iha⟩ ⟨_, ihb⟩ hn) (elabAssign_type iha ihb hn)
        · exact selfCheck_any h ⟨⟨_, iha⟩, ⟨_, ihb⟩⟩ (by simp [typeOf, typeOf_of_hasType _ _ ihb])
  | .tern c a b, e', τ, h => by
    simp only [elabE] at h
    split at h
    · simp at h
    · rename_i c1 τc hc
      have ihc := elab_sound_any dbg c c1 τc hc
      split at h
      · simp at h
      · rename_i a1 τa ha
        have iha := elab_sound_any dbg a a1 τa ha
        split at h
        · simp at h
        · rename_i b1 τb hb
          have ihb := elab_sound_any dbg b b1 τb hb
          split at h
          · simp at h
          · rename_i n τn hn
            exact selfCheck_any h (elabTern_children ⟨_, ihc⟩ ⟨_, iha⟩ ⟨_, ihb⟩ hn) (elabTern_type iha ihb hn)
  | .call name args, e', τ, h => by
    simp only [elabE] at h
    split at h
    · simp at h
    · split at h
      · simp at h
      · split at h
        · simp at h
        · rename_i as1 ts ha
          have iha := elabArgs_sound_any dbg args as1 ts ha
          split at h
          · simp at h
          · rename_i n τn hn
            exact selfCheck_any h (elabCall_children ⟨_, iha⟩ hn) (elabCall_type hn)
  | .cast t e, e', τ, h => by
    simp only [elabE] at h
    split at h
    · simp at h
    · rename_i e1 τ1 h1
      have ih := elab_sound_any dbg e e1 τ1 h1
      exact selfCheck_any h ⟨_, ih⟩ (by simp [typeOf])
  | .member e name, e', τ, h => by
    simp only [elabE] at h
    split at h
    · simp at h
    · rename_i e1 τ1 h1
      have ih := elab_sound_any dbg e e1 τ1 h1
      split at h
      · simp at h
      · rename_i n τn hn
        exact selfCheck_keep h (elabMember_sound ih hn)
  | .index a i, e', τ, h => by
    simp only [elabE] at h
    split at h
    · simp at h
    · rename_i a1 τa ha
      have iha := elab_sound_any dbg a a1 τa ha
      split at h
      · simp at h
      · rename_i i1 τi hi
        have ihi := elab_sound_any dbg i i1 τi hi
        split at h
        · simp at h
        · rename_i n τn hn
          exact selfCheck_keep h (elabIndex_sound iha ihi hn)
  | .ctor t args, e', τ, h => by
    simp only [elabE] at h
    split at h
    · simp at h
    · rename_i s hs
      split at h
      · simp at h
      · rename_i as1 ars ha
        obtain ⟨ts, h1, h2⟩ := elabSlots_sound_any dbg s args as1 ars ha
        split at h
        · rename_i hsum
          exact selfCheck_keep h (.ctor h1 hs h2 hsum)
        · simp at h
theorem elabSlots_sound_any (dbg : Bool) (s : Scalar) : ∀ (as : SArgs) (as' : IArgs) (ars : List Nat),
    elabSlots dbg Γ s as = .ok (as', ars) → ∃ ts, HasArgs Γ as' ts ∧ SlotsOk s ars ts
  | .nil, as', ars, h => by
    simp only [elabSlots] at h
    simp at h; obtain ⟨rfl, rfl⟩ := h; exact ⟨[], .nil, trivial⟩
  | .cons e r, as', ars, h => by
    simp only [elabSlots] at h
    split at h
    · simp at h
    · rename_i e1 τ1 h1
      have ih := elab_sound_any dbg e e1 τ1 h1
      split at h
      · simp at h
      · rename_i e2 ar hsl
        obtain ⟨τ2, ht2, hok⟩ := ctorSlot_sound ih hsl
        split at h
        · simp at h
        · rename_i r1 ars1 hr
          obtain ⟨ts, hts, hss⟩ := elabSlots_sound_any dbg s r r1 ars1 hr
          simp at h; obtain ⟨rfl, rfl⟩ := h
          exact ⟨τ2 :: ts, .cons ht2 hts, hok, hss⟩
theorem elabArgs_sound_any (dbg : Bool) : ∀ (as : SArgs) (as' : IArgs) (ts : List ETy),
    elabArgs dbg Γ as = .ok (as', ts) → HasArgs Γ as' ts
  | .nil, as', ts, h => by
    simp only [elabArgs] at h
    simp at h; obtain ⟨rfl, rfl⟩ := h; exact .nil
  | .cons e r, as', ts, h => by
    simp only [elabArgs] at h
    split at h
    · simp at h
    · rename_i e1 τ1 h1
      have ih := elab_sound_any dbg e e1 τ1 h1
      split at h
      · simp at h
      · rename_i r1 ts1 hr
        have ihr := elabArgs_sound_any dbg r r1 ts1 hr
        simp at h; obtain ⟨rfl, rfl⟩ := h
        exact .cons ih ihr
end

/-- consequently the debug-build query never fires: debug and release builds give the same verdict -/
theorem elab_dbg_irrelevant_ok {e : SExpr} {e' : IExpr} {τ : ETy} (h : elabE false Γ e = .ok (e', τ)) :
    typeOf Γ e' = .ok τ := typeOf_of_hasType _ _ (elab_sound_any false e e' τ h)

theorem selfCheck_eq {n : IExpr} {τ' : ETy} (ht : typeOf Γ n = .ok τ') :
    selfCheck true Γ n τ' = selfCheck false Γ n τ' := by
  simp [selfCheck, ht]

mutual
/-- **The debug-build type query never fires**: debug and release builds elaborate every expression identically
    (same typed expression, same diagnostic, same panic). -/
theorem elab_debug_eq : ∀ (e : SExpr), elabE true Γ e = elabE false Γ e
  | .lit k => by simp only [elabE]; exact selfCheck_eq (by simp [typeOf])
  | .var i => by
    simp only [elabE]
    split
    · rfl
    · split
      · rename_i t ht; exact selfCheck_eq (by simp [typeOf, ht])
      · rfl
  | .un o e => by
    simp only [elabE, elab_debug_eq e]
    cases h1 : elabE false Γ e with
    | error m => rfl
    | ok p =>
      obtain ⟨e1, τ1⟩ := p
      have ih := elab_sound_any false e e1 τ1 h1
      simp only
      cases hn : elabUn Γ o e1 τ1 with
      | error m => rfl
      | ok q => obtain ⟨n, τn⟩ := q; exact selfCheck_eq (elabUn_type ih hn)
  | .bin o a b => by
    simp only [elabE, elab_debug_eq a, elab_debug_eq b]
    cases ha : elabE false Γ a with
    | error m => rfl
    | ok p =>
      obtain ⟨a1, τa⟩ := p
      have iha := elab_sound_any false a a1 τa ha
      simp only
      cases hb : elabE false Γ b with
      | error m => rfl
      | ok q =>
        obtain ⟨b1, τb⟩ := q
        have ihb := elab_sound_any false b b1 τb hb
        simp only
        cases hcls : o.cls with
        | arith =>
          simp only
          cases hn : elabArith o a1 τa b1 τb with
          | error m => rfl
          | ok r => obtain ⟨n, τn⟩ := r; exact selfCheck_eq (elabArith_type hcls iha ihb hn)
        | assign =>
          simp only
          cases hn : elabAssign Γ o a1 τa b1 τb with
          | error m => rfl
          | ok r => obtain ⟨n, τn⟩ := r; exact selfCheck_eq (elabAssign_type iha ihb hn)
        | sequence => exact selfCheck_eq (by simp [typeOf, typeOf_of_hasType _ _ ihb])
  | .tern c a b => by
    simp only [elabE, elab_debug_eq c, elab_debug_eq a, elab_debug_eq b]
    cases hc : elabE false Γ c with
    | error m => rfl
    | ok p0 =>
      obtain ⟨c1, τc⟩ := p0
      simp only
      cases ha : elabE false Γ a with
      | error m => rfl
      | ok p =>
        obtain ⟨a1, τa⟩ := p
        have iha := elab_sound_any false a a1 τa ha
        simp only
        cases hb : elabE false Γ b with
        | error m => rfl
        | ok q =>
          obtain ⟨b1, τb⟩ := q
          have ihb := elab_sound_any false b b1 τb hb
          simp only
          cases hn : elabTern c1 τc a1 τa b1 τb with
          | error m => rfl
          | ok r => obtain ⟨n, τn⟩ := r; exact selfCheck_eq (elabTern_type iha ihb hn)
  | .call name args => by
    simp only [elabE, elabArgs_debug_eq args]
    split
    · rfl
    · split
      · rfl
      · cases ha : elabArgs false Γ args with
        | error m => rfl
        | ok p =>
          obtain ⟨as1, ts⟩ := p
          simp only
          cases hn : elabCall Γ name as1 ts with
          | error m => rfl
          | ok r => obtain ⟨n, τn⟩ := r; exact selfCheck_eq (elabCall_type hn)
  | .cast t e => by
    simp only [elabE, elab_debug_eq e]
    cases h1 : elabE false Γ e with
    | error m => rfl
    | ok p => obtain ⟨e1, τ1⟩ := p; exact selfCheck_eq (by simp [typeOf])
  | .member e name => by
    simp only [elabE, elab_debug_eq e]
    cases h1 : elabE false Γ e with
    | error m => rfl
    | ok p =>
      obtain ⟨e1, τ1⟩ := p
      have ih := elab_sound_any false e e1 τ1 h1
      simp only
      cases hn : elabMember Γ name e1 τ1 with
      | error m => rfl
      | ok q => obtain ⟨n, τn⟩ := q; exact selfCheck_eq (typeOf_of_hasType _ _ (elabMember_sound ih hn))
  | .index a i => by
    simp only [elabE, elab_debug_eq a, elab_debug_eq i]
    cases ha : elabE false Γ a with
    | error m => rfl
    | ok p =>
      obtain ⟨a1, τa⟩ := p
      have iha := elab_sound_any false a a1 τa ha
      simp only
      cases hi : elabE false Γ i with
      | error m => rfl
      | ok q =>
        obtain ⟨i1, τi⟩ := q
        have ihi := elab_sound_any false i i1 τi hi
        simp only
        cases hn : elabIndex Γ a1 τa i1 τi with
        | error m => rfl
        | ok r => obtain ⟨n, τn⟩ := r; exact selfCheck_eq (typeOf_of_hasType _ _ (elabIndex_sound iha ihi hn))
  | .ctor t args => by
    simp only [elabE]
    split
    · rfl
    · rename_i s hs
      rw [elabSlots_debug_eq s args]
      cases ha : elabSlots false Γ s args with
      | error m => rfl
      | ok p =>
        obtain ⟨as1, ars⟩ := p
        simp only
        split
        · exact selfCheck_eq (by simp [typeOf])
        · rfl
theorem elabSlots_debug_eq (s : Scalar) : ∀ (as : SArgs), elabSlots true Γ s as = elabSlots false Γ s as
  | .nil => by simp [elabSlots]
  | .cons e r => by simp only [elabSlots, elab_debug_eq e, elabSlots_debug_eq s r]
theorem elabArgs_debug_eq : ∀ (as : SArgs), elabArgs true Γ as = elabArgs false Γ as
  | .nil => by simp [elabArgs]
  | .cons e r => by simp only [elabArgs, elab_debug_eq e, elabArgs_debug_eq r]
end



end RsslVerif.Lemmas.ElabSoundX

//! C02, vector stream (`C02.vfn`): the vector / matrix / struct / array / enum programs of C01's generator (`c01/vgen.rs`,
//! unchanged) and the matrix programs of `vgenm.rs`, exported by the REAL Metal exporter (`rssl_msl::verif_generate_ast`) and
//! judged by two independent evaluators: the typed-IR evaluator of C01 (`c01/virev.rs`, unchanged) and the Metal reading of
//! the emitted tree (`vmev.rs`).
//!
//! request : C02.vfn \t <source, one line> \t <function name> \t <argument vectors> \t - \t <IR program (vconv.rs forms)>
//!           (on replay only source, function name and argument vectors are read)
//! observe : `ast <definitions emitted under the function's name> ;; run <IR outcome per vector>` | `diagnostic …` (the
//!           Metal backend rejected the module: outside the property) | `unsupported <what>` | `panic <category>`
//! oracle  : return value, final out / inout arguments, final statics (threaded as references) and the initial values of
//!           the file-scope constants must be bit-identical between the two evaluators on every argument vector on which
//!           the IR is defined.  A difference is attributed to a described class (`class:<name>`) only when the Metal
//!           reading itself names it (the emitted tree is not valid Metal / means something else by construction) or when
//!           the alternative reading that repairs exactly the described differences agrees with the IR.
#![allow(dead_code)]
pub use super::sem::{eval, sx};
#[path = "../c01/vval.rs"]
pub mod vval;
#[path = "../c01/vconv.rs"]
pub mod vconv;
#[path = "../c01/virev.rs"]
pub mod virev;
#[path = "../c01/vgen.rs"]
pub mod vgen;
#[path = "vmconv.rs"]
pub mod vmconv;
#[path = "vmev.rs"]
pub mod vmev;
#[path = "vgenm.rs"]
pub mod vgenm;
#[path = "vmul.rs"]
pub mod vmul;
#[path = "vgend.rs"]
pub mod vgend;
#[path = "dupcast.rs"]
pub mod dupcast;
#[path = "vgenc.rs"]
pub mod vgenc;
#[path = "callargs.rs"]
pub mod callargs;
#[path = "vgenn.rs"]
pub mod vgenn;

use crate::compile_util::*;
use crate::util::*;
use rssl::ir;
use std::collections::HashMap;
use sx::*;
use vconv::*;
use virev::*;
use vmev::{MslV, Stuck, TopArg};
use vval::*;

/// names the Metal exporter must avoid (`RESERVED_NAMES` of msl/src/names.rs of the tree the harness was built against)
fn reserved_names() -> Vec<String> {
    let repo = std::env::var("VERIF_REPO").unwrap_or_else(|_| "/repo".to_string());
    let text = std::fs::read_to_string(format!("{}/msl/src/names.rs", repo)).unwrap_or_default();
    let mut out = Vec::new();
    if let Some(i) = text.find("pub const RESERVED_NAMES") {
        if let Some(j) = text[i..].find("];") {
            let body = &text[i..i + j];
            let body = &body[body.find('[').map(|k| k + 1).unwrap_or(0)..];
            for line in body.lines() {
                let line = line.split("//").next().unwrap_or("");
                let mut rest = line;
                while let Some(s) = rest.find('"') {
                    let after = &rest[s + 1..];
                    match after.find('"') {
                        Some(e) => {
                            out.push(after[..e].to_string());
                            rest = &after[e + 1..];
                        }
                        None => break,
                    }
                }
            }
        }
    }
    out
}

pub struct GlobalInfo {
    pub id: u32,
    pub name: String,
    /// threaded as a reference parameter (static, not const) or a constant at file scope
    pub param_mode: bool,
}

pub struct MPrepared {
    pub ir: ir::Module,
    pub prog: Vec<Sx>,
    /// (function id, source name, emitted qualified name)
    pub funcs: Vec<(u32, String, String)>,
    pub globals: Vec<GlobalInfo>,
}

pub fn mprepare(src: &str, hist: &mut Hist) -> Result<MPrepared, String> {
    let ir = match front_end_src(src) {
        Ok(m) => m,
        Err(e) => return Err(format!("front end ({}): {}", e.stage(), one_line(&e.text().chars().take(160).collect::<String>()))),
    };
    let reserved = reserved_names();
    let reserved_refs: Vec<&str> = reserved.iter().map(|s| s.as_str()).collect();
    let names = ir::name_generator::NameMap::build(&ir, &reserved_refs, false);
    let qualified = |s: ir::name_generator::NameSymbol| names.get_name_qualified(s).0.join("::");
    let mut cv = VConv::new(&ir);
    let mut items = Vec::new();
    let mut funcs = Vec::new();
    let mut globals = Vec::new();
    for rd in &ir.root_definitions {
        match rd {
            ir::RootDefinition::Function(id) if !ir.function_registry.get_function_signature(*id).template_params.is_empty() => {
                for child in ir.function_registry.iter() {
                    if let Some(data) = ir.function_registry.get_template_instantiation_data(child) {
                        if data.parent_id == *id {
                            if let Some(f) = cv.func(child, hist) {
                                items.push(f);
                                funcs.push((child.0, ir.function_registry.get_function_name(child).to_string(), qualified(ir::name_generator::NameSymbol::Function(child))));
                            }
                        }
                    }
                }
            }
            ir::RootDefinition::Function(id) => {
                if let Some(f) = cv.func(*id, hist) {
                    items.push(f);
                    funcs.push((id.0, ir.function_registry.get_function_name(*id).to_string(), qualified(ir::name_generator::NameSymbol::Function(*id))));
                }
            }
            ir::RootDefinition::GlobalVariable(id) => {
                let g = &ir.global_registry[id.0 as usize];
                let mut v = vec![a(&id.0.to_string())];
                if g.storage_class != ir::GlobalStorage::Static {
                    v.push(node("unsupported", vec![a("GlobalStorage")]));
                } else {
                    v.push(ir_vtype(&ir, g.type_id));
                    if let Some(i) = &g.init {
                        v.push(cv.init(i, hist));
                    }
                }
                items.push(node("global", v));
                globals.push(GlobalInfo { id: id.0, name: qualified(ir::name_generator::NameSymbol::GlobalVariable(*id)), param_mode: !ir.type_registry.is_const(g.type_id) });
            }
            ir::RootDefinition::Struct(_) | ir::RootDefinition::Enum(_) => {}
            ir::RootDefinition::FunctionDeclaration(_) => {}
            _ => items.push(node("unsupported", vec![a("RootDefinition")])),
        }
    }
    let mut prog = Vec::new();
    for i in 0..ir.struct_registry.len() {
        prog.push(cv.struct_def(ir::StructId(i as u32)));
        for mid in ir.struct_registry[i].methods.clone() {
            match cv.func(mid, hist) {
                Some(f) => items.push(f),
                None => items.push(node("unsupported", vec![a("MethodWithoutBody")])),
            }
        }
    }
    for i in 0..ir.enum_registry.get_enum_count() {
        prog.push(cv.enum_def(ir::EnumId(i)));
    }
    prog.extend(items);
    vmul::patch_program(&ir, &mut prog, hist);
    Ok(MPrepared { ir, prog, funcs, globals })
}

fn has_unsupported(items: &[Sx]) -> Option<String> {
    fn find(s: &Sx) -> Option<String> {
        if let Sx::L(v) = s {
            if s.head() == "unsupported" {
                return Some(s.args().first().map(|x| x.atom().to_string()).unwrap_or_default());
            }
            return v.iter().find_map(find);
        }
        None
    }
    items.iter().find_map(find)
}

const INTS: [u32; 12] = [0, 1, 2, 3, 7, 31, 32, 0x7fff_ffff, 0x8000_0000, 0xffff_ffff, 0xffff_fff9, 1000];

fn arg_scalar(rng: &mut Rng, t: T, zero: bool) -> V {
    let raw = if zero { 0 } else if rng.chance(2, 3) { *rng.pick(&INTS) } else { rng.next() as u32 };
    match t {
        T::Bool => V::B(raw & 1 == 1),
        T::Int => V::I(raw),
        T::Uint => V::U(raw),
        T::Float => V::F(raw),
        _ => V::Void,
    }
}

fn arg_value(rng: &mut Rng, types: &Types, t: &Ty, zero: bool) -> Option<VV> {
    Some(match t {
        Ty::S(s) => VV::S(arg_scalar(rng, *s, zero)),
        Ty::V(s, n) => VV::V((0..*n).map(|_| arg_scalar(rng, *s, zero)).collect()),
        Ty::M(s, r, c) => VV::M(*r, *c, (0..r * c).map(|_| arg_scalar(rng, *s, zero)).collect()),
        Ty::Enum(k) => {
            let (_, vals) = types.enums.get(k)?;
            if vals.is_empty() {
                return None;
            }
            VV::S(if zero { vals[0].1 } else { rng.pick(vals).1 })
        }
        Ty::Struct(k) => {
            let members = types.structs.get(k)?.clone();
            VV::St(members.iter().map(|(_, mt)| arg_value(rng, types, mt, zero)).collect::<Option<Vec<_>>>()?)
        }
        Ty::Arr(e, n) => VV::Ar((0..*n).map(|_| arg_value(rng, types, e, zero)).collect::<Option<Vec<_>>>()?),
        Ty::Void => return None,
    })
}

pub fn show_vvectors(vs: &[Vec<VV>]) -> String {
    vs.iter().map(|v| v.iter().map(|x| x.show()).collect::<Vec<_>>().join(",")).collect::<Vec<_>>().join(";")
}

pub fn parse_vvectors(s: &str) -> Option<Vec<Vec<VV>>> {
    if s.is_empty() {
        return Some(vec![vec![]]);
    }
    s.split(';').map(|v| if v.is_empty() { Some(vec![]) } else { v.split(',').map(VV::parse).collect::<Option<Vec<VV>>>() }).collect()
}

/// equality of an IR value and a Metal value: a slot that is undefined in the source (`Void`) is matched by anything
fn same_value(want: &VV, got: &VV) -> bool {
    match (want, got) {
        (VV::S(V::Void), _) => true,
        (VV::S(x), VV::S(y)) => x == y,
        (VV::V(xs), VV::V(ys)) => xs.len() == ys.len() && xs.iter().zip(ys).all(|(x, y)| *x == V::Void || x == y),
        (VV::M(r, c, xs), VV::M(r2, c2, ys)) => r == r2 && c == c2 && xs.iter().zip(ys).all(|(x, y)| *x == V::Void || x == y),
        (VV::St(xs), VV::St(ys)) | (VV::Ar(xs), VV::Ar(ys)) => xs.len() == ys.len() && xs.iter().zip(ys).all(|(x, y)| same_value(x, y)),
        // a one-component vector is a scalar in Metal (`float1` is emitted as `float`)
        (VV::V(xs), VV::S(y)) if xs.len() == 1 => xs[0] == V::Void || xs[0] == *y,
        _ => false,
    }
}

fn panic_category(p: &str) -> String {
    if p.contains("literal should not be required") {
        "literal-type-name".into()
    } else if p.contains("negate with overflow") {
        "negate-overflow".into()
    } else if p.contains("assertion") {
        "assert".into()
    } else if p.contains("unwrap") {
        "unwrap".into()
    } else {
        "other".into()
    }
}

fn lit_only(e: &Sx) -> bool {
    match e.head() {
        "lit" => e.args()[0].atom() == "int",
        "un" => matches!(e.args()[0].atom(), "Minus" | "Plus" | "BitwiseNot") && lit_only(&e.args()[1]),
        "bin" => lit_only(&e.args()[1]) && lit_only(&e.args()[2]),
        // `c ? 31 : -2147483647` between two literals is still the exact literal int in RSSL (and `int` in Metal)
        "tern" => e.args().len() == 3 && lit_only(&e.args()[1]) && lit_only(&e.args()[2]),
        _ => false,
    }
}

/// where Metal's integer literal types can differ from RSSL's exact literal int
fn has_literal_hazard(e: &Sx) -> bool {
    if let Sx::L(items) = e {
        if e.head() == "lit" && e.args()[0].atom() == "int" && e.args()[1].atom().parse::<u128>().map(|n| n >= (1u128 << 31)).unwrap_or(true) {
            return true;
        }
        if e.head() == "bin" && lit_only(&e.args()[1]) && lit_only(&e.args()[2]) {
            return true;
        }
        return items.iter().any(has_literal_hazard);
    }
    false
}

struct MetalOutcome {
    ret: Option<VV>,
    finals: Vec<Option<VV>>,
    statics: Vec<VV>,
}

/// compare the Metal outcome with the IR's; `Err(what differs)`
fn compare(want: &VOutcome, got: &MetalOutcome, p: &MPrepared) -> Result<(), String> {
    match (&want.ret, &got.ret) {
        (None, _) => {}
        (Some(w), Some(g)) if same_value(w, g) => {}
        (Some(_), Some(g)) => return Err(format!("returns {}", g.show())),
        (Some(_), None) => return Err("returns nothing".into()),
    }
    for (i, f) in got.finals.iter().enumerate() {
        if let Some(f) = f {
            if !same_value(&want.params[i], f) {
                return Err(format!("leaves {} in argument {}", f.show(), i));
            }
        }
    }
    let mut k = 0;
    for (gi, g) in p.globals.iter().enumerate() {
        if g.param_mode {
            if !same_value(&want.globals[gi], &got.statics[k]) {
                return Err(format!("leaves {} in static {}", got.statics[k].show(), g.name));
            }
            k += 1;
        }
    }
    Ok(())
}

pub fn run_program(src: &str, only: Option<(&str, &[Vec<VV>])>, nvec: usize, rng: &mut Rng, out: &mut Out, hist: &mut Hist) {
    let src1 = one_line(src);
    let p = match mprepare(src, hist) {
        Ok(p) => p,
        Err(why) => {
            hist.add("v:skip:front-end");
            out.case(&format!("C02.vfn\t{}\t-\t\t-\t-", src1), "skip", &format!("SKIP:{}", why));
            return;
        }
    };
    hist.add("v:programs");
    let prog_text = p.prog.iter().map(|f| f.show()).collect::<Vec<_>>().join(" ");
    let ir_unsupported = has_unsupported(&p.prog);
    let emitted = guard(|| rssl_msl::verif_generate_ast(&p.ir));
    let module_sx: Option<Vec<Sx>> = match &emitted {
        Ok(Ok(m)) => Some(vmconv::module(m)),
        _ => None,
    };
    // text leg (c02/text.rs): the public route's text is the printed tree, and the printed tree reads back as the tree
    let text_leg = match &emitted {
        Ok(Ok(m)) => Some(crate::c02::text::check_module(&p.ir, m, hist)),
        _ => None,
    };
    match &emitted {
        Ok(Ok(_)) => hist.add("v:exported"),
        Ok(Err(e)) => hist.add(&format!("v:diagnostic:{}", one_line(&format!("{:?}", e)).split('(').nth(1).unwrap_or("?").trim_end_matches(')'))),
        Err(_) => hist.add("v:exporter-panic"),
    }
    // arity oracle (independent of both evaluators, so it also judges modules the typed evaluator does not cover): every
    // emitted call of a function / method of the module binds every parameter of a declaration of that name
    let lost_defaults = callargs::callees_with_lost_default(&p.ir);
    let arity: Vec<(Option<String>, String)> = module_sx
        .as_ref()
        .map(|items| arity_failures(items))
        .unwrap_or_default()
        .into_iter()
        .map(|(encl, callee, msg)| {
            // the typed program itself has no value for the left-out parameter (the default stayed on the forward declaration)
            let lost = lost_defaults.iter().any(|n| n == &callee || emitted_leaf_of(&p, n).as_deref() == Some(callee.as_str()));
            (encl, if lost { format!("class:{} ## {}", C_LOST_DEFAULT, msg) } else { msg })
        })
        .collect();
    // scope oracle (vgenn.rs; independent of both evaluators): inside a function no parameter / local declaration has the
    // name of a parameter that carries a global
    let global_names: Vec<String> = p.globals.iter().map(|g| g.name.clone()).collect();
    let scope: Vec<(Option<String>, String)> = module_sx.as_ref().map(|items| vgenn::scope_failures(items, &global_names)).unwrap_or_default();
    let irv = if ir_unsupported.is_none() { IrV::new(&p.prog) } else { None };
    let ir_init = irv.as_ref().and_then(|ev| ev.init_globals());
    let fmod_builtin = prog_text.contains("(intr Fmod ");
    fn mk(items: &[Sx], alt: bool, fmod_builtin: bool) -> Option<MslV<'_>> {
        MslV::new(items, alt, fmod_builtin)
    }

    for (fid, src_name, emitted_name) in p.funcs.iter() {
        if let Some((want, _)) = only {
            if want != src_name {
                continue;
            }
        }
        let mut fails: Vec<String> = Vec::new();
        let ptypes: Option<Vec<(u8, Ty)>> = irv.as_ref().and_then(|ev| ev.param_types(*fid));
        let vectors: Vec<Vec<VV>> = match (only, &irv, &ptypes) {
            (Some((_, v)), _, _) => v.to_vec(),
            (None, Some(ev), Some(pts)) => (0..nvec).map(|k| pts.iter().map(|(_, t)| arg_value(rng, &ev.types, t, k == 0).unwrap_or(VV::S(V::Void))).collect()).collect(),
            _ => vec![vec![]],
        };
        let req = format!("C02.vfn\t{}\t{}\t{}\t-\t{}", src1, src_name, show_vvectors(&vectors), prog_text);
        let unsupported = ir_unsupported.is_some() || irv.is_none();
        let ir_results: Vec<Option<VOutcome>> = match &irv {
            Some(ev) => vectors.iter().map(|v| ev.run(*fid, v)).collect(),
            None => vectors.iter().map(|_| None).collect(),
        };
        vtake_why();
        let run_text = ir_results.iter().map(show_voutcome).collect::<Vec<_>>().join(" | ");
        let obs = match (&emitted, &module_sx) {
            (Ok(Ok(_)), Some(items)) => {
                let defs: Vec<&Sx> = items.iter().filter(|i| i.head() == "fn" && i.args()[0].atom() == emitted_name).collect();
                if defs.is_empty() {
                    fails.push(format!("function {} missing from the exported module", emitted_name));
                    "missing".to_string()
                } else if unsupported {
                    format!("unsupported {}", ir_unsupported.clone().unwrap_or_default())
                } else if let Some(u) = has_unsupported(items) {
                    hist.add(&format!("v:metal-tree-unsupported:{}", u));
                    format!("unsupported metal-tree:{}", u)
                } else {
                    format!("ast {} ;; run {}", defs.iter().map(|d| d.show()).collect::<Vec<_>>().join(" "), run_text)
                }
            }
            (Err(pn), _) => {
                fails.push(format!("panic {}", pn));
                format!("panic {}", panic_category(pn))
            }
            (Ok(Err(e)), _) => format!("diagnostic {}", one_line(&format!("{:?}", e)).chars().take(60).collect::<String>()),
            _ => "generate-error".to_string(),
        };
        hist.add(if obs.starts_with("ast ") { "v:fn:supported" } else if obs.starts_with("diagnostic") { "v:fn:rejected-by-metal-backend" } else { "v:fn:unsupported" });
        // ---- oracle
        if fails.is_empty() && obs.starts_with("ast ") {
            let items = module_sx.as_ref().unwrap();
            match (mk(items, false, fmod_builtin), &irv, &ir_init, &ptypes) {
                (Some(me), Some(_), Some(st0), Some(pts)) => {
                    // file-scope constants: initial values
                    vmev::take_stuck();
                    vmev::take_hazards();
                    for g in p.globals.iter().filter(|g| !g.param_mode) {
                        let want = st0.get(&Var::Glob(g.id));
                        let got = me.const_value(&g.name);
                        let why = vmev::take_stuck();
                        let hz = vmev::take_hazards();
                        if let Some(w) = want {
                            let ok = got.as_ref().map(|v| same_value(w, v)).unwrap_or(false);
                            if !ok {
                                let detail = format!(
                                    "initial value of constant {}: IR gives {} but the emitted Metal gives {}{}",
                                    g.name,
                                    w.show(),
                                    got.as_ref().map(|v| v.show()).unwrap_or_else(|| "nothing".into()),
                                    why.as_ref().map(|w| format!(" (stuck at: {})", w.1)).unwrap_or_default()
                                );
                                let alt_ok = mk(items, true, fmod_builtin).and_then(|m| m.const_value(&g.name)).map(|v| same_value(w, &v)).unwrap_or(false);
                                vmev::take_stuck();
                                vmev::take_hazards();
                                match (&why, alt_ok) {
                                    (Some((Stuck::Class(c), _)), _) => fails.push(format!("class:{} ## {}", c, detail)),
                                    (Some((Stuck::Skip, _)), _) => hist.add("v:const:skip"),
                                    (_, true) if !hz.is_empty() => fails.push(format!("class:{} ## {}", hz[0], detail)),
                                    _ => fails.push(detail),
                                }
                            }
                        }
                    }
                    let statics: Vec<(String, VV)> =
                        p.globals.iter().filter(|g| g.param_mode).map(|g| (g.name.clone(), st0.get(&Var::Glob(g.id)).cloned().unwrap_or(VV::S(V::Void)))).collect();
                    {
                        for (v, want) in vectors.iter().zip(&ir_results) {
                            let want = match want {
                                Some(w) => w,
                                None => {
                                    hist.add("v:vector:ir-undefined");
                                    continue;
                                }
                            };
                            hist.add("v:vector:defined");
                            let top: Vec<TopArg> = pts.iter().zip(v).map(|((d, _), x)| if *d == 0 { TopArg::Val(x.clone()) } else { TopArg::Var(x.clone()) }).collect();
                            vmev::take_stuck();
                            vmev::take_hazards();
                            let got = me.run(emitted_name, &top, &statics).map(|(ret, finals, statics)| MetalOutcome { ret, finals, statics });
                            let why = vmev::take_stuck();
                            let hz = vmev::take_hazards();
                            let diff = match &got {
                                Some(g) => compare(want, g, &p).err(),
                                None => Some("is undefined".to_string()),
                            };
                            if let Some(diff) = diff {
                                if got.is_none() && matches!(why, Some((Stuck::Skip, _))) {
                                    hist.add(&format!("v:vector:skip:{}", why.as_ref().map(|w| w.1.split(' ').next().unwrap_or("")).unwrap_or("")));
                                    continue;
                                }
                                let detail = format!(
                                    "{} args [{}]: IR gives {} but the emitted Metal {}{}",
                                    emitted_name,
                                    v.iter().map(|x| x.show()).collect::<Vec<_>>().join(","),
                                    want.show(),
                                    diff,
                                    why.as_ref().map(|w| format!(" (stuck at: {})", w.1)).unwrap_or_default()
                                );
                                if let Some((Stuck::Class(c), _)) = &why {
                                    fails.push(format!("class:{} ## {}", c, detail));
                                    continue;
                                }
                                if hz.contains(&vmev::H_METHOD_OBJECT) {
                                    hist.add("v:vector:skip:method-argument-writes-object");
                                    continue;
                                }
                                if hz.contains(&vmev::H_INOUT_ORDER) {
                                    fails.push(format!("class:{} ## {}", vmev::H_INOUT_ORDER, detail));
                                    continue;
                                }
                                // the alternative reading repairs exactly the described differences
                                let alt = mk(items, true, fmod_builtin).and_then(|m| m.run(emitted_name, &top, &statics)).map(|(ret, finals, statics)| MetalOutcome { ret, finals, statics });
                                vmev::take_stuck();
                                let alt_hz = vmev::take_hazards();
                                let alt_ok = alt.as_ref().map(|g| compare(want, g, &p).is_ok()).unwrap_or(false);
                                if alt_ok && !hz.is_empty() {
                                    fails.push(format!("class:{} ## {}", hz[0], detail));
                                } else if alt_ok && !alt_hz.is_empty() {
                                    fails.push(format!("class:{} ## {}", alt_hz[0], detail));
                                } else if alt_ok && items.iter().any(has_literal_hazard) {
                                    fails.push(format!("class:metal-integer-literal-typing ## {}", detail));
                                } else {
                                    fails.push(detail);
                                }
                            }
                        }
                    }
                }
                (None, _, _, _) => {
                    let why = vmev::take_stuck();
                    fails.push(format!("declarations of the emitted module not understood{}", why.map(|w| format!(": {}", w.1)).unwrap_or_default()));
                }
                _ => hist.add("v:fn:ir-globals-undefined"),
            }
        }
        if let Some(u) = &ir_unsupported {
            hist.add(&format!("v:unsupported:{}", u));
        }
        for (encl, msg) in &arity {
            // a call inside a method fails every request of the module (methods are not requests of their own)
            if encl.as_deref().map(|e| e == emitted_name).unwrap_or(true) {
                hist.add("v:arity:fail");
                fails.push(msg.clone());
            }
        }
        let mut same_leaf = false;
        for (encl, msg) in &scope {
            if encl.as_deref().map(|e| e == emitted_name).unwrap_or(true) {
                hist.add(if msg.starts_with("class:") { "v:scope:same-leaf" } else { "v:scope:fail" });
                same_leaf |= msg.starts_with("class:");
                fails.push(msg.clone());
            }
        }
        if same_leaf {
            // two parameters of one name: which of them an identifier of the body means is not defined, so a difference of the
            // value comparison on this function belongs to the same described class
            for f in fails.iter_mut() {
                if !f.starts_with("class:") && f.contains(" args [") {
                    *f = format!("class:{} ## {}", vgenn::C_SAME_LEAF, f);
                }
            }
        }
        // text leg: the emitted TEXT of this function denotes the tree that was just judged
        if let Some(t) = &text_leg {
            if let Some(tf) = t.fails_for(emitted_name).into_iter().next() {
                fails.insert(0, tf);
            }
        }
        // a difference outside the described classes is never hidden behind a described one
        let first = fails.iter().find(|f| !f.starts_with("class:")).or(fails.first());
        let oracle = match first {
            Some(f) => format!("FAIL:{}", f),
            None => "ok".to_string(),
        };
        out.case(&req, &obs, &oracle);
    }
}

fn last_component(name: &str) -> &str {
    name.rsplit("::").next().unwrap_or(name)
}

/// (enclosing top-level function, or None inside a method; what is wrong) for every emitted call `f(..)` / `o.f(..)` whose name
/// is the name of functions / methods defined in the module, none of which takes that many arguments: more arguments than
/// parameters, or a parameter without default value left without argument
pub const C_LOST_DEFAULT: &str = "default-value-of-forward-declaration-lost";

/// emitted leaf name of the function with the given source name
fn emitted_leaf_of(p: &MPrepared, src_name: &str) -> Option<String> {
    p.funcs.iter().find(|(_, s, _)| s == src_name).map(|(_, _, e)| last_component(e).to_string())
}

pub fn arity_failures(items: &[Sx]) -> Vec<(Option<String>, String, String)> {
    // name (last component) -> (parameters, parameters without default value) of every definition
    let mut defs: HashMap<String, Vec<(usize, usize, String)>> = HashMap::new();
    fn collect(s: &Sx, defs: &mut HashMap<String, Vec<(usize, usize, String)>>) {
        if let Sx::L(items) = s {
            if s.head() == "fn" && s.args().len() >= 3 && s.args()[2].head() == "params" {
                let ps = s.args()[2].args();
                let required = ps.iter().rposition(|p| !(p.head() == "val" && p.args().len() == 3)).map(|i| i + 1).unwrap_or(0);
                defs.entry(last_component(s.args()[0].atom()).to_string()).or_default().push((ps.len(), required, s.args()[2].show()));
            }
            if matches!(s.head(), "struct" | "method" | "fn" | "namespace") {
                for i in items {
                    collect(i, defs);
                }
            }
        }
    }
    for i in items {
        collect(i, &mut defs);
    }
    let types: Vec<String> = items.iter().filter(|i| matches!(i.head(), "struct" | "enum")).map(|i| i.args().first().map(|n| last_component(n.atom()).to_string()).unwrap_or_default()).collect();
    fn walk(s: &Sx, encl: &Option<String>, defs: &HashMap<String, Vec<(usize, usize, String)>>, types: &[String], out: &mut Vec<(Option<String>, String, String)>) {
        if let Sx::L(items) = s {
            let (name, nargs) = match s.head() {
                "call" if !s.args().is_empty() => (Some(s.args()[0].atom()), s.args().len() - 1),
                "mcall" if s.args().len() >= 2 => (Some(s.args()[1].atom()), s.args().len() - 2),
                _ => (None, 0),
            };
            if let Some(name) = name {
                let key = last_component(name);
                if !name.starts_with("metal::") && !types.iter().any(|t| t == key) {
                    if let Some(cands) = defs.get(key) {
                        if !cands.iter().any(|(n, required, _)| nargs <= *n && nargs >= *required) {
                            out.push((
                                encl.clone(),
                                key.to_string(),
                                format!("emitted call {} passes {} argument(s), but no declaration of {} binds every parameter with that many: {}", s.show(), nargs, key, cands.iter().map(|c| c.2.clone()).collect::<Vec<_>>().join(" / ")),
                            ));
                        }
                    }
                }
            }
            for i in items {
                walk(i, encl, defs, types, out);
            }
        }
    }
    let mut out = Vec::new();
    for i in items {
        let encl = if i.head() == "fn" { Some(i.args()[0].atom().to_string()) } else { None };
        walk(i, &encl, &defs, &types, &mut out);
    }
    out
}

fn unescape(s: &str) -> String {
    let mut o = String::new();
    let mut it = s.chars();
    while let Some(c) = it.next() {
        if c == '\\' {
            match it.next() {
                Some('n') => o.push('\n'),
                Some('t') => o.push('\t'),
                Some('r') => o.push('\r'),
                Some('\\') => o.push('\\'),
                Some(x) => {
                    o.push('\\');
                    o.push(x)
                }
                None => o.push('\\'),
            }
        } else {
            o.push(c);
        }
    }
    o
}

pub fn run_request(line: &str, out: &mut Out, hist: &mut Hist) {
    let f: Vec<&str> = line.split('\t').collect();
    if f.len() < 4 || f[0] != "C02.vfn" {
        return;
    }
    let src = unescape(f[1]);
    let vecs = parse_vvectors(f[3]).unwrap_or_else(|| vec![vec![]]);
    let mut rng = Rng::new(1);
    let mut local = Hist::default();
    let r = if f[2] == "-" {
        guard(|| run_program(&src, None, 3, &mut rng, out, &mut local))
    } else {
        guard(|| run_program(&src, Some((f[2], &vecs)), vecs.len(), &mut rng, out, &mut local))
    };
    if let Err(pn) = r {
        out.case(&format!("C02.vfn\t{}\t{}\t{}\t-\t-", f[1], f[2], f[3]), "harness-panic", &format!("SKIP:harness panic {}", pn));
    }
    for (k, n) in &local.0 {
        *hist.0.entry(k.clone()).or_insert(0) += *n;
    }
}

/// the k-th program of the vector stream for a seed: C01's generator, matrices only in the forms the Metal backend accepts
pub fn vprogram(seed: u64, k: u64) -> String {
    let mut rng = Rng::new(seed.wrapping_mul(0x2545_F491_4F6C_DD1D) ^ k.wrapping_mul(0x9E37_79B9_7F4A_7C15) ^ 0x6d766563);
    if k >= NS_BASE {
        return vgenn::ns_program(k - NS_BASE, &mut rng).0;
    }
    if k >= CALL_BASE {
        return vgenc::call_program(k - CALL_BASE, &mut rng).0;
    }
    if k >= DUP_BASE {
        return vgend::dup_program(k - DUP_BASE, &mut rng).0;
    }
    if k % 5 == 4 {
        return vgenm::program(&mut rng);
    }
    if k % 5 == 2 {
        return vgenm::extra_program(&mut rng);
    }
    let opts = vgen::VGenOpts { max_depth: 1 + (k % 3) as u32, matrices: k % 16 == 15, structs: k % 2 == 1, enums: k % 5 >= 3, pure: false };
    vgen::VGen::new(&mut rng, opts).program()
}

/// programs from `DUP_BASE` on: the operand-repetition family (`vgend.rs`)
pub const DUP_BASE: u64 = 1_000_000;
/// programs from `CALL_BASE` on: calls that leave out default arguments of callees that use threaded globals (`vgenc.rs`)
pub const CALL_BASE: u64 = 2_000_000;
/// programs from `NS_BASE` on: threaded globals inside namespaces next to locals of the same leaf name (`vgenn.rs`)
pub const NS_BASE: u64 = 3_000_000;

pub fn run_stream(args: &Args, out: &mut Out, hist: &mut Hist) {
    let n = if args.thorough() { 4000 } else { 300 };
    let nd = vgend::enumerated_len() + if args.thorough() { 1500 } else { 100 };
    let nc = vgenc::enumerated_len() + if args.thorough() { 1200 } else { 60 };
    let nn = vgenn::enumerated_len() + if args.thorough() { 600 } else { 40 };
    for k in (0..n).chain(DUP_BASE..DUP_BASE + nd).chain(CALL_BASE..CALL_BASE + nc).chain(NS_BASE..NS_BASE + nn) {
        let src = vprogram(args.seed, k);
        if k >= NS_BASE {
            let mut trng = Rng::new(args.seed.wrapping_mul(0x2545_F491_4F6C_DD1D) ^ k.wrapping_mul(0x9E37_79B9_7F4A_7C15) ^ 0x6d766563);
            hist.add(&vgenn::ns_program(k - NS_BASE, &mut trng).1);
        } else if k >= CALL_BASE {
            let mut trng = Rng::new(args.seed.wrapping_mul(0x2545_F491_4F6C_DD1D) ^ k.wrapping_mul(0x9E37_79B9_7F4A_7C15) ^ 0x6d766563);
            hist.add(&vgenc::call_program(k - CALL_BASE, &mut trng).1);
            // the argument list of every user call against the Lean model of generate_user_call
            if let Err(pn) = guard(|| callargs::run_program(&src, out, hist)) {
                out.case(&format!("C02.call\t{}\t-", one_line(&src)), "harness-panic", &format!("SKIP:harness panic {}", pn));
            }
        } else if k >= DUP_BASE {
            let mut trng = Rng::new(args.seed.wrapping_mul(0x2545_F491_4F6C_DD1D) ^ k.wrapping_mul(0x9E37_79B9_7F4A_7C15) ^ 0x6d766563);
            hist.add(&vgend::dup_program(k - DUP_BASE, &mut trng).1);
            // the decision of the struct-cast arm against its Lean model
            if let Err(pn) = guard(|| dupcast::run_program(&src, out, hist)) {
                out.case(&format!("C02.dup\t{}\t-", one_line(&src)), "harness-panic", &format!("SKIP:harness panic {}", pn));
            }
        }
        let mut arng = Rng::new(args.seed ^ (k.wrapping_mul(0x9E37_79B9_7F4A_7C15)) ^ 0x5eed);
        let mut local = Hist::default();
        if let Err(pn) = guard(|| run_program(&src, None, 5, &mut arng, out, &mut local)) {
            hist.add("v:harness-panic");
            out.case(&format!("C02.vfn\t{}\t-\t\t-\t-", one_line(&src)), "harness-panic", &format!("SKIP:harness panic {}", pn));
        }
        for (k, n) in &local.0 {
            *hist.0.entry(k.clone()).or_insert(0) += *n;
        }
    }
}


// ------------------------------------------------------------------------------------------------ C02.vex
/// `C02.vex`: expression functions `T f1(in params) { return E; }` for the Lean vector layer (`Model.GenMslVec`):
/// request `C02.vex \t source \t function \t argument vectors \t vars=<id>:<emitted name>:<type>,… \t <IR of E>`,
/// observation `vast <the Metal exporter's tree of E> ;; run <IR value per vector>`; the oracle is the one of `C02.vfn`
pub fn vex_program(src: &str, only: Option<&[Vec<VV>]>, nvec: usize, rng: &mut Rng, out: &mut Out, hist: &mut Hist) {
    let src1 = one_line(src);
    let skip = |out: &mut Out, why: &str| out.case(&format!("C02.vex\t{}\t-\t\t-\t-", src1), "skip", &format!("SKIP:{}", why));
    let p = match mprepare(src, &mut Hist::default()) {
        Ok(p) => p,
        Err(why) => {
            hist.add("x:skip:front-end");
            skip(out, &why);
            return;
        }
    };
    hist.add("x:programs");
    let emitted = guard(|| rssl_msl::verif_generate_ast(&p.ir));
    let (fid, src_name, emitted_name) = match p.funcs.last() {
        Some(f) => f.clone(),
        None => return skip(out, "no function"),
    };
    let irf = match p.prog.iter().find(|x| x.head() == "fn" && x.args()[0].atom() == fid.to_string()) {
        Some(f) => f,
        None => return skip(out, "no IR function"),
    };
    // `(b (ret E))`, or `(b (expr (op <assignment> place rhs)) (ret (var x)))`: then the whole body is sent
    let (ret_expr, is_assign) = match irf.args()[3].args() {
        [r] if r.head() == "ret" && r.args().len() == 1 => (r.args()[0].clone(), false),
        [e, r] if e.head() == "expr" && e.args()[0].head() == "op" && r.head() == "ret" && r.args().len() == 1 && r.args()[0].head() == "var" => (irf.args()[3].clone(), true),
        _ => return skip(out, "not an expression function"),
    };
    let irv = match IrV::new(&p.prog) {
        Some(v) if has_unsupported(&p.prog).is_none() => v,
        _ => {
            out.case(&format!("C02.vex\t{}\t{}\t\t-\t-", src1, src_name), "unsupported ir", "ok");
            return;
        }
    };
    let pts = irv.param_types(fid).unwrap_or_default();
    let vectors: Vec<Vec<VV>> = match only {
        Some(v) => v.to_vec(),
        None => (0..nvec).map(|k| pts.iter().map(|(_, t)| arg_value(rng, &irv.types, t, k == 0).unwrap_or(VV::S(V::Void))).collect()).collect(),
    };
    let ir_results: Vec<Option<VOutcome>> = vectors.iter().map(|v| irv.run(fid, v)).collect();
    vtake_why();
    let rets = ir_results
        .iter()
        .map(|o| match o {
            Some(o) => o.ret.as_ref().map(|v| v.show()).unwrap_or_else(|| "v".into()),
            None => "none".into(),
        })
        .collect::<Vec<_>>()
        .join(" | ");
    let mut fails: Vec<String> = Vec::new();
    let (req, obs) = match &emitted {
        Ok(Ok(m)) => {
            let items = vmconv::module(m);
            let def = items.iter().find(|i| i.head() == "fn" && i.args()[0].atom() == emitted_name).cloned();
            match def {
                Some(d) if has_unsupported(std::slice::from_ref(&d)).is_none() => {
                    let mparams = d.args()[2].args().to_vec();
                    let body = d.args()[3].args().to_vec();
                    let iparams = irf.args()[2].args();
                    let vars: Vec<String> = iparams
                        .iter()
                        .zip(&mparams)
                        .map(|(ip, mp)| format!("{}:{}:{}", ip.args()[0].atom(), if mp.head() == "val" { mp.args()[1].atom() } else { "?" }, ip.args()[2].show()))
                        .collect();
                    let req = format!("C02.vex\t{}\t{}\t{}\tvars={}\t{}", src1, src_name, show_vvectors(&vectors), vars.join(","), ret_expr.show());
                    let obs = match body.as_slice() {
                        [r] if !is_assign && r.head() == "ret" && r.args().len() == 1 && mparams.len() == iparams.len() && mparams.iter().all(|m| m.head() == "val") => {
                            format!("vast {} ;; run {}", r.args()[0].show(), rets)
                        }
                        [e, r] if is_assign && e.head() == "expr" && r.head() == "ret" && mparams.len() == iparams.len() && mparams.iter().all(|m| m.head() == "val") => {
                            format!("vast {} ;; run {}", e.args()[0].show(), rets)
                        }
                        _ => "unsupported not-an-expression-function".to_string(),
                    };
                    // oracle: the Metal reading of the whole emitted function
                    if let Some(me) = MslV::new(&items, false, false) {
                        for (v, want) in vectors.iter().zip(&ir_results) {
                            let want = match want {
                                Some(w) => w,
                                None => {
                                    hist.add("x:vector:ir-undefined");
                                    continue;
                                }
                            };
                            hist.add("x:vector:defined");
                            let top: Vec<TopArg> = v.iter().map(|x| TopArg::Val(x.clone())).collect();
                            vmev::take_stuck();
                            vmev::take_hazards();
                            let got = me.run(&emitted_name, &top, &[]);
                            let why = vmev::take_stuck();
                            vmev::take_hazards();
                            let ok = match (&got, &want.ret) {
                                (Some((Some(g), _, _)), Some(w)) => same_value(w, g),
                                _ => false,
                            };
                            if !ok {
                                if matches!(why, Some((Stuck::Skip, _))) {
                                    hist.add("x:vector:skip");
                                    continue;
                                }
                                let detail = format!(
                                    "{} args [{}]: IR gives {} but the emitted Metal gives {}{}",
                                    emitted_name,
                                    v.iter().map(|x| x.show()).collect::<Vec<_>>().join(","),
                                    want.ret.as_ref().map(|x| x.show()).unwrap_or_default(),
                                    got.as_ref().and_then(|g| g.0.as_ref()).map(|x| x.show()).unwrap_or_else(|| "nothing".into()),
                                    why.as_ref().map(|w| format!(" (stuck at: {})", w.1)).unwrap_or_default()
                                );
                                match &why {
                                    Some((Stuck::Class(c), _)) => fails.push(format!("class:{} ## {}", c, detail)),
                                    _ => fails.push(detail),
                                }
                            }
                        }
                    }
                    (req, obs)
                }
                Some(_) => (format!("C02.vex\t{}\t{}\t{}\t-\t-", src1, src_name, show_vvectors(&vectors)), "unsupported metal-tree".to_string()),
                None => {
                    fails.push(format!("function {} missing from the exported module", emitted_name));
                    (format!("C02.vex\t{}\t{}\t{}\t-\t-", src1, src_name, show_vvectors(&vectors)), "missing".to_string())
                }
            }
        }
        Ok(Err(e)) => (format!("C02.vex\t{}\t{}\t{}\t-\t-", src1, src_name, show_vvectors(&vectors)), format!("diagnostic {}", one_line(&format!("{:?}", e)).chars().take(60).collect::<String>())),
        Err(pn) => {
            fails.push(format!("panic {}", pn));
            // the model sees the request: does it predict the panic?
            let vars: Vec<String> = irf.args()[2].args().iter().map(|ip| format!("{}:p{}:{}", ip.args()[0].atom(), ip.args()[0].atom(), ip.args()[2].show())).collect();
            (format!("C02.vex\t{}\t{}\t{}\tvars={}\t{}", src1, src_name, show_vvectors(&vectors), vars.join(","), ret_expr.show()), format!("panic {}", panic_category(pn)))
        }
    };
    hist.add(if obs.starts_with("vast ") { "x:fn:supported" } else { "x:fn:other" });
    // text leg: the emitted TEXT of this function denotes the tree that was just judged
    if let Ok(Ok(m)) = &emitted {
        let t = crate::c02::text::check_module(&p.ir, m, hist);
        if let Some(tf) = t.fails_for(&emitted_name).into_iter().next() {
            fails.insert(0, tf);
        }
    }
    let first = fails.iter().find(|f| !f.starts_with("class:")).or(fails.first());
    let oracle = match first {
        Some(f) => format!("FAIL:{}", f),
        None => "ok".to_string(),
    };
    out.case(&req, &obs, &oracle);
}

/// the k-th expression function of the vector-model stream
pub fn vex_source(seed: u64, k: u64) -> String {
    let mut rng = Rng::new(seed.wrapping_mul(0x2545_F491_4F6C_DD1D) ^ k.wrapping_mul(0x9E37_79B9_7F4A_7C15) ^ 0x6d766578);
    if k % 4 == 3 {
        return vgenm::vex_extra(&mut rng);
    }
    let opts = vgen::VGenOpts { max_depth: 1 + (k % 4) as u32, matrices: false, structs: false, enums: false, pure: true };
    // every fourth: a statement-level assignment to a vector parameter / a swizzle of it
    if k % 4 == 1 {
        return vgen::VGen::new(&mut rng, opts).assignment_function();
    }
    vgen::VGen::new(&mut rng, opts).expression_function()
}

pub fn run_vex_stream(args: &Args, out: &mut Out, hist: &mut Hist) {
    let n = if args.thorough() { 4000 } else { 400 };
    for k in 0..n {
        let src = vex_source(args.seed, k);
        let mut arng = Rng::new(args.seed ^ (k.wrapping_mul(0x9E37_79B9_7F4A_7C15)) ^ 0x7e8);
        if let Err(pn) = guard(|| vex_program(&src, None, 6, &mut arng, out, hist)) {
            hist.add("x:harness-panic");
            out.case(&format!("C02.vex\t{}\t-\t\t-\t-", one_line(&src)), "harness-panic", &format!("SKIP:harness panic {}", pn));
        }
    }
}

pub fn run_vex_request(line: &str, out: &mut Out, hist: &mut Hist) {
    let f: Vec<&str> = line.split('\t').collect();
    if f.len() < 4 || f[0] != "C02.vex" {
        return;
    }
    let src = unescape(f[1]);
    let vecs = parse_vvectors(f[3]).unwrap_or_else(|| vec![vec![]]);
    let mut rng = Rng::new(1);
    let r = if f[2] == "-" { guard(|| vex_program(&src, None, 3, &mut rng, out, hist)) } else { guard(|| vex_program(&src, Some(&vecs), vecs.len(), &mut rng, out, hist)) };
    if let Err(pn) = r {
        out.case(&format!("C02.vex\t{}\t{}\t{}\t-\t-", f[1], f[2], f[3]), "harness-panic", &format!("SKIP:harness panic {}", pn));
    }
}

pub fn dump(path: &str) {
    let src = std::fs::read_to_string(path).unwrap_or_default();
    match compile_src(&src, Tgt::Msl, Mode::NoPipeline) {
        CompileOutcome::Ok(ps) => println!("TEXT\n{}", ps[0].text()),
        other => println!("{:?}", other),
    }
    let mut hist = Hist::default();
    match mprepare(&src, &mut hist) {
        Ok(p) => {
            for f in &p.prog {
                println!("IR  {}", f.show());
            }
            match guard(|| rssl_msl::verif_generate_ast(&p.ir)) {
                Ok(Ok(m)) => {
                    for i in vmconv::module(&m) {
                        println!("AST {}", i.show());
                    }
                }
                other => println!("{:?}", other.map(|r| r.map(|_| ()))),
            }
        }
        Err(e) => println!("{}", e),
    }
}

import RsslVerif.Gen.HashSites
import RsslVerif.Gen.EnumRange
import RsslVerif.Gen.GlobalState
import RsslVerif.Gen.Reserved
import RsslVerif.Model.HashOrder
import RsslVerif.Model.History
import RsslVerif.Model.MemoDfs
import RsslVerif.Lemmas.EnumRange
import RsslVerif.Thm.C02
/-!
# C07 — compilation is deterministic

The only scheduling freedom in this single-threaded library is the iteration order of std
`HashMap`/`HashSet`.  The theorems state that each *shape* of iteration site is invariant under every
permutation of the iteration order, and `hash_sites_covered` ties the shapes to the source: every
iteration site found in the current tree is one that was reviewed and classified.
-/
namespace RsslVerif.Thm.C07
open RsslVerif.Model.HashOrder

/-- **Any** sort function (a function returning a sorted permutation of its input — Rust's `sort`,
    `sort_by`, `sort_unstable`, …) gives the same result on every permutation of the same elements,
    provided the order is antisymmetric on those elements (a derived `Ord`, or a `sort_by` key that is
    injective on the collection). -/
theorem sort_perm_invariant {α : Type} (le : α → α → Bool) (sortFn : List α → List α)
    (hsorted : ∀ l, (sortFn l).Pairwise (fun a b => le a b))
    (hperm : ∀ l, (sortFn l).Perm l)
    {l₁ l₂ : List α} (h : l₁.Perm l₂)
    (antisymm : ∀ a b, a ∈ l₁ → b ∈ l₁ → le a b → le b a → a = b) :
    sortFn l₁ = sortFn l₂ := by
  apply List.Perm.eq_of_pairwise (le := fun a b => le a b) _ (hsorted l₁) (hsorted l₂)
  · exact (hperm l₁).trans (h.trans (hperm l₂).symm)
  · intro a b ha hb hab hba
    have ha' : a ∈ l₁ := (hperm l₁).mem_iff.1 ha
    have hb' : b ∈ l₁ := h.mem_iff.2 ((hperm l₂).mem_iff.1 hb)
    exact antisymm a b ha' hb' hab hba

/-- Instance: collect-then-sort with the model's stable merge sort. -/
theorem collectSort_perm_invariant {α : Type} (le : α → α → Bool)
    (trans : ∀ a b c, le a b → le b c → le a c) (total : ∀ a b, le a b || le b a)
    {l₁ l₂ : List α} (h : l₁.Perm l₂)
    (antisymm : ∀ a b, a ∈ l₁ → b ∈ l₁ → le a b → le b a → a = b) :
    collectSort le l₁ = collectSort le l₂ :=
  sort_perm_invariant le (fun l => l.mergeSort le)
    (fun l => List.pairwise_mergeSort trans total l) (fun l => List.mergeSort_perm l le) h antisymm

/-- `sort_by(key)` with keys that are pairwise distinct on the collection (map keys, binding slots —
    distinct by C06 `index_ranges_tile`) is order independent. -/
theorem sortBy_key_perm_invariant {α : Type} (key : α → Nat) {l₁ l₂ : List α} (h : l₁.Perm l₂)
    (hinj : ∀ a b, a ∈ l₁ → b ∈ l₁ → key a = key b → a = b) :
    collectSort (fun a b => decide (key a ≤ key b)) l₁ =
    collectSort (fun a b => decide (key a ≤ key b)) l₂ := by
  apply collectSort_perm_invariant _ _ _ h
  · intro a b ha hb hab hba
    have h1 : key a ≤ key b := by simpa using hab
    have h2 : key b ≤ key a := by simpa using hba
    exact hinj a b ha hb (by omega)
  · intro a b c hab hbc
    have h1 : key a ≤ key b := by simpa using hab
    have h2 : key b ≤ key c := by simpa using hbc
    simpa using Nat.le_trans h1 h2
  · intro a b
    have := Nat.le_total (key a) (key b)
    simpa using this

/-- Reading back by key from pairs inserted under distinct keys does not depend on insertion order
    (name map entries keyed by symbol, function → required globals, …). -/
theorem lookup_perm_invariant {κ ν : Type} [BEq κ] [LawfulBEq κ] {l₁ l₂ : List (κ × ν)}
    (h : l₁.Perm l₂) (hnd : (l₁.map (·.1)).Nodup) (k : κ) :
    lookupAfterInserts l₁ k = lookupAfterInserts l₂ k := by
  unfold lookupAfterInserts
  induction h with
  | nil => rfl
  | cons x _ ih =>
    obtain ⟨xk, xv⟩ := x
    simp only [List.map_cons, List.nodup_cons] at hnd
    simp only [List.lookup_cons]
    split
    · rfl
    · exact ih hnd.2
  | swap x y l =>
    obtain ⟨xk, xv⟩ := x
    obtain ⟨yk, yv⟩ := y
    simp only [List.map_cons, List.nodup_cons, List.mem_cons, not_or] at hnd
    simp only [List.lookup_cons]
    by_cases hx : (k == xk) = true
    · by_cases hy : (k == yk) = true
      · have e : yk = xk := by rw [← eq_of_beq hx, ← eq_of_beq hy]
        exact absurd e hnd.1.1
      · simp [hx, hy]
    · by_cases hy : (k == yk) = true
      · simp [hx, hy]
      · simp [hx, hy]
  | trans h₁ _ ih₁ ih₂ =>
    rw [ih₁ hnd]
    exact ih₂ ((h₁.map (·.1)).nodup_iff.1 hnd)

/-- Folding with an operation whose steps commute (set insertion/union, boolean or, counting) does
    not depend on the order. -/
theorem fold_perm_invariant {α β : Type} (op : β → α → β)
    (comm : ∀ b a₁ a₂, op (op b a₁) a₂ = op (op b a₂) a₁) (init : β) {l₁ l₂ : List α}
    (h : l₁.Perm l₂) : foldAll op init l₁ = foldAll op init l₂ := by
  unfold foldAll
  induction h generalizing init with
  | nil => rfl
  | cons x _ ih => exact ih (op init x)
  | swap x y l => simp only [List.foldl_cons]; rw [comm]
  | trans _ _ ih₁ ih₂ => exact (ih₁ init).trans (ih₂ init)

/-- A loop that only checks its elements (assertions, `unreachable!`, `return None`, `?`): WHETHER it fails does
    not depend on the iteration order. -/
theorem firstFailure_ok_perm_invariant {α ε : Type} (check : α → Option ε) {l₁ l₂ : List α} (h : l₁.Perm l₂) :
    firstFailure check l₁ = .ok () ↔ firstFailure check l₂ = .ok () := by
  have key : ∀ l : List α, firstFailure check l = .ok () ↔ ∀ a ∈ l, check a = none := by
    intro l
    unfold firstFailure
    cases hf : l.findSome? check with
    | none => simpa using List.findSome?_eq_none_iff.1 hf
    | some e =>
      obtain ⟨a, ha, hc⟩ := List.exists_of_findSome?_eq_some hf
      simp only [reduceCtorEq, false_iff]
      intro H
      have := H a ha
      simp [hc] at this
  rw [key, key]
  exact ⟨fun H a ha => H a (h.mem_iff.2 ha), fun H a ha => H a (h.mem_iff.1 ha)⟩

/-- ... and WHAT it reports does not either when every failing element reports the same payload (a constant
    panic message, a constant `None`).  This is the reading behind the `effects` notes of `classified`. -/
theorem firstFailure_perm_invariant {α ε : Type} (check : α → Option ε) {l₁ l₂ : List α} (h : l₁.Perm l₂)
    (same : ∀ a ∈ l₁, ∀ b ∈ l₁, ∀ e₁ e₂, check a = some e₁ → check b = some e₂ → e₁ = e₂) :
    firstFailure check l₁ = firstFailure check l₂ := by
  unfold firstFailure
  cases h1 : l₁.findSome? check with
  | none =>
    have hn : ∀ a ∈ l₂, check a = none := fun a ha => List.findSome?_eq_none_iff.1 h1 a (h.mem_iff.2 ha)
    rw [List.findSome?_eq_none_iff.2 hn]
  | some e₁ =>
    obtain ⟨a, ha, hca⟩ := List.exists_of_findSome?_eq_some h1
    cases h2 : l₂.findSome? check with
    | none =>
      have := List.findSome?_eq_none_iff.1 h2 a (h.mem_iff.1 ha)
      simp [hca] at this
    | some e₂ =>
      obtain ⟨b, hb, hcb⟩ := List.exists_of_findSome?_eq_some h2
      have := same a ha b (h.mem_iff.2 hb) e₁ e₂ hca hcb
      simp [this]

/-- why a site is order independent -/
inductive Shape where
  /-- collect into a Vec, then `sort` with an antisymmetric order / injective key (`sort_perm_invariant`) -/
  | collectSort
  /-- results go into another map / set under distinct keys (`lookup_perm_invariant`) -/
  | insertOnly
  /-- the iterations commute (`fold_perm_invariant`, `Lemmas.EnumRange.foldl_perm_of_invariant`) -/
  | commutativeFold
  /-- monotone closure iterated to its least fixpoint -/
  | fixpoint
  /-- the ordered result is stored but no consumer reads its order -/
  | unobserved
  /-- the body only checks its elements (`assert!`, `unreachable!`): whether a check fails does not depend on
      the order (`firstFailure_ok_perm_invariant`); what a failing check reports is reviewed in `effects` -/
  | checksOnly
  /-- not a hash iteration at all: the loop walks a `Vec` stored as a map *value*, in push order -/
  | mapValueVec
  /-- this very body is transcribed into a Lean model and its order independence is a theorem about the model -/
  | modelled
  deriving DecidableEq, Repr

/-- one reviewed iteration site: the key (file, fn, how, bodyHash) must match the regenerated inventory -/
structure Reviewed where
  file : String
  fn : String
  how : String
  /-- fingerprint of the body that was reviewed -/
  bodyHash : String
  shape : Shape
  /-- why early exits / diagnostics / first-wins tests inside the body are harmless ("" = the body has none) -/
  effects : String
  note : String

/-- the reviewed iteration sites of the CURRENT source, each body read once -/
def classified : List Reviewed := [
  ⟨"ir/src/ir_module.rs", "process_definition", "for:inline_size|sorts:self.inline_constant_buffers", "dad79e496df3",
    .collectSort, "", "inline_constant_buffers.sort() follows (derived Ord over (set, location, size)); sets are distinct map keys"⟩,
  ⟨"ir/src/name_generator.rs", "build", "for:&scopes|sorts:name_to_symbol_vec", "62732911e785",
    .modelled, "`break candidate` leaves the inner counter loop, not the scope loop; the panic message of a duplicate symbol is unreachable (symbols are distinct keys); is_some() tests that insert result",
    "C15.build_scope_order_independent: per-scope naming depends on the scope alone (inner sort_by over distinct names); results keyed by distinct symbols; used_names_all_scopes is a set union"⟩,
  ⟨"ir/src/name_generator.rs", "build", "for:usage.get_usage_for_function(id)", "4784f8bb120e",
    .commutativeFold, "", "set insertion into used_names_all_scopes, only tested for membership afterwards (C15.build_scope_order_independent covers the model)"⟩,
  ⟨"ir/src/usage_analysis.rs", "recurse", "for:&current_set.required", "d1adc5ed101f",
    .fixpoint, "", "union of required sets (C02.closure_order_independent)"⟩,
  ⟨"ir/src/usage_analysis.rs", "recurse", "for:&keys|from:self.0", "793b2e4a0dae",
    .fixpoint, "", "the key order only changes how fast the least fixpoint is reached (C02.closure_order_independent)"⟩,
  ⟨"ir/src/usage_analysis.rs", "recurse", "method:self.0.keys", "791d50d5c7b4",
    .fixpoint, "", "keys collected once, in hash order, for the fixpoint loop above"⟩,
  ⟨"msl/src/generator.rs", "analyse_globals", "for:global_usage.get_usage_for_function(id)|sorts:required_globals", "ccd2250ffa8e",
    .collectSort, "panic!(\"Non-type template parameter is DispatchMesh\") has a constant message and guards a typer invariant; the two assert!s guard `intrinsic globals have no mode` / `DispatchMesh has one template argument` with constant texts",
    "required_globals.sort() follows (derived Ord; C02.required_order_independent); called_functions is a set"⟩,
  ⟨"msl/src/generator/intrinsic_helpers.rs", "generate_helpers", "for:objects|from:required_helpers|sorted-before", "cc1c54166cc5",
    .collectSort, "`?` leaves at the first failing helper of a SORTED walk: objects.sort_by(key) precedes the loop and `ordered.sort()` the inner one",
    "objects.sort_by over distinct map keys; inner Vec::from_iter(helpers).sort()"⟩,
  ⟨"msl/src/generator/intrinsic_helpers.rs", "generate_helpers", "from_iter:required_helpers|sorts:objects,ordered", "cd70f416dbdb",
    .collectSort, "", "Vec::from_iter(required_helpers) immediately followed by sort_by(key) over distinct map keys"⟩,
  ⟨"typer/src/typer/scopes.rs", "build_function_template_signature", "for:&self.scopes[old_scope_id].symbols", "7746252ec217",
    .insertOnly, "`return None` leaves with a constant value and nothing observable done (new_symbols is a local): `∃ mismatching parameter` does not depend on the order",
    "template parameter symbols are gathered under their own distinct names (map keys, one symbol each)"⟩,
  ⟨"typer/src/typer/scopes.rs", "build_function_template_signature", "for:new_symbols|from:symbols", "b68c1f2d892c",
    .insertOnly, "is_some() tests the result of insert under distinct names (keys of the source map): never true; the panic message is a constant",
    "re-insertion of the gathered symbols under their distinct names, one-element vectors"⟩,
  ⟨"typer/src/typer/scopes.rs", "build_function_template_signature", "for:self.scopes[old_scope_id].symbols.values()", "43432eb69114",
    .checksOnly, "five assert!(!matches!(..)) per symbol: they guard `a template function scope holds only template parameters` (the scope is filled by the template parameter list alone); were two DIFFERENT ones violated, the assertion text quoted by the panic would follow the hash order — no source text reaches that state",
    "assertions only (firstFailure_ok_perm_invariant)"⟩,
  ⟨"typer/src/typer/scopes.rs", "build_function_template_signature", "method:self.scopes[old_scope_id].symbols.values", "eb511d922cc8",
    .checksOnly, "the same loop, recorded by its method form", "assertions only (firstFailure_ok_perm_invariant)"⟩,
  ⟨"typer/src/typer/scopes.rs", "build_function_template_signature", "for:symbols", "5071b0823b50",
    .mapValueVec, "inner loop of the assertion loop above", "`symbols` is the Vec stored as a map value; assertions only"⟩,
  ⟨"typer/src/typer/scopes.rs", "build_function_template_signature", "for:symbols", "7b840f1e8977",
    .mapValueVec, "inner loop of the gathering loop above (one symbol per template parameter name)", "`symbols` is the Vec stored as a map value"⟩,
  ⟨"typer/src/typer/scopes.rs", "end_enum", "for:enum_symbols", "838b04e3655d",
    .modelled, "unreachable!() has a constant message; it guards `only enum values live in an enum scope`",
    "drains the map into enum_values in hash order: this order IS the permutation parameter `vals` of Model.EnumRange.endEnum"⟩,
  ⟨"typer/src/typer/scopes.rs", "end_enum", "for:&enum_values|from:enum_symbols", "af736ce73b79",
    .modelled, "the `_ => panic!` arm is part of the model (its message quotes the offending constant)", "range loop = Model.EnumRange.gather (min/max fold; the `_ => panic!` arm is modelled with its message): end_enum_type_or_error_order_independent"⟩,
  ⟨"typer/src/typer/scopes.rs", "end_enum", "for:&enum_values|from:enum_symbols", "1d70641d30f5",
    .modelled, "panic! / unreachable!() arms are part of the model", "conversion loop = Model.EnumRange.convertStep (update_underlying_type under distinct value ids): end_enum_order_independent"⟩,
  ⟨"typer/src/typer/scopes.rs", "end_enum", "for:&enum_values|from:enum_symbols", "054261ad51ae",
    .modelled, "unwrap() is part of the model (constant message)", "promotion loop = Model.EnumRange.promoteStep (per-name update of a vector of ANY length + replacement count; body re-read after fix batch 3: fe5dd8d removes assert_eq!(symbols.len(), 1), the text is also tied by Gen.EnumRange.promoteLoop): end_enum_order_independent"⟩,
  ⟨"typer/src/typer/scopes.rs", "end_enum", "for:enum_values|from:enum_symbols", "45774f126f3f",
    .modelled, "is_some() tests the result of insert; the panic message is a constant: both in the model", "reinsertion = Model.EnumRange.reinsertStep (distinct names; constant panic message): end_enum_order_independent"⟩,
  ⟨"typer/src/typer/scopes.rs", "end_enum", "for:symbols", "7ccfa991b261",
    .mapValueVec, "", "inner loop of the promotion loop over the Vec of the name (one enum value, possibly next to a constant buffer block of the same name since fe5dd8d); part of Model.EnumRange.promoteStep (map Sym.promote / filter Sym.isUntyped)"⟩,
  ⟨"typer/src/typer/scopes.rs", "extract_locals", "method:self.variables.iter", "cd13c9cc2951",
    .unobserved, "", "fills ScopedDeclarations.variables in hash order; no exporter reads its order (scoped_declarations_unobserved)"⟩,
  ⟨"typer/src/typer/scopes.rs", "find_identifier_in_scope", "for:symbols", "b8568009a2af",
    .mapValueVec, "first Type symbol of a Vec in push (= declaration) order", "`symbols` is the Vec stored as a map value"⟩,
  ⟨"typer/src/typer/scopes.rs", "find_identifier_in_scope", "for:symbols", "14cdd086984a",
    .mapValueVec, "first value symbol (cbuffer member, global, enum value, template type / value, constant) of a Vec in push (= declaration) order; functions are collected as overloads in that order (the candidate lists of ambiguity diagnostics); Type / ConstantBuffer / Namespace / EnumScope symbols are skipped; the debug_assert! (a value symbol never follows a gathered overload) has a constant text",
    "`symbols` is the Vec stored as a map value; body re-read after fix batch 2 (31dddea widens the debug_assert to the skipped symbol kinds, 0523738 turns the unreachable!() of the TemplateValue arm into `return Some(VariableExpression::TemplateValue(id))`)"⟩,
  ⟨"typer/src/typer/scopes.rs", "register_enum_value", "method:symbols.iter", "d3ce669c38d8",
    .mapValueVec, "`symbols.iter().any(is Namespace)` (added by fix fe5dd8d): an existential test over the Vec stored under the value's name in the parent scope (push order, not a hash walk); the `return Err(ValueAlreadyDefined(name, Unknown, Unknown))` it guards carries only the name being declared, nothing of the symbol that matched",
    "`symbols` is the Vec stored as a map value, reached by `get(&name.node)`"⟩,
  ⟨"typer/src/typer/scopes.rs", "walk_into_scopes", "for:symbols", "98fd69e2a092",
    .mapValueVec, "assert_eq!(current, step_start): at most one scope symbol per name, walked in push order", "`symbols` is the Vec stored as a map value"⟩]

open RsslVerif.Gen.HashSites in
/-- the review of a site of the regenerated inventory: same file, function, traversal AND body fingerprint -/
def reviewOf (s : Site) : Option Reviewed :=
  classified.find? (fun r => r.file == s.file && r.fn == s.fn && r.how == s.how && r.bodyHash == s.bodyHash)

open RsslVerif.Gen.HashSites in
/-- the body looks order sensitive: it can leave early / observe positions, build a diagnostic, or keep a first value -/
def flagged (s : Site) : Bool := s.hasEarlyExit || s.buildsDiagnostic || s.firstWins

/-- a classification is acceptable for a body with order-sensitive looking effects only if the body itself is
    transcribed into a model (`modelled`), is not a hash iteration (`mapValueVec`), or carries a reviewed reason —
    and never as a plain commutative fold -/
def acceptable (r : Reviewed) (isFlagged : Bool) : Bool :=
  !isFlagged || (r.shape != .commutativeFold && (r.shape == .modelled || r.effects != ""))

/-- Tie to the source: every place where the current tree iterates a hash ordered container (a HashMap/HashSet,
    or a Vec filled from one) is a reviewed one, and the body that was reviewed is the body that is there now.
    A new site, a renamed one, or ANY change inside the loop body of a known site makes this obligation fail
    until the body is read again and its fingerprint recorded. -/
theorem hash_sites_covered :
    RsslVerif.Gen.HashSites.sites.all (fun s => (reviewOf s).isSome) = true := by decide +kernel

/-- Tie to the source: a body that can leave early, builds a diagnostic or keeps the first value it meets is never
    accepted as a commutative fold; it is modelled, or its effects were reviewed one by one. -/
theorem site_effects_reviewed :
    RsslVerif.Gen.HashSites.sites.all (fun s =>
      match reviewOf s with
      | none => false
      | some r => acceptable r (flagged s)) = true := by decide +kernel

/-- the review file is in sync: it has no entry for a body that is no longer in the source -/
theorem classified_all_current :
    classified.all (fun r => RsslVerif.Gen.HashSites.sites.any (fun s =>
      r.file == s.file && r.fn == s.fn && r.how == s.how && r.bodyHash == s.bodyHash)) = true := by decide +kernel

/-- Tie to the source: the one hash-ordered vector that is stored in the IR is only ever filtered. -/
theorem scoped_declarations_unobserved :
    RsslVerif.Gen.HashSites.scopedDeclarationConsumers.all (fun c => c.2 == "retain") = true := by decide

/-- Tie to the source: no clocks, randomness, environment reads or threads in the compiler crates. -/
theorem no_other_nondeterminism : RsslVerif.Gen.HashSites.otherNondeterminism = [] := by decide

/-! ## History independence: the result of a request does not depend on what the process compiled before

The property speaks of compiling the same inputs again "in the same or in another process".  A process may have
compiled anything before (another target, another input, a failing input), so the result of a request has to be
the one a fresh process gives.  `Model/History.lean` fixes the notions; the tie is the regenerated inventory
`Gen.GlobalState` of everything that could survive the return of `compile`. -/
section History
open RsslVerif.Model.History

/-- If the result of a step never reads the process-wide state, every request compiled after ANY history gives
    the result a fresh process gives. (Full: all state types, all step functions, all histories.) -/
theorem history_independent_of_stateless {σ ρ β : Type} (step : σ → ρ → β × σ)
    (hpure : ∀ s s' r, (step s r).1 = (step s' r).1) (s₀ : σ) (h : List ρ) (r : ρ) :
    resultAfter step s₀ h r = fresh step s₀ r := hpure _ _ _

/-- ... and the whole list of results of a sequence is the list of the fresh results: in particular every
    permutation of a sequence of requests gives, request by request, the same results. -/
theorem runSeq_eq_map_fresh {σ ρ β : Type} (step : σ → ρ → β × σ)
    (hpure : ∀ s s' r, (step s r).1 = (step s' r).1) (s₀ : σ) (rs : List ρ) :
    ∀ s, runSeq step s rs = rs.map (fresh step s₀) := by
  induction rs with
  | nil => intro s; rfl
  | cons r rs ih =>
    intro s
    simp only [runSeq, List.map_cons, ih]
    exact congrArg (· :: _) (hpure s s₀ r)

/-- A process whose only state is `Unit` (no `static` with interior mutability, no thread local: what
    `no_process_wide_state` finds in the source) is history independent, whatever its step function does. -/
theorem history_independent_of_no_state {ρ β : Type} (step : Unit → ρ → β × Unit) (h : List ρ) (r : ρ) :
    resultAfter step () h r = fresh step () r :=
  history_independent_of_stateless step (fun _ _ _ => rfl) () h r

/-- the transcription of the reserved-set part of `NameMap::build` is history independent -/
theorem real_reserved_set_history_independent (h : List NameReq) (r : NameReq) :
    resultAfter stepReal () h r = fresh stepReal () r := history_independent_of_no_state stepReal h r

/-- non-vacuity: `main` is reserved by the Metal exporter only (regenerated lists), and the real step renames it on
    Metal and keeps it on HLSL whatever was compiled before -/
example : RsslVerif.Gen.Reserved.msl.contains "main" = true ∧ RsslVerif.Gen.Reserved.hlsl.contains "main" = false ∧
    runSeq stepReal () [⟨RsslVerif.Gen.Reserved.hlsl, ["main", "f"]⟩, ⟨RsslVerif.Gen.Reserved.msl, ["main", "f"]⟩]
      = [["main", "f"], ["main_0", "f"]] ∧
    runSeq stepReal () [⟨RsslVerif.Gen.Reserved.msl, ["main", "f"]⟩, ⟨RsslVerif.Gen.Reserved.hlsl, ["main", "f"]⟩]
      = [["main_0", "f"], ["main", "f"]] := by decide +kernel

/-- (negation with witness) the seeded variant C07-5 — the reserved set of the first build kept in a `static
    OnceLock` — is NOT history independent: a Metal request declaring `main` gives `main_0` alone and `main` after
    one HLSL request, with the reserved lists of the current source. -/
theorem once_lock_history_dependent :
    ∃ (h : List NameReq) (r : NameReq),
      resultAfter stepOnceLock none h r ≠ fresh stepOnceLock none r :=
  ⟨[⟨RsslVerif.Gen.Reserved.hlsl, ["f"]⟩], ⟨RsslVerif.Gen.Reserved.msl, ["main"]⟩, by decide +kernel⟩

/-- the reviewed list of `static` items of the compiler crates: none -/
def reviewedStatics : List RsslVerif.Gen.GlobalState.Static := []

/-- Tie to the source: the compiler crates have no process-wide state — the regenerated list of `static` items
    (module level or inside functions) equals the reviewed list and none of them has interior mutability; there
    is no `thread_local!` / `lazy_static!`, no mention of OnceLock / OnceCell / LazyLock / Mutex / RwLock / Atomic* /
    Once / UnsafeCell / Arc, and no `Box::leak` / `mem::forget` / `unsafe` with which one could be built by hand.
    The seeded change C07-5 adds `static RESERVED_NAME_SET: OnceLock<HashSet<String>>` → this obligation fails. -/
theorem no_process_wide_state :
    RsslVerif.Gen.GlobalState.statics = reviewedStatics ∧
    RsslVerif.Gen.GlobalState.statics.all (fun s => !s.interior && s.kind == "static") = true ∧
    RsslVerif.Gen.GlobalState.stateMacros = [] ∧
    RsslVerif.Gen.GlobalState.syncTypeUses = [] ∧
    RsslVerif.Gen.GlobalState.leaks = [] := by decide

/-- Tie to the source: nothing from outside the arguments enters a compilation — no environment variables,
    clocks, process / thread identity, randomness, hasher states, working directory, panic hooks, type ids or
    addresses turned into integers; and every crate the compiler links is a path dependency of the workspace
    (so the inventories above see all the code), without build scripts. Wider than `no_other_nondeterminism`
    (it also catches `use std::env; env::var(..)`, `Instant`, `process::id`, `DefaultHasher`). -/
theorem no_ambient_inputs :
    RsslVerif.Gen.GlobalState.ambient = [] ∧ RsslVerif.Gen.GlobalState.externalDependencies = [] := by decide

/-- the inventory looked at the source: at least 60 files were scanned (an empty scan would make the two
    theorems above vacuous) -/
theorem global_state_scan_not_empty : 60 ≤ RsslVerif.Gen.GlobalState.scannedFiles := by decide

end History

/-! ## Worked example of a commutative fold: `Context::end_enum` (typer/src/typer/scopes.rs)

`enum_values` is filled by draining a `HashMap`, so every loop of `end_enum` runs in hash order.  The model
`Model.EnumRange.endEnum` takes that order as its list argument. -/
section EndEnum
open RsslVerif.Model.EnumRange RsslVerif.Lemmas.EnumRange

/-- Tie to the source: the loops of `end_enum` are the ones `Model/EnumRange.lean` transcribes — initial range
    `(0, 0)`, six integer-like arms doing `min`/`max` on the widened value and a panicking `_` arm, the
    `i32` / `u32` / error selection with the error located at the ENUM's name and carrying `(min, max)`, the
    widening arms and the two wrapping conversions, the promotion loop (`unwrap`, promote every untyped value of
    the name's vector, count, `assert_eq!` on the count — WITHOUT the `assert_eq!(symbols.len(), 1)` that fix
    `fe5dd8d` removed) and the reinsertion loop.  Any edit of these pieces (the seeded change C07-3 rewrites
    the range loop and the error location) stops this theorem until the model is brought up to date. -/
theorem end_enum_shape_as_modelled :
    RsslVerif.Gen.EnumRange.init = [("min_value", "0"), ("max_value", "0")] ∧
    RsslVerif.Gen.EnumRange.gatherPrefix =
      "let constant = &self .module .enum_registry .get_enum_value(*enum_value_id) .value;" ∧
    RsslVerif.Gen.EnumRange.gatherArms =
      [("ir::Constant::Bool(value)", "", "{ min_value = std::cmp::min(min_value, value as i128); max_value = std::cmp::max(max_value, value as i128); }"),
       ("ir::Constant::IntLiteral(value)", "", "{ min_value = std::cmp::min(min_value, value); max_value = std::cmp::max(max_value, value); }"),
       ("ir::Constant::Int32(value)", "", "{ min_value = std::cmp::min(min_value, value as i128); max_value = std::cmp::max(max_value, value as i128); }"),
       ("ir::Constant::UInt32(value)", "", "{ min_value = std::cmp::min(min_value, value as i128); max_value = std::cmp::max(max_value, value as i128); }"),
       ("ir::Constant::Int64(value)", "", "{ min_value = std::cmp::min(min_value, value as i128); max_value = std::cmp::max(max_value, value as i128); }"),
       ("ir::Constant::UInt64(value)", "", "{ min_value = std::cmp::min(min_value, value as i128); max_value = std::cmp::max(max_value, value as i128); }"),
       ("_", "", "panic!(\"invalid type inside enum value: {constant:?}\")")] ∧
    RsslVerif.Gen.EnumRange.select =
      "let scalar_type = if min_value >= i32::MIN as i128 && max_value <= i32::MAX as i128 { ir::ScalarType::Int32 } else if min_value >= u32::MIN as i128 && max_value <= u32::MAX as i128 { ir::ScalarType::UInt32 } else { let location = self .module .enum_registry .get_enum_definition(enum_id) .name .location; return Err(TyperError::EnumTypeCanNotBeDeduced( location, min_value, max_value, )); };" ∧
    RsslVerif.Gen.EnumRange.widenArms =
      [("ir::Constant::Bool(value)", "", "value as i128"),
       ("ir::Constant::IntLiteral(value)", "", "value"),
       ("ir::Constant::Int32(value)", "", "value as i128"),
       ("ir::Constant::UInt32(value)", "", "value as i128"),
       ("ir::Constant::Int64(value)", "", "value as i128"),
       ("ir::Constant::UInt64(value)", "", "value as i128"),
       ("_", "", "panic!(\"invalid type inside enum value: {constant:?}\")")] ∧
    RsslVerif.Gen.EnumRange.convertArms =
      [("ir::ScalarType::Int32", "", "ir::Constant::Int32(value as i32)"),
       ("ir::ScalarType::UInt32", "", "ir::Constant::UInt32(value as u32)"),
       ("_", "", "unreachable!()")] ∧
    RsslVerif.Gen.EnumRange.promoteLoop =
      "let mut replacements = 0; for (name, _) in &enum_values { let symbols = self.scopes[parent_scope].symbols.get_mut(name).unwrap(); for symbol in symbols { if let ScopeSymbol::EnumValueUntyped(id) = symbol { *symbol = ScopeSymbol::EnumValue(*id); replacements += 1; } } } assert_eq!(replacements, enum_values.len());" ∧
    RsslVerif.Gen.EnumRange.reinsertLoop =
      "for (name, id) in enum_values { if self.scopes[self.current_scope] .symbols .insert(name, Vec::from([ScopeSymbol::EnumValue(id)])) .is_some() { panic!(\"duplicate symbol when reinserting typed enum values\"); } }" := by decide +kernel

/-- the chosen underlying type, or the range error with its location and `(min, max)` payload -/
def typeOrError (enumLoc : Loc) (vals : List Entry) : Except Failure Scalar :=
  match gather vals with
  | .error f => .error f
  | .ok r => select enumLoc r

/-- **The range computation of `end_enum` is order independent**: for every two iteration orders of the drained
    symbol map, the chosen underlying type — or the rendered error: location (the enum's name), minimum and
    maximum — is the same.  Hypothesis: every value is integer-like, the invariant `parse/typer` establish before
    `register_enum_value` (`EnumValueMustBeInteger`); without it see `end_enum_panics_order_independent`. -/
theorem end_enum_type_or_error_order_independent (enumLoc : Loc) {vals₁ vals₂ : List Entry}
    (p : vals₁.Perm vals₂) (hint : ∀ e ∈ vals₁, e.value.widen?.isSome) :
    typeOrError enumLoc vals₁ = typeOrError enumLoc vals₂ := by
  unfold typeOrError
  rw [gather_perm p hint]

/-- Without the integer-like invariant: WHETHER the range loop panics is the same for every order (it does iff
    some value is not integer-like). -/
theorem end_enum_panics_order_independent {vals₁ vals₂ : List Entry} (p : vals₁.Perm vals₂) :
    (∃ r, gather vals₁ = .ok r) ↔ (∃ r, gather vals₂ = .ok r) := by
  rw [gather_ok_iff, gather_ok_iff]
  exact ⟨fun h e he => h e (p.mem_iff.2 he), fun h e he => h e (p.mem_iff.1 he)⟩

/-- ... but the panic MESSAGE is not: it quotes the first offending constant met.  (Unreachable from source
    text: the typer rejects a non-integer enumerator before it is registered.)  This is why
    `end_enum_type_or_error_order_independent` carries its hypothesis and is not stated for all constants. -/
theorem gather_panic_message_order_dependent :
    ∃ vals₁ vals₂ : List Entry, vals₁.Perm vals₂ ∧ gather vals₁ ≠ gather vals₂ :=
  ⟨[⟨"A", 0, .other "Float(1.0)", 10⟩, ⟨"B", 1, .other "Float(2.0)", 20⟩],
   [⟨"B", 1, .other "Float(2.0)", 20⟩, ⟨"A", 0, .other "Float(1.0)", 10⟩],
   List.Perm.swap _ _ _, by decide⟩

/-- **`end_enum` as a whole is order independent**: underlying type or error, the enum registry after the
    conversion loop, the parent scope after the promotion loop and the re-filled enum scope — or the panic with
    its message — are the same for every two iteration orders of the drained symbol map, for EVERY parent scope:
    the vector of a name may hold any number of symbols (since fix `fe5dd8d` an enum value may share its name with
    a constant buffer block; the former hypothesis "every name maps to a one-element vector" — the negation of
    the repaired `assert_eq!(symbols.len(), 1)` panic — is gone, and so is "names are distinct": the promotion
    and reinsertion iterations commute on every state).  Hypotheses = what the callers establish: values are
    integer-like and value ids distinct (fresh registry indices). -/
theorem end_enum_order_independent (enumLoc : Loc) (registry : Nat → Option Const) (parent : Scope)
    {vals₁ vals₂ : List Entry} (p : vals₁.Perm vals₂)
    (hint : ∀ e ∈ vals₁, e.value.widen?.isSome)
    (hid : ∀ x ∈ vals₁, ∀ y ∈ vals₁, x.id = y.id → x = y) :
    endEnum enumLoc registry parent vals₁ = endEnum enumLoc registry parent vals₂ := by
  have hconv : ∀ scalar, vals₁.foldl (convertStep scalar) (.ok registry) =
      vals₂.foldl (convertStep scalar) (.ok registry) := fun scalar => convert_perm scalar p hint hid registry
  unfold endEnum
  rw [gather_perm p hint, promote_perm p, reinsert_perm p, p.length_eq]
  simp only [hconv]

/-- The promotion loop of `end_enum` does not panic on what `register_enum_value` leaves behind: every name of
    the enum has an entry in the parent scope — of any length.  (Before fix `fe5dd8d` a second symbol under the
    name, `cbuffer A {..} enum E { A };`, ended in `assert_eq!(symbols.len(), 1)`.) -/
theorem end_enum_promotion_total (parent : Scope) (vals : List Entry)
    (hparent : ∀ e ∈ vals, ∃ syms, parent e.name = some syms) :
    ∃ parent' n, vals.foldl promoteStep (.ok (parent, 0)) = .ok (parent', n) :=
  promote_ok parent hparent

/-- The seeded variant C07-3 (error located at the first value after which no type fits) is NOT order
    independent: the same three values in two orders blame two different locations.  The classification
    "commutative fold" is a property of the body, which is why `hash_sites_covered` pins the body. -/
theorem blame_first_order_dependent :
    ∃ vals₁ vals₂ : List Entry, vals₁.Perm vals₂ ∧
      (∀ e ∈ vals₁, e.value.widen?.isSome) ∧
      gatherBlameFirst 5 vals₁ ≠ gatherBlameFirst 5 vals₂ ∧
      typeOrError 5 vals₁ = typeOrError 5 vals₂ :=
  ⟨[⟨"None", 0, .intLiteral 0, 10⟩, ⟨"Big", 1, .intLiteral 4294967296, 20⟩, ⟨"Bigger", 2, .intLiteral 4294967297, 30⟩],
   [⟨"Bigger", 2, .intLiteral 4294967297, 30⟩, ⟨"None", 0, .intLiteral 0, 10⟩, ⟨"Big", 1, .intLiteral 4294967296, 20⟩],
   by decide, by decide, by decide, by decide⟩

/-! Non-vacuity: an enum whose range fits nothing (error with location 5 and the range), one that needs `uint`,
    and the complete `end_enum` on a parent scope prepared as `register_enum_value` leaves it. -/
example : typeOrError 5 [⟨"Neg", 0, .intLiteral (-1), 10⟩, ⟨"All", 1, .uint32 4294967295, 20⟩]
    = .error (.rangeError 5 (-1) 4294967295) := by decide
example : typeOrError 5 [⟨"A", 0, .intLiteral 1, 10⟩, ⟨"All", 1, .uint32 4294967295, 20⟩] = .ok .uint32 := by decide
example : (match endEnum 5 (fun _ => none)
      (fun n => if n = "A" then some [Sym.enumValueUntyped 0] else if n = "B" then some [Sym.enumValueUntyped 1] else none)
      [⟨"B", 1, .intLiteral 7, 20⟩, ⟨"A", 0, .bool true, 10⟩] with
    | .ok r => (r.scalar, r.registry 0, r.registry 1, r.parent "A", r.enumScope "B") ==
        (Scalar.int32, some (Const.int32 1), some (Const.int32 7), some [Sym.enumValue 0], some [Sym.enumValue 1])
    | .error _ => false) = true := by decide

/-! Non-vacuity of the class that fix `fe5dd8d` opened: `cbuffer A { .. } enum E { A, B };` — the parent scope holds
    the constant buffer block (`Sym.other 7`) AND the untyped value under `A`; both orders promote the value, keep the
    block, and count two replacements (no panic). -/
def cbufferParent : Scope := fun n =>
  if n = "A" then some [Sym.other 7, Sym.enumValueUntyped 0] else if n = "B" then some [Sym.enumValueUntyped 1] else none

def runOnCbufferParent (vals : List Entry) :=
  match endEnum 5 (fun _ => none) cbufferParent vals with
  | .ok r => some (r.scalar, r.registry 0, r.registry 1, r.parent "A", r.parent "B", r.enumScope "A")
  | .error _ => none

example :
    (runOnCbufferParent [⟨"B", 1, .intLiteral 7, 20⟩, ⟨"A", 0, .intLiteral 0, 10⟩] ==
      runOnCbufferParent [⟨"A", 0, .intLiteral 0, 10⟩, ⟨"B", 1, .intLiteral 7, 20⟩]) = true ∧
    (runOnCbufferParent [⟨"A", 0, .intLiteral 0, 10⟩, ⟨"B", 1, .intLiteral 7, 20⟩] ==
      some (Scalar.int32, some (Const.int32 0), some (Const.int32 7), some [Sym.other 7, Sym.enumValue 0],
        some [Sym.enumValue 1], some [Sym.enumValue 0])) = true := by decide

end EndEnum

/-! ## The usage fixpoint on CYCLIC tables (gap round 5: seeded mutant C07-6)

`GlobalUsageAnalysis::recurse` walks `self.0.keys()` (hash order) and, per key, its `required` set (hash order).  The
C02 model takes both orders as explicit lists; `C02.closure_order_independent` needs `WF` only (every mentioned symbol
has an entry, sets duplicate free) - NO acyclicity.  This section makes that explicit: the statement for every table,
a table with a call cycle that satisfies the hypotheses, the tie of the loop's text, and the seeded single-pass
memoising DFS proved order DEPENDENT on a table with a 2-cycle. -/
section UsageCycles
open RsslVerif.Model.Usage RsslVerif.Spec.Usage RsslVerif.Lemmas.Usage RsslVerif.Model.MemoDfs

/-- tie: the text of `recurse` in the tree under check is the sweep-until-unmodified loop the C02 model transcribes
    (keys snapshot, `loop { modified = false; for key in &keys {..} if !modified { break } }`, start from the current
    set, union of the members' sets, store when grown).  A single-pass / memoising / recursive rewrite fails here. -/
theorem usage_recurse_shape_as_modelled :
    RsslVerif.Gen.UsageTables.recurseShape = ⟨true, true, true, true, true⟩ := by decide

/-- **The usage fixpoint is total and order independent on EVERY well-formed table, cyclic or not**: for any two
    iteration orders of the key set the loop ends without a panic and both results hold the same sets.
    (`C02.recurse_terminates` + `C02.closure_order_independent`; the only hypothesis on the table is `WF`.) -/
theorem usage_fixpoint_total_and_order_independent {t₀ : Table} (hwf : WF t₀) {keys₁ keys₂ : List Sym}
    (hk₁ : ∀ k, k ∈ keys₁ ↔ k ∈ keysOf t₀) (hk₂ : ∀ k, k ∈ keys₂ ↔ k ∈ keysOf t₀) :
    ∃ t₁ t₂, recurse keys₁ t₀ = .ok (some t₁) ∧ recurse keys₂ t₀ = .ok (some t₂) ∧
      ∀ f g, g ∈ val t₁ f ↔ g ∈ val t₂ f := by
  obtain ⟨t₁, h₁⟩ := RsslVerif.Thm.C02.recurse_terminates hwf (keys := keys₁) (fun k hk => (hk₁ k).1 hk)
  obtain ⟨t₂, h₂⟩ := RsslVerif.Thm.C02.recurse_terminates hwf (keys := keys₂) (fun k hk => (hk₂ k).1 hk)
  exact ⟨t₁, t₂, h₁, h₂, fun f g => RsslVerif.Thm.C02.closure_order_independent hwf hk₁ hk₂ h₁ h₂ f g⟩

/-- `walk_a` (fn 0) calls `walk_b` (fn 1) and reads global 0; `walk_b` calls `walk_a` and reads global 1 -/
def cycle2 : Table :=
  [(.fn 0, [.fn 1, .glob 0]), (.fn 1, [.fn 0, .glob 1]), (.glob 0, []), (.glob 1, [])]

/-- Non-vacuity of the two theorems above ON A CALL CYCLE: the 2-cycle table is well formed, `walk_a` and `walk_b`
    mention each other, every two key orders give the same sets, and (concretely, two opposite orders) both members
    end with both globals - the global of the other member is reached only through the cycle. -/
theorem usage_fixpoint_order_independent_on_cycle :
    WF cycle2 ∧ Mentions cycle2 (.fn 0) (.fn 1) ∧ Mentions cycle2 (.fn 1) (.fn 0) ∧
    (∀ keys₁ keys₂ : List Sym, (∀ k, k ∈ keys₁ ↔ k ∈ keysOf cycle2) → (∀ k, k ∈ keys₂ ↔ k ∈ keysOf cycle2) →
      ∃ t₁ t₂, recurse keys₁ cycle2 = .ok (some t₁) ∧ recurse keys₂ cycle2 = .ok (some t₂) ∧
        ∀ f g, g ∈ val t₁ f ↔ g ∈ val t₂ f) ∧
    (∃ t₁ t₂, recurse [.fn 0, .fn 1, .glob 0, .glob 1] cycle2 = .ok (some t₁) ∧
      recurse [.glob 1, .glob 0, .fn 1, .fn 0] cycle2 = .ok (some t₂) ∧
      Sym.glob 1 ∈ val t₁ (.fn 0) ∧ Sym.glob 0 ∈ val t₁ (.fn 1) ∧
      Sym.glob 1 ∈ val t₂ (.fn 0) ∧ Sym.glob 0 ∈ val t₂ (.fn 1)) := by
  have hwf : WF cycle2 := wf_of_check (by decide)
  have m01 : Mentions cycle2 (.fn 0) (.fn 1) := by unfold Mentions; decide
  have m10 : Mentions cycle2 (.fn 1) (.fn 0) := by unfold Mentions; decide
  refine ⟨hwf, m01, m10, fun keys₁ keys₂ h₁ h₂ => usage_fixpoint_total_and_order_independent hwf h₁ h₂, ?_⟩
  have hk₁ : ∀ k, k ∈ ([.fn 0, .fn 1, .glob 0, .glob 1] : List Sym) ↔ k ∈ keysOf cycle2 :=
    fun k => (show List.Perm _ (keysOf cycle2) by decide).mem_iff
  have hk₂ : ∀ k, k ∈ ([.glob 1, .glob 0, .fn 1, .fn 0] : List Sym) ↔ k ∈ keysOf cycle2 :=
    fun k => (show List.Perm _ (keysOf cycle2) by decide).mem_iff
  obtain ⟨t₁, h₁⟩ := RsslVerif.Thm.C02.recurse_terminates hwf (fun k hk => (hk₁ k).1 hk)
  obtain ⟨t₂, h₂⟩ := RsslVerif.Thm.C02.recurse_terminates hwf (fun k hk => (hk₂ k).1 hk)
  have reach01 : Reach (Mentions cycle2) (.fn 0) (.fn 1) := Reach.single m01
  have reach10 : Reach (Mentions cycle2) (.fn 1) (.fn 0) := Reach.single m10
  refine ⟨t₁, t₂, h₁, h₂, ?_, ?_, ?_, ?_⟩
  · exact (RsslVerif.Thm.C02.close_is_reachability hwf hk₁ h₁ _ _).2 ⟨.fn 1, reach01, by decide⟩
  · exact (RsslVerif.Thm.C02.close_is_reachability hwf hk₁ h₁ _ _).2 ⟨.fn 0, reach10, by decide⟩
  · exact (RsslVerif.Thm.C02.close_is_reachability hwf hk₂ h₂ _ _).2 ⟨.fn 1, reach01, by decide⟩
  · exact (RsslVerif.Thm.C02.close_is_reachability hwf hk₂ h₂ _ _).2 ⟨.fn 0, reach10, by decide⟩

/-- the 2-cycle with one helper: `walk_a` (fn 0) calls `walk_b` (fn 1) and `help` (fn 2); `walk_b` calls `walk_a`
    and reads global 1; `help` reads global 2 -/
def cycle2Helper : Table :=
  [(.fn 0, [.fn 1, .fn 2]), (.fn 1, [.fn 0, .glob 1]), (.fn 2, [.glob 2]), (.glob 1, []), (.glob 2, [])]

/-- **The seeded variant C07-6 (single-pass memoising DFS, `Model/MemoDfs.lean`) is order dependent on a call
    cycle** (negation with witness): on one well-formed table with a 2-cycle, started from `walk_a`, `walk_b` is
    reached while `walk_a` is still being expanded and keeps `walk_a`'s partial set - global 2 (read by the helper of
    `walk_a`) is missing from `walk_b`'s set; started from `walk_b` it is there.  The two key orders are permutations
    of the same key set, and the real loop gives the same (complete) sets for both. -/
theorem memo_dfs_order_dependent_on_cycle :
    ∃ (t : Table) (keys₁ keys₂ : List Sym), WF t ∧ keys₁.Perm keys₂ ∧ (∀ k, k ∈ keys₁ ↔ k ∈ keysOf t) ∧
      Mentions t (.fn 0) (.fn 1) ∧ Mentions t (.fn 1) (.fn 0) ∧
      Sym.glob 2 ∉ val (memoDfs keys₁ t) (.fn 1) ∧ Sym.glob 2 ∈ val (memoDfs keys₂ t) (.fn 1) ∧
      (∃ t₁ t₂, recurse keys₁ t = .ok (some t₁) ∧ recurse keys₂ t = .ok (some t₂) ∧
        (∀ f g, g ∈ val t₁ f ↔ g ∈ val t₂ f) ∧ Sym.glob 2 ∈ val t₁ (.fn 1)) := by
  have hwf : WF cycle2Helper := wf_of_check (by decide)
  have hk₁ : ∀ k, k ∈ ([.fn 0, .fn 1, .fn 2, .glob 1, .glob 2] : List Sym) ↔ k ∈ keysOf cycle2Helper :=
    fun k => (show List.Perm _ (keysOf cycle2Helper) by decide).mem_iff
  have hk₂ : ∀ k, k ∈ ([.fn 1, .fn 0, .fn 2, .glob 1, .glob 2] : List Sym) ↔ k ∈ keysOf cycle2Helper :=
    fun k => (show List.Perm _ (keysOf cycle2Helper) by decide).mem_iff
  obtain ⟨t₁, t₂, h₁, h₂, heq⟩ := usage_fixpoint_total_and_order_independent hwf hk₁ hk₂
  have m01 : Mentions cycle2Helper (.fn 0) (.fn 1) := by unfold Mentions; decide
  have m10 : Mentions cycle2Helper (.fn 1) (.fn 0) := by unfold Mentions; decide
  have m02 : Mentions cycle2Helper (.fn 0) (.fn 2) := by unfold Mentions; decide
  refine ⟨cycle2Helper, [.fn 0, .fn 1, .fn 2, .glob 1, .glob 2], [.fn 1, .fn 0, .fn 2, .glob 1, .glob 2],
    hwf, List.Perm.swap _ _ _, hk₁, m01, m10, by decide, by decide, t₁, t₂, h₁, h₂, heq, ?_⟩
  exact (RsslVerif.Thm.C02.close_is_reachability hwf hk₁ h₁ _ _).2
    ⟨.fn 2, Reach.tail (Reach.single m10) m02, by decide⟩

/-- ... and on the iteration order of a `required` SET as well: the same table with `walk_a`'s set listed as
    {help, walk_b} instead of {walk_b, help} (same keys, every set a permutation), same key order, and `walk_b` is
    complete. -/
theorem memo_dfs_set_order_dependent_on_cycle :
    let keys : List Sym := [.fn 0, .fn 1, .fn 2, .glob 1, .glob 2]
    let t' : Table := [(.fn 0, [.fn 2, .fn 1]), (.fn 1, [.fn 0, .glob 1]), (.fn 2, [.glob 2]), (.glob 1, []), (.glob 2, [])]
    (keysOf t' = keysOf cycle2Helper ∧ ∀ p ∈ t'.zip cycle2Helper, p.1.2.Perm p.2.2) ∧
    Sym.glob 2 ∉ val (memoDfs keys cycle2Helper) (.fn 1) ∧ Sym.glob 2 ∈ val (memoDfs keys t') (.fn 1) := by
  decide

/-! Non-vacuity of the negative model: on an ACYCLIC table the memoising DFS computes what the real loop computes
    (it is the cycle that breaks it). -/
example : (∀ f ∈ ([.fn 0, .fn 1, .glob 0] : List Sym),
    val (memoDfs [.fn 0, .fn 1, .glob 0] [(.fn 0, [.fn 1]), (.fn 1, [.glob 0]), (.glob 0, [])]) f =
    val (memoDfs [.glob 0, .fn 1, .fn 0] [(.fn 0, [.fn 1]), (.fn 1, [.glob 0]), (.glob 0, [])]) f) ∧
    Sym.glob 0 ∈ val (memoDfs [.fn 0, .fn 1, .glob 0] [(.fn 0, [.fn 1]), (.fn 1, [.glob 0]), (.glob 0, [])]) (.fn 0) := by
  decide

end UsageCycles

/-! ## Several KINDS of implicit parameters in one function (coverage pass 2, stream `wave:<seed>`)

`analyse_globals` pushes one `ImplicitFunctionParameter` per symbol of the closed usage set: `Global(id)` for a
global, `ThreadIndexInSimdgroup` / `ThreadsPerSimdgroup` / `MeshOutput` / `PayloadOutput` + `MeshGridProperties` for the
lane and mesh intrinsics (regenerated `Gen.UsageTables.intrinsicImplicits`), then `required_globals.sort()`.  The C02
model (`implicitsOfSet`, `sortImplicit`) has all kinds; the theorems below state order independence for sets that MIX
the kinds and transcribe the self-mutation "order the globals only" as a negative example. -/
section ImplicitKinds
open RsslVerif.Model.Usage RsslVerif.Gen.UsageTables

/-- two lane intrinsics, the mesh intrinsic, one user function and two non-constant globals -/
def kindsProgram : Program :=
  { globals := [{ name := "g_ro", storage := .Extern, isConst := false, staticSampler := false, isObject := true },
                { name := "s_acc", storage := .Static, isConst := false, staticSampler := false, isObject := false }],
    funcs := [{ name := "both", params := [.in_], items := [] },
              { name := "WaveGetLaneIndex", params := [], items := [], intrinsic := some "WaveGetLaneIndex" },
              { name := "WaveGetLaneCount", params := [], items := [], intrinsic := some "WaveGetLaneCount" },
              { name := "SetMeshOutputCounts", params := [.in_, .in_], items := [], intrinsic := some "SetMeshOutputCounts" }] }

/-- **For EVERY program and every two iteration orders of a function's closed usage set** (whatever mixture of
    globals, lane intrinsics, mesh intrinsics, user functions and constant buffers it holds) the implicit parameter
    list is the same: both walks succeed or both hit the same kind of failure, and the sorted lists are equal. -/
theorem required_kinds_order_independent (p : Program) {ss₁ ss₂ : List Sym} (h : ss₁.Perm ss₂)
    {l₁ l₂ : List Implicit} (h₁ : implicitsOfSet p ss₁ = .ok l₁) (h₂ : implicitsOfSet p ss₂ = .ok l₂) :
    sortImplicit l₁ = sortImplicit l₂ := by
  rw [RsslVerif.Thm.C02.implicitsOfSet_ok h₁, RsslVerif.Thm.C02.implicitsOfSet_ok h₂]
  exact RsslVerif.Thm.C02.required_order_independent (h.flatMap_right _)

/-- non-vacuity on a set that mixes all kinds: with the REGENERATED variant order and intrinsic table, two opposite
    walks of {SetMeshOutputCounts, s_acc, WaveGetLaneCount, g_ro, WaveGetLaneIndex, both} give
    `[ThreadIndexInSimdgroup, ThreadsPerSimdgroup, MeshOutput, Global 0, Global 1]` -/
theorem required_kinds_instance :
    let ss₁ : List Sym := [.fn 3, .glob 1, .fn 2, .glob 0, .fn 1, .fn 0]
    let ss₂ : List Sym := [.fn 0, .fn 1, .glob 0, .fn 2, .glob 1, .fn 3]
    ss₁.Perm ss₂ ∧
    (implicitsOfSet kindsProgram ss₁).toOption.map sortImplicit =
      some [⟨variantIndex "ThreadIndexInSimdgroup", 0⟩, ⟨variantIndex "ThreadsPerSimdgroup", 0⟩,
            ⟨variantIndex "MeshOutput", 0⟩, ⟨globalVariant, 0⟩, ⟨globalVariant, 1⟩] ∧
    (implicitsOfSet kindsProgram ss₂).toOption.map sortImplicit =
      (implicitsOfSet kindsProgram ss₁).toOption.map sortImplicit ∧
    (implicitsOfSet kindsProgram ss₁).toOption ≠ (implicitsOfSet kindsProgram ss₂).toOption := by
  decide

/-- the self-mutation of this round: the built-in kinds keep the order of the walk, only the globals are sorted -/
def sortGlobalsOnly (l : List Implicit) : List Implicit :=
  l.filter (fun i => i.variant != globalVariant) ++ sortImplicit (l.filter (fun i => i.variant == globalVariant))

/-- (negation with witness) "sort the globals only" IS order dependent as soon as one function reaches both lane
    intrinsics - the input class no stream produced before `wave:` - while it agrees with the real `sort()` on every
    list that holds globals only (`sortGlobalsOnly_eq_on_globals`), which is why the older streams could not see it -/
theorem globals_only_sort_order_dependent :
    let ss₁ : List Sym := [.fn 1, .glob 1, .fn 2, .glob 0]
    let ss₂ : List Sym := [.glob 0, .fn 2, .glob 1, .fn 1]
    ss₁.Perm ss₂ ∧
    (implicitsOfSet kindsProgram ss₁).toOption.map sortGlobalsOnly ≠
      (implicitsOfSet kindsProgram ss₂).toOption.map sortGlobalsOnly ∧
    (implicitsOfSet kindsProgram ss₁).toOption.map sortImplicit =
      (implicitsOfSet kindsProgram ss₂).toOption.map sortImplicit := by
  decide

theorem sortGlobalsOnly_eq_on_globals (l : List Implicit) (h : ∀ i ∈ l, i.variant = globalVariant) :
    sortGlobalsOnly l = sortImplicit l := by
  have h1 : l.filter (fun i => i.variant != globalVariant) = [] := by
    apply List.filter_eq_nil_iff.2
    intro i hi
    simp [h i hi]
  have h2 : l.filter (fun i => i.variant == globalVariant) = l := by
    apply List.filter_eq_self.2
    intro i hi
    simp [h i hi]
  simp [sortGlobalsOnly, h1, h2]

end ImplicitKinds

/-! Non-vacuity: a check-only loop with two failing elements that report the same constant. -/
example : firstFailure (fun n : Nat => if n > 2 then some "duplicate" else none) [1, 5, 2, 7] =
    firstFailure (fun n : Nat => if n > 2 then some "duplicate" else none) [7, 2, 1, 5] :=
  firstFailure_perm_invariant _ (by decide) (by
    intro a _ b _ e₁ e₂ h₁ h₂
    split at h₁ <;> split at h₂ <;> simp_all)

/-! Non-vacuity: two different iteration orders of one set, one result. -/
example : collectSort (fun a b => decide (a ≤ b)) [3, 1, 2] = collectSort (fun a b => decide (a ≤ b)) [2, 3, 1] :=
  sortBy_key_perm_invariant (fun x => x) (by decide) (fun _ _ _ _ h => h)
example : ([3, 1, 2] : List Nat).Perm [2, 3, 1] := by decide

end RsslVerif.Thm.C07

#!/usr/bin/env python3
"""Regenerate MANIFEST.json from the checks/ directory (the single source of truth for what is claimed)."""
import importlib
import json
import os
import sys

ROOT = os.path.dirname(os.path.dirname(os.path.abspath(__file__)))
sys.path.insert(0, ROOT)
sys.path.insert(0, os.path.join(ROOT, "tools"))

props = [json.loads(l) for l in open(os.path.join(ROOT, "properties.jsonl"))]
checks, na = [], []
for p in props:
    pid = p["id"]
    try:
        mod = importlib.import_module(f"checks.{pid.lower()}")
    except ModuleNotFoundError:
        na.append({"property_id": pid, "reason": "check not built yet (planned: see DESIGN.md section 6)"})
        continue
    spec = mod.SPEC
    if spec.get("not_applicable"):
        na.append({"property_id": pid, "reason": spec["not_applicable"]})
        continue
    checks.append({
        "property_id": pid,
        "quick_cmd": f"./check {pid} quick",
        "thorough_cmd": f"./check {pid} thorough",
        "evidence_file": f"evidence/{pid}.json",
        "replay_cmd_template": f"./check {pid} replay {{path}}",
        "engine": "lean4-proof+correspondence",
        "level_claimed": {
            "category": "proof",
            "text": spec.get("level_text", ""),
            "design_ref": f"DESIGN.md section 6 ({pid}: design), sections 9.5-9.6 (as built), notes/{pid}.md (theorem table)",
        },
        "level_note": spec.get("level_note", "; ".join(spec.get("trusted_base", []))),
        "technique": spec.get("technique", "Lean 4 theorems over a model tied to the source by a regenerated-table translator "
                                           "and a differential correspondence run"),
    })
manifest = {
    "version": 1,
    "setup_cmd": "./setup.sh",
    "hooks": {
        "guard": "--cfg trark_rssl_verif",
        "enable": "harness/.cargo/config.toml sets rustflags = [\"--cfg\", \"trark_rssl_verif\"] for the harness build "
                  "(path dependencies on /repo's crates, target dir /verif/build/target)",
        "baseline_off_cmd": "cd /repo && cargo test --workspace --no-fail-fast --offline",
        "source_commits": json.load(open(os.path.join(ROOT, "hooks.json"))) if os.path.exists(os.path.join(ROOT, "hooks.json")) else [],
        "add_only": True,
    },
    "engines": [
        {"name": "lean4-proof+correspondence", "path": "lean/ harness/ tools/ check",
         "serves_properties": [c["property_id"] for c in checks],
         "kind_free_text": "Lean 4 model + kernel-checked theorems (lake project lean/), Rust-source table translator "
                           "(tools/translate.py), Rust differential harness (harness/), python driver (check, tools/vlib.py)"},
    ],
    "checks": checks,
    "not_applicable": na,
    "notes": "Technique: machine-checked proof in Lean 4. See DESIGN.md. known_findings.jsonl lists recorded/fixed defects.",
}
json.dump(manifest, open(os.path.join(ROOT, "MANIFEST.json"), "w"), indent=1)
print(f"{len(checks)} checks, {len(na)} not claimed")

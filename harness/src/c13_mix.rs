//! C13, operators on operands of MIXED kinds, judged at the source level.
//!
//! The other source-level streams judge the value of the IR tree the type checker produced, so the conversions
//! the type checker inserts (the common operand type `parse_expr_binop` / `parse_expr_unaryop` / `parse_expr_ternary`
//! choose) are taken on trust there. Here the *source* expression is the input: a small tree over atoms whose kind
//! and value are known by construction, rendered to text, type checked and folded by the real compiler, and judged
//! by a reference evaluator that applies HLSL's usual arithmetic conversions itself:
//!   * `bool` is promoted to `int`, an enum takes part through its underlying type (`int` / `uint`), except that an
//!     operator on two operands of one enum type works on that enum;
//!   * the common type is the later of `untyped int literal < int < uint < untyped float literal < half < float <
//!     double`; both operands are converted to it (cast_ref), then the same-kind reference operator (op_ref) applies;
//!   * `&&`, `||`, `!` convert to `bool`; `<< >> & | ^ ~` refuse floating point operands; `?:` converts the chosen arm
//!     to the common type of the arms (`bool` stays `bool` when both arms are).
//!
//! request : C13.mix \t <source tree> [\t <IR the type checker produced> [\t kinds:<BinOp>:<T left>:<T right>]]
//!   tree  : (a <atom name>) | (u <op> tree) | (b <op> tree tree) | (t tree tree tree)
//! observe : C | notconst | reject | panic:<message>, followed by ` ct:<T>` when the request has a `kinds:` field
//!           (the type both operands of the top-level operator were converted to, read from the IR)
use super::*;

/// (name, source text, value). Kinds: bool, untyped int literal, int, uint, float, half, double, untyped float literal,
/// int-backed enum E0, uint-backed enum E1, int-backed enum NS::EN; literals, casts, `static const` and enumerators.
/// Values are chosen so that a wrong common type changes the result (2, 3, 5, -1, 2^31, 2^32-1, 0.5).
pub const ATOMS: &[(&str, &str, &str)] = &[
    ("true", "true", "b1"), ("false", "false", "b0"), ("gB", "gB", "b1"),
    ("L0", "0", "L0"), ("L1", "1", "L1"), ("L2", "2", "L2"), ("L3", "3", "L3"), ("Lm1", "-1", "L-1"),
    ("Lbig", "0x80000000", "L2147483648"),
    ("i0", "(int)0", "i0"), ("i2", "(int)2", "i2"), ("i3", "(int)3", "i3"), ("im1", "(int)-1", "i-1"), ("gI", "gI", "i7"),
    ("nI", "NS::nI", "i3"),
    ("u0", "0u", "u0"), ("u2", "2u", "u2"), ("u3", "3u", "u3"), ("ubig", "2147483648u", "u2147483648"),
    ("umax", "4294967295u", "u4294967295"), ("gU", "gU", "u2147483648"), ("nU", "NS::nU", "u4"),
    ("f05", "0.5f", "f3f000000"), ("f2", "2.0f", "f40000000"), ("f3", "3.0f", "f40400000"), ("fm1", "-1.0f", "fbf800000"),
    ("h05", "0.5h", "h3f000000"), ("h2", "2.0h", "h40000000"),
    ("d05", "0.5L", "d3fe0000000000000"), ("d2", "2.0L", "d4000000000000000"),
    ("fl05", "0.5", "fl3fe0000000000000"), ("fl2", "2.0", "fl4000000000000000"), ("fl3", "3.0", "fl4008000000000000"),
    ("E0A", "E0A", "E0:i0"), ("E0B", "E0B", "E0:i1"), ("E0C", "E0C", "E0:i5"), ("E0D", "E0D", "E0:i-1"),
    ("E0two", "(E0)2", "E0:i2"), ("E0three", "(E0)3", "E0:i3"),
    ("E1A", "E1A", "E1:u1"), ("E1B", "E1B", "E1:u32"), ("E1M", "E1M", "E1:u4294967295"), ("E1two", "(E1)2u", "E1:u2"),
    ("EN1", "NS::EN1", "E2:i1"), ("EN2", "NS::EN2", "E2:i2"),
];

pub const KIND_NAMES: &[&str] = &["bool", "lit", "int", "uint", "float", "half", "double", "flit", "E0", "E1", "EN"];

pub const BIN: &[(&str, &str)] = &[
    ("+", "Add"), ("-", "Subtract"), ("*", "Multiply"), ("/", "Divide"), ("%", "Modulus"), ("<<", "LeftShift"),
    (">>", "RightShift"), ("&", "BitwiseAnd"), ("|", "BitwiseOr"), ("^", "BitwiseXor"), ("&&", "BooleanAnd"),
    ("||", "BooleanOr"), ("<", "LessThan"), ("<=", "LessEqual"), (">", "GreaterThan"), (">=", "GreaterEqual"),
    ("==", "Equality"), ("!=", "Inequality"),
];
pub const UN: &[(&str, &str)] = &[("-", "Minus"), ("+", "Plus"), ("~", "BitwiseNot"), ("!", "LogicalNot")];

#[derive(Clone, Debug, PartialEq)]
pub enum S {
    A(String),
    U(String, Box<S>),
    B(String, Box<S>, Box<S>),
    T(Box<S>, Box<S>, Box<S>),
}

pub fn show_s(s: &S) -> String {
    match s {
        S::A(n) => format!("(a {})", n),
        S::U(o, a) => format!("(u {} {})", o, show_s(a)),
        S::B(o, a, b) => format!("(b {} {} {})", o, show_s(a), show_s(b)),
        S::T(c, a, b) => format!("(t {} {} {})", show_s(c), show_s(a), show_s(b)),
    }
}

fn parse_s_at(t: &[String], i: &mut usize) -> Option<S> {
    if t.get(*i)? != "(" {
        return None;
    }
    *i += 1;
    let head = t.get(*i)?.clone();
    *i += 1;
    let r = match head.as_str() {
        "a" => {
            let n = t.get(*i)?.clone();
            *i += 1;
            atom(&n)?;
            S::A(n)
        }
        "u" => {
            let o = t.get(*i)?.clone();
            *i += 1;
            UN.iter().find(|u| u.0 == o)?;
            S::U(o, Box::new(parse_s_at(t, i)?))
        }
        "b" => {
            let o = t.get(*i)?.clone();
            *i += 1;
            BIN.iter().find(|u| u.0 == o)?;
            let a = parse_s_at(t, i)?;
            let b = parse_s_at(t, i)?;
            S::B(o, Box::new(a), Box::new(b))
        }
        "t" => {
            let c = parse_s_at(t, i)?;
            let a = parse_s_at(t, i)?;
            let b = parse_s_at(t, i)?;
            S::T(Box::new(c), Box::new(a), Box::new(b))
        }
        _ => return None,
    };
    if t.get(*i)? != ")" {
        return None;
    }
    *i += 1;
    Some(r)
}

pub fn parse_s(s: &str) -> Option<S> {
    let t = tokens(s);
    let mut i = 0;
    let r = parse_s_at(&t, &mut i)?;
    if i == t.len() { Some(r) } else { None }
}

fn atom(name: &str) -> Option<(&'static str, K)> {
    ATOMS.iter().find(|a| a.0 == name).and_then(|a| parse_k(a.2).map(|k| (a.1, k)))
}

pub fn render(s: &S) -> String {
    match s {
        S::A(n) => atom(n).map(|a| a.0.to_string()).unwrap_or_else(|| "?".into()),
        S::U(o, a) => format!("{}({})", o, render(a)),
        S::B(o, a, b) => format!("({}) {} ({})", render(a), o, render(b)),
        S::T(c, a, b) => format!("({}) ? ({}) : ({})", render(c), render(a), render(b)),
    }
}

// ------------------------------------------------------------------------------------------
// reference: HLSL's usual arithmetic conversions, then the same-kind reference operators
// ------------------------------------------------------------------------------------------
#[derive(Clone, Copy, Debug, PartialEq)]
pub enum Kd {
    Bool,
    Lit,
    Int,
    UInt,
    FLit,
    Half,
    Float,
    Double,
    Enum(u32, bool),
}

pub fn kd(k: &K) -> Option<Kd> {
    Some(match k {
        K::Bool(_) => Kd::Bool,
        K::Lit(_) => Kd::Lit,
        K::I32(_) => Kd::Int,
        K::U32(_) => Kd::UInt,
        K::FLit(_) => Kd::FLit,
        K::F16(_) => Kd::Half,
        K::F32(_) => Kd::Float,
        K::F64(_) => Kd::Double,
        K::Enum(id, inner) => match **inner {
            K::I32(_) => Kd::Enum(*id, false),
            K::U32(_) => Kd::Enum(*id, true),
            _ => return None,
        },
        _ => return None,
    })
}

pub fn t_of_kd(k: Kd) -> T {
    match k {
        Kd::Bool => T::Bool,
        Kd::Lit => T::Lit,
        Kd::Int => T::Int,
        Kd::UInt => T::UInt,
        Kd::FLit => T::FLit,
        Kd::Half => T::Half,
        Kd::Float => T::Float,
        Kd::Double => T::Double,
        Kd::Enum(id, u) => T::Enum(id, u),
    }
}

/// integer promotion: `bool` becomes `int`, an enum its underlying type
fn promote(k: Kd) -> Kd {
    match k {
        Kd::Bool => Kd::Int,
        Kd::Enum(_, true) => Kd::UInt,
        Kd::Enum(_, false) => Kd::Int,
        o => o,
    }
}

fn conv_rank(k: Kd) -> u32 {
    match k {
        Kd::Lit => 0,
        Kd::Int => 1,
        Kd::UInt => 2,
        Kd::FLit => 3,
        Kd::Half => 4,
        Kd::Float => 5,
        Kd::Double => 6,
        Kd::Bool | Kd::Enum(_, _) => unreachable!("promoted away"),
    }
}

/// the type both operands of an arithmetic / comparison / bit operator are converted to
pub fn usual(a: Kd, b: Kd, q: bool) -> Kd {
    // `q`: the defect repaired by fix 80dd7f9 (`fixed` record in known_findings.jsonl) — an enum whose underlying type is
    // `uint` was converted to `int` when the other operand is `bool` or `int`. Used only to *name* a failure (so that a
    // return of the defect is reported under the key of that record), never to accept one
    if q {
        match (a, b) {
            (Kd::Enum(_, true), Kd::Bool | Kd::Int) | (Kd::Bool | Kd::Int, Kd::Enum(_, true)) => return Kd::Int,
            _ => {}
        }
    }
    if let (Kd::Enum(i, _), Kd::Enum(j, _)) = (a, b) {
        if i == j {
            return a;
        }
    }
    let (pa, pb) = (promote(a), promote(b));
    if conv_rank(pa) >= conv_rank(pb) { pa } else { pb }
}

#[derive(Clone, Debug, PartialEq)]
pub enum R {
    Val(K),
    NotConst,
    /// the program is ill-typed in HLSL
    Reject,
    Unspec(&'static str),
}

fn of_want(w: Want) -> R {
    match w {
        Want::Val(k) => R::Val(k),
        Want::ValOrNotConst(_) => R::Unspec("value or not constant"),
        Want::NotConst => R::NotConst,
        Want::Unspecified(s) => R::Unspec(s),
    }
}

/// conversion of a value to a kind (the HLSL conversions of `cast_ref`; the untyped kinds are reached only from
/// themselves or, for the float literal, from an integer literal)
fn convert(to: Kd, v: &K) -> R {
    if kd(v) == Some(to) {
        return R::Val(v.clone());
    }
    match (to, v) {
        (Kd::FLit, K::Lit(x)) => R::Val(K::FLit((*x as f64).to_bits())),
        (Kd::Lit, _) | (Kd::FLit, _) => R::Unspec("conversion to an untyped literal kind"),
        _ => of_want(cast_ref(&t_of_kd(to), v)),
    }
}

fn is_float(k: Kd) -> bool {
    matches!(k, Kd::FLit | Kd::Half | Kd::Float | Kd::Double)
}

fn bin_ref(sym: &str, a: &K, b: &K, q: bool) -> R {
    let name = BIN.iter().find(|x| x.0 == sym).unwrap().1;
    let (ka, kb) = match (kd(a), kd(b)) {
        (Some(x), Some(y)) => (x, y),
        _ => return R::Unspec("operand kind outside the property"),
    };
    let target = match sym {
        "&&" | "||" => Kd::Bool,
        "<<" | ">>" | "&" | "|" | "^" => {
            if is_float(ka) || is_float(kb) {
                return R::Reject;
            }
            if (sym == "<<" || sym == ">>") && promote(ka) != promote(kb) && promote(ka) != Kd::Lit && promote(kb) != Kd::Lit {
                // C gives a shift the type of its promoted left operand, HLSL compilers differ: not judged
                return R::Unspec("shift with operands of different signedness");
            }
            usual(ka, kb, q)
        }
        _ => usual(ka, kb, q),
    };
    let ca = match convert(target, a) {
        R::Val(k) => k,
        o => return o,
    };
    let cb = match convert(target, b) {
        R::Val(k) => k,
        o => return o,
    };
    of_want(op_ref(name, &[ca, cb]))
}

fn un_ref(sym: &str, a: &K) -> R {
    let ka = match kd(a) {
        Some(k) => k,
        None => return R::Unspec("operand kind outside the property"),
    };
    match sym {
        // the value is unchanged (whether `+true` is typed bool or int does not change it)
        "+" => R::Val(a.clone()),
        "!" => match convert(Kd::Bool, a) {
            R::Val(k) => of_want(op_ref("LogicalNot", &[k])),
            o => o,
        },
        "~" | "-" => {
            if sym == "~" && is_float(ka) {
                return R::Reject;
            }
            let v = if ka == Kd::Bool {
                match convert(Kd::Int, a) {
                    R::Val(k) => k,
                    o => return o,
                }
            } else {
                a.clone()
            };
            of_want(op_ref(if sym == "~" { "BitwiseNot" } else { "Minus" }, &[v]))
        }
        _ => R::Unspec("unknown unary operator"),
    }
}

pub fn reference_s(s: &S) -> R {
    reference_q(s, false)
}

pub fn reference_q(s: &S, q: bool) -> R {
    match s {
        S::A(n) => match atom(n) {
            Some((_, k)) => R::Val(k),
            None => R::Unspec("unknown atom"),
        },
        S::U(o, a) => match reference_q(a, q) {
            R::Val(k) => un_ref(o, &k),
            r => r,
        },
        S::B(o, a, b) => {
            let va = match reference_q(a, q) {
                R::Val(k) => k,
                r => return r,
            };
            // `&&` / `||` with a decided left operand do not need the right one; the others do
            let vb = match reference_q(b, q) {
                R::Val(k) => k,
                R::NotConst if o == "&&" || o == "||" => return R::Unspec("short-circuit over an operand without value"),
                r => return r,
            };
            bin_ref(o, &va, &vb, q)
        }
        S::T(c, a, b) => {
            let vc = match reference_q(c, q) {
                R::Val(k) => k,
                r => return r,
            };
            let cond = match convert(Kd::Bool, &vc) {
                R::Val(K::Bool(x)) => x,
                R::Val(_) => return R::Unspec("condition"),
                r => return r,
            };
            let (ra, rb) = (reference_q(a, q), reference_q(b, q));
            let (va, vb) = match (&ra, &rb) {
                (R::Val(x), R::Val(y)) => (x.clone(), y.clone()),
                _ => return R::Unspec("an arm without definite value"),
            };
            let (ka, kb) = match (kd(&va), kd(&vb)) {
                (Some(x), Some(y)) => (x, y),
                _ => return R::Unspec("operand kind outside the property"),
            };
            let target = if ka == kb { ka } else { usual(ka, kb, q) };
            convert(target, if cond { &va } else { &vb })
        }
    }
}

fn strip(k: &K) -> K {
    match k {
        K::Enum(_, inner) => (**inner).clone(),
        o => o.clone(),
    }
}

/// kind an operand of the top-level operator has after the conversions the type checker inserted
fn operand_t(x: &X) -> Option<T> {
    let of_k = |k: &K| kd(k).map(t_of_kd);
    match x {
        X::Cast(t, _) => Some(*t),
        X::Lit(k) | X::Var(Some(k)) | X::Global(Some(k)) => of_k(k),
        X::EnumVal(id, k) => Some(T::Enum(*id, matches!(k, K::U32(_)))),
        _ => None,
    }
}

pub fn run_mix(w: &World, sx: &str, out: &mut Out, hist: &mut Hist) {
    let s = match parse_s(sx) {
        Some(s) => s,
        None => {
            out.case(&format!("C13.mix\t{}", sx), "bad-request", "SKIP:unparsable request");
            return;
        }
    };
    let src = render(&s);
    let want = reference_s(&s);
    let base = format!("C13.mix\t{}", show_s(&s));
    hist.add(match &s {
        S::A(_) => "mix:atom",
        S::U(_, _) => "mix:unary",
        S::B(_, _, _) => "mix:binary",
        S::T(_, _, _) => "mix:ternary",
    });
    hist.add(match &want {
        R::Val(_) => "mix-oracle:value",
        R::NotConst => "mix-oracle:must-be-notconst",
        R::Reject => "mix-oracle:ill-typed",
        R::Unspec(_) => "mix-oracle:unspecified",
    });
    let (m, e) = match w.typed(&src) {
        Ok(x) => x,
        Err(e) if e.starts_with("panic:") => {
            out.case(&base, &format!("panic:{}", panic_msg(&e[6..])), &format!("FAIL:panic {} (source: {})", &e[6..], src));
            return;
        }
        Err(_) => {
            // a refusal is never a wrong constant (two different enums, float with `&`; until fix 80dd7f9 also an enum
            // with an untyped literal, which is now done in the underlying type and judged like every other value)
            hist.add(if want == R::Reject { "mix:rejected-ill-typed" } else { "mix:rejected-by-front-end" });
            out.case(&base, "reject", "ok");
            return;
        }
    };
    let x = x_of_expr(&m, &e);
    let obs = eval_real(&m, &e);
    // the common operand type the type checker chose, for a top-level binary operator on two atoms
    let mut kinds = None;
    let mut ct = None;
    if let (S::B(o, a, b), X::Op(_, args)) = (&s, &x) {
        if let (S::A(na), S::A(nb), [xa, xb]) = (&**a, &**b, args.as_slice()) {
            let ks = (atom(na).and_then(|a| kd(&a.1)), atom(nb).and_then(|a| kd(&a.1)));
            if let ((Some(ka), Some(kb)), Some(ta), Some(tb)) = (ks, operand_t(xa), operand_t(xb)) {
                if ta == tb {
                    let name = BIN.iter().find(|x| x.0 == o).unwrap().1;
                    kinds = Some(format!("kinds:{}:{}:{}", name, show_t(&t_of_kd(ka)), show_t(&t_of_kd(kb))));
                    ct = Some(show_t(&ta));
                }
            }
        }
    }
    let mut req = format!("{}\t{}", base, show_x(&x));
    if let Some(k) = &kinds {
        req.push('\t');
        req.push_str(k);
    }
    let tree_want = reference(&x);
    let verdict = match (&obs, &want) {
        (Obs::Panic(p), _) => format!("FAIL:panic {} (source: {})", p, src),
        (_, R::Unspec(_)) | (_, R::Reject) => "ok".to_string(),
        (Obs::Val(k), R::Val(wv)) => {
            if strip(k) == strip(wv) {
                "ok".into()
            } else {
                let tag = match reference_q(&s, true) {
                    R::Val(qv) if strip(&qv) == strip(k) => "[uint-backed enum converted to int] ",
                    _ => "",
                };
                format!(
                    "FAIL:{}`{}` folds to {} but HLSL's usual arithmetic conversions give {} (the type checker built {})",
                    tag, src, show_k(k), show_k(wv), show_x(&x)
                )
            }
        }
        (Obs::NotConst, R::NotConst) => "ok".into(),
        (Obs::NotConst, R::Val(wv)) => match tree_want {
            // a form the evaluator is not required to fold (conversion to a literal kind, float arithmetic, `?:`)
            Want::Unspecified(_) | Want::NotConst | Want::ValOrNotConst(_) => "ok".into(),
            Want::Val(_) => format!("FAIL:`{}` is not constant, expected {}", src, show_k(wv)),
        },
        (Obs::Val(k), R::NotConst) => {
            format!("FAIL:`{}` folds to {} where the expression must be reported not constant", src, show_k(k))
        }
    };
    hist.add(match &obs {
        Obs::Val(_) => "mix:value",
        Obs::NotConst => "mix:notconst",
        Obs::Panic(_) => "mix:panic",
    });
    let mut shown = match &obs {
        Obs::Panic(p) => format!("panic:{}", panic_msg(p)),
        o => show_obs(o),
    };
    if let Some(c) = ct {
        shown.push_str(&format!(" ct:{}", c));
    }
    out.case(&req, &shown, &verdict);
}

fn atoms_of(kind: &str) -> Vec<&'static str> {
    ATOMS
        .iter()
        .filter(|a| {
            let k = parse_k(a.2).and_then(|k| kd(&k));
            match (kind, k) {
                ("bool", Some(Kd::Bool)) | ("lit", Some(Kd::Lit)) | ("int", Some(Kd::Int)) | ("uint", Some(Kd::UInt))
                | ("float", Some(Kd::Float)) | ("half", Some(Kd::Half)) | ("double", Some(Kd::Double))
                | ("flit", Some(Kd::FLit)) | ("E0", Some(Kd::Enum(0, _))) | ("E1", Some(Kd::Enum(1, _)))
                | ("EN", Some(Kd::Enum(2, _))) => true,
                _ => false,
            }
        })
        .map(|a| a.0)
        .collect()
}

fn gen_tree(d: u32, rng: &mut Rng) -> S {
    if d == 0 {
        let kind = *rng.pick(KIND_NAMES);
        return S::A(rng.pick(&atoms_of(kind)).to_string());
    }
    match rng.below(10) {
        0 | 1 => S::U(rng.pick(UN).0.to_string(), Box::new(gen_tree(d - 1, rng))),
        2 => S::T(Box::new(gen_tree(d - 1, rng)), Box::new(gen_tree(d - 1, rng)), Box::new(gen_tree(d - 1, rng))),
        _ => S::B(rng.pick(BIN).0.to_string(), Box::new(gen_tree(d - 1, rng)), Box::new(gen_tree(d - 1, rng))),
    }
}

/// (a) every binary operator on every ordered pair of kinds (both orders), atoms chosen per pair — quick: three
/// seeded pairs of atoms, thorough: all; every comparison on every pair of atoms of the kinds whose promotion matters
/// (bool, enum, int, uint, literal); (b) every unary operator on every atom; (c) `?:` over every pair of kinds;
/// (d) random trees of depth 2 and 3
pub fn generate(w: &World, rng: &mut Rng, thorough: bool, scale: u64, out: &mut Out, hist: &mut Hist) {
    let a = |n: &str| Box::new(S::A(n.to_string()));
    for (sym, _) in BIN {
        for ka in KIND_NAMES {
            for kb in KIND_NAMES {
                let (xs, ys) = (atoms_of(ka), atoms_of(kb));
                if thorough {
                    for x in &xs {
                        for y in &ys {
                            run_mix(w, &show_s(&S::B(sym.to_string(), a(x), a(y))), out, hist);
                        }
                    }
                } else {
                    for _ in 0..3 {
                        let (x, y) = (*rng.pick(&xs), *rng.pick(&ys));
                        run_mix(w, &show_s(&S::B(sym.to_string(), a(x), a(y))), out, hist);
                    }
                }
            }
        }
    }
    if !thorough {
        let promo = ["bool", "E0", "E1", "EN", "int", "uint"];
        for sym in ["<", "<=", ">", ">=", "==", "!="] {
            for ka in promo {
                for kb in promo {
                    if ka != "bool" && kb != "bool" && !ka.starts_with('E') && !kb.starts_with('E') {
                        continue;
                    }
                    for x in atoms_of(ka) {
                        for y in atoms_of(kb) {
                            if rng.below(2) == 0 {
                                run_mix(w, &show_s(&S::B(sym.to_string(), a(x), a(y))), out, hist);
                            }
                        }
                    }
                }
            }
        }
    }
    for (sym, _) in UN {
        for at in ATOMS {
            run_mix(w, &show_s(&S::U(sym.to_string(), a(at.0))), out, hist);
        }
    }
    for kc in ["bool", "int", "E0", "lit", "float"] {
        for ka in KIND_NAMES {
            for kb in KIND_NAMES {
                let (c, x, y) = (*rng.pick(&atoms_of(kc)), *rng.pick(&atoms_of(ka)), *rng.pick(&atoms_of(kb)));
                run_mix(w, &show_s(&S::T(a(c), a(x), a(y))), out, hist);
            }
        }
    }
    for _ in 0..400 * scale {
        let d = rng.range(2, 3) as u32;
        run_mix(w, &show_s(&gen_tree(d, rng)), out, hist);
    }
}

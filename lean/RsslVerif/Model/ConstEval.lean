import RsslVerif.Gen.EvalTable
import RsslVerif.Model.ConstEvalFloat
/-!
# Model of `typer/src/evaluator.rs` (C13)

`eval` mirrors `evaluate_constexpr`, `applyOp` mirrors `evaluate_operator` and `evalCast` mirrors
`evaluate_cast`.  *How* each arm computes (plain operator that panics on overflow in a debug build,
`wrapping_*`, `checked_*` → `Err`) is not written here: it is looked up in `Gen.EvalTable`, which is
re-extracted from the Rust source on every run.  Outcomes are `ok value`, `notConst` (`Err(())`) and
`panic msg` (every `panic!`, `assert!`, `unreachable!`, slice index and arithmetic overflow check inside
the modelled functions).  `stuck` marks table contents the model has no reading for (never produced with
the pinned source; the driver prints `unsupported`).

Integers are mathematical `Int`s with explicit reduction into the Rust type (`IntTy.wrap`); floats are bit
patterns.  The parts of the IR module an expression refers to (constant value of a variable, value of an
enumerator, underlying type of an enum, size of a type) are inlined in the expression tree.
-/
namespace RsslVerif.Model.ConstEval
open RsslVerif.Gen.EvalTable
open RsslVerif.Model (ConstEvalFloat.Fmt)
namespace F
export RsslVerif.Model.ConstEvalFloat (Fmt f32 f64 FVal decode neg cmp lt le feq neZero toIntSat round ofInt convert one)
end F

/-- `ir::Constant` -/
inductive Constant where
  | bool (b : Bool)
  | intLit (v : Int)
  | int32 (v : Int)
  | uint32 (v : Int)
  | int64 (v : Int)
  | uint64 (v : Int)
  | floatLit (bits : Nat)     -- f64
  | float16 (bits : Nat)      -- stored as f32 by the compiler
  | float32 (bits : Nat)
  | float64 (bits : Nat)
  | string
  | enum (id : Nat) (inner : Constant)
  deriving DecidableEq, Repr, Inhabited

def Constant.kind : Constant → Kind
  | .bool _ => .Bool
  | .intLit _ => .IntLiteral
  | .int32 _ => .Int32
  | .uint32 _ => .UInt32
  | .int64 _ => .Int64
  | .uint64 _ => .UInt64
  | .floatLit _ => .FloatLiteral
  | .float16 _ => .Float16
  | .float32 _ => .Float32
  | .float64 _ => .Float64
  | .string => .String
  | .enum _ _ => .Enum

/-- a Rust integer type -/
structure IntTy where
  signed : Bool
  bits : Nat
  deriving DecidableEq, Repr

def i32 : IntTy := ⟨true, 32⟩
def u32 : IntTy := ⟨false, 32⟩
def i64 : IntTy := ⟨true, 64⟩
def u64 : IntTy := ⟨false, 64⟩
def i128 : IntTy := ⟨true, 128⟩

def IntTy.lo (t : IntTy) : Int := if t.signed then -(2 ^ (t.bits - 1) : Nat) else 0
def IntTy.hi (t : IntTy) : Int := if t.signed then (2 ^ (t.bits - 1) : Nat) - 1 else (2 ^ t.bits : Nat) - 1
def IntTy.inRange (t : IntTy) (z : Int) : Bool := decide (t.lo ≤ z) && decide (z ≤ t.hi)

/-- reduction modulo `2^bits` into the type's range (what `wrapping_*` and `as` between integers do) -/
def IntTy.wrap (t : IntTy) (z : Int) : Int :=
  if t.signed then z.bmod (2 ^ t.bits) else z % (2 ^ t.bits : Nat)

/-- the bit pattern of a value: the residue in `[0, 2^bits)` -/
def IntTy.toBits (t : IntTy) (z : Int) : Nat := (z % (2 ^ t.bits : Nat)).toNat

def intTyOf : Kind → Option IntTy
  | .IntLiteral => some i128
  | .Int32 => some i32
  | .UInt32 => some u32
  | .Int64 => some i64
  | .UInt64 => some u64
  | _ => none

def Constant.intVal? : Constant → Option Int
  | .intLit v | .int32 v | .uint32 v | .int64 v | .uint64 v => some v
  | _ => none

/-- format in which a float constant of this kind is stored -/
def floatFmtOf : Kind → Option F.Fmt
  | .FloatLiteral | .Float64 => some F.f64
  | .Float16 | .Float32 => some F.f32
  | _ => none

def Constant.floatBits? : Constant → Option Nat
  | .floatLit b | .float16 b | .float32 b | .float64 b => some b
  | _ => none

def mkInt : Kind → Int → Option Constant
  | .IntLiteral, z => some (.intLit z)
  | .Int32, z => some (.int32 z)
  | .UInt32, z => some (.uint32 z)
  | .Int64, z => some (.int64 z)
  | .UInt64, z => some (.uint64 z)
  | _, _ => none

def mkFloat : Kind → Nat → Option Constant
  | .FloatLiteral, b => some (.floatLit b)
  | .Float16, b => some (.float16 b)
  | .Float32, b => some (.float32 b)
  | .Float64, b => some (.float64 b)
  | _, _ => none

inductive Err where
  | notConst
  | panic (msg : String)
  | stuck
  deriving DecidableEq, Repr, Inhabited

abbrev Res := Except Err Constant

instance : DecidableEq Res := fun a b =>
  match a, b with
  | .ok x, .ok y => if h : x = y then isTrue (by rw [h]) else isFalse (by intro e; cases e; exact h rfl)
  | .error x, .error y => if h : x = y then isTrue (by rw [h]) else isFalse (by intro e; cases e; exact h rfl)
  | .ok _, .error _ => isFalse (by intro e; cases e)
  | .error _, .ok _ => isFalse (by intro e; cases e)

/-! ## arithmetic in one Rust integer type -/

def overflowMsg : Arith → String
  | .add => "attempt to add with overflow"
  | .sub => "attempt to subtract with overflow"
  | .mul => "attempt to multiply with overflow"
  | .div => "attempt to divide with overflow"
  | .rem => "attempt to calculate the remainder with overflow"
  | .neg => "attempt to negate with overflow"
  | .shl => "attempt to shift left with overflow"
  | .shr => "attempt to shift right with overflow"

/-- deliver an exact result `z` in mode `m` -/
def deliver (t : IntTy) (m : Mode) (a : Arith) (z : Int) : Except Err Int :=
  match m with
  | .wrapping => .ok (t.wrap z)
  | .checked => if t.inRange z then .ok z else .error .notConst
  | .plain => if t.inRange z then .ok z else .error (.panic (overflowMsg a))

/-- the shift amount actually used, by mode: `wrapping_sh*` masks it to the width, `checked_sh*` and the
    plain operator refuse amounts outside `[0, bits)` -/
def shiftAmount (t : IntTy) (m : Mode) (a : Arith) (y : Int) : Except Err Nat :=
  match m with
  | .wrapping => .ok (y % (t.bits : Int)).toNat
  | .checked => if 0 ≤ y ∧ y < t.bits then .ok y.toNat else .error .notConst
  | .plain => if 0 ≤ y ∧ y < t.bits then .ok y.toNat else .error (.panic (overflowMsg a))

/-- a zero divisor: `checked_*` gives `None` (→ `Err`), the other forms panic -/
def zeroDivisor (m : Mode) (msg : String) : Except Err Int :=
  match m with
  | .checked => .error .notConst
  | .wrapping => .error (.panic msg)
  | .plain => .error (.panic msg)

def evalDiv (t : IntTy) (m : Mode) (x y : Int) : Except Err Int :=
  if y = 0 then zeroDivisor m "attempt to divide by zero" else deliver t m .div (x.tdiv y)

/-- `MIN % -1`: the remainder is 0 but the hardware operation overflows -/
def remOverflow (m : Mode) : Except Err Int :=
  match m with
  | .wrapping => .ok 0
  | .checked => .error .notConst
  | .plain => .error (.panic (overflowMsg .rem))

def evalRem (t : IntTy) (m : Mode) (x y : Int) : Except Err Int :=
  if y = 0 then zeroDivisor m "attempt to calculate the remainder with a divisor of zero"
  else if t.signed ∧ x = t.lo ∧ y = -1 then remOverflow m
  else .ok (x.tmod y)

def evalShl (t : IntTy) (m : Mode) (x y : Int) : Except Err Int :=
  match shiftAmount t m .shl y with
  | .error e => .error e
  | .ok n => .ok (t.wrap (x * (2 ^ n : Nat)))

def evalShr (t : IntTy) (m : Mode) (x y : Int) : Except Err Int :=
  match shiftAmount t m .shr y with
  | .error e => .error e
  | .ok n => .ok (x / (2 ^ n : Nat))

/-- `x ∘ y` in type `t`, computed the way mode `m` says -/
def evalArith (t : IntTy) (m : Mode) (a : Arith) (x y : Int) : Except Err Int :=
  match a with
  | .add => deliver t m a (x + y)
  | .sub => deliver t m a (x - y)
  | .mul => deliver t m a (x * y)
  | .neg => deliver t m a (-x)
  | .div => evalDiv t m x y
  | .rem => evalRem t m x y
  | .shl => evalShl t m x y
  | .shr => evalShr t m x y

/-- the literal `<<` arm: amount through `u32::try_from`, shift in mode `m`, then (if `roundTrip`) refuse
    results that lost bits -/
def evalLitShl (m : Mode) (roundTrip : Bool) (x y : Int) : Except Err Int :=
  if ¬ (0 ≤ y ∧ y < (2 ^ 32 : Nat)) then .error .notConst else
  match evalArith i128 m .shl x y with
  | .error e => .error e
  | .ok s =>
    if roundTrip then
      -- `shifted >> shift` with the plain operator: the amount is < 128 here unless `m` is wrapping
      (match evalArith i128 .plain .shr s y with
       | .error e => .error e
       | .ok back => if back ≠ x then .error .notConst else .ok s)
    else .ok s

def evalLitShr (m : Mode) (x y : Int) : Except Err Int :=
  if ¬ (0 ≤ y ∧ y < (2 ^ 32 : Nat)) then .error .notConst else evalArith i128 m .shr x y

/-! ## comparisons and equality of constants -/

def cmpOrd (c : Cmp) (o : Option Ordering) : Bool :=
  match c, o with
  | .lt, some .lt => true
  | .le, some .lt | .le, some .eq => true
  | .gt, some .gt => true
  | .ge, some .gt | .ge, some .eq => true
  | _, _ => false

/-- ordering of two constants of the same kind (`none`: unordered or not comparable) -/
def ordOf : Constant → Constant → Option Ordering
  | .bool a, .bool b => some (compare a.toNat b.toNat)
  | .intLit a, .intLit b | .int32 a, .int32 b | .uint32 a, .uint32 b
  | .int64 a, .int64 b | .uint64 a, .uint64 b => some (compare a b)
  | .floatLit a, .floatLit b | .float64 a, .float64 b => F.cmp (F.decode F.f64 a) (F.decode F.f64 b)
  | .float16 a, .float16 b | .float32 a, .float32 b => F.cmp (F.decode F.f32 a) (F.decode F.f32 b)
  | _, _ => none

/-- derived `PartialEq` of `ir::Constant`: same variant and equal payload, floats by IEEE `==` -/
def constEq : Constant → Constant → Bool
  | .bool a, .bool b => a == b
  | .intLit a, .intLit b | .int32 a, .int32 b | .uint32 a, .uint32 b
  | .int64 a, .int64 b | .uint64 a, .uint64 b => a == b
  | .floatLit a, .floatLit b | .float64 a, .float64 b => F.feq (F.decode F.f64 a) (F.decode F.f64 b)
  | .float16 a, .float16 b | .float32 a, .float32 b => F.feq (F.decode F.f32 a) (F.decode F.f32 b)
  | .string, .string => true
  | .enum i a, .enum j b => i == j && constEq a b
  | _, _ => false

/-! ## one arm of `evaluate_operator` -/

def okInt (rk : Kind) (r : Except Err Int) : Res :=
  match r with
  | .error e => .error e
  | .ok z => match mkInt rk z with | some c => .ok c | none => .error .stuck

def bitOp (t : IntTy) (f : Nat → Nat → Nat) (x y : Int) : Int := t.wrap (f (t.toBits x) (t.toBits y))

/-- apply rule `r` (result constructor `rk`) to operand `a` and, for binary arms, `b` -/
def applyRule (r : Rule) (rk : Kind) (a : Constant) (b : Option Constant) : Res :=
  match r with
  | .notConst => .error .notConst
  | .panic msg => .error (.panic msg)
  | .pass => .ok a
  | .arith m ar zeroGuard withOne =>
    -- the second operand: the literal `1` (increment/decrement), nothing (negation), or `rhs`
    match intTyOf a.kind, a.intVal?,
          (if withOne then some 1 else if ar = .neg then some 0 else b.bind Constant.intVal?) with
    | some t, some x, some y =>
      if zeroGuard && y == 0 then .error .notConst else okInt rk (evalArith t m ar x y)
    | _, _, _ => .error .stuck
  | .litShl m rt =>
    match a, b with
    | .intLit x, some (.intLit y) => okInt rk (evalLitShl m rt x y)
    | _, _ => .error .stuck
  | .litShr m =>
    match a, b with
    | .intLit x, some (.intLit y) => okInt rk (evalLitShr m x y)
    | _, _ => .error .stuck
  | .bitNot =>
    match intTyOf a.kind, a.intVal? with
    | some t, some x => okInt rk (.ok (t.wrap (-x - 1)))
    | _, _ => .error .stuck
  | .bitAnd | .bitOr | .bitXor =>
    match intTyOf a.kind, a.intVal?, b.bind Constant.intVal? with
    | some t, some x, some y =>
      okInt rk (.ok (bitOp t (match r with | .bitAnd => Nat.land | .bitOr => Nat.lor | _ => Nat.xor) x y))
    | _, _, _ => .error .stuck
  | .logNot =>
    match a with
    | .bool x => .ok (.bool (!x))
    | _ => .error .stuck
  | .logAnd =>
    match a, b with
    | .bool x, some (.bool y) => .ok (.bool (x && y))
    | _, _ => .error .stuck
  | .logOr =>
    match a, b with
    | .bool x, some (.bool y) => .ok (.bool (x || y))
    | _, _ => .error .stuck
  | .fneg =>
    match floatFmtOf a.kind, a.floatBits? with
    | some f, some bits => (match mkFloat rk (F.neg f bits) with | some c => .ok c | none => .error .stuck)
    | _, _ => .error .stuck
  | .cmp c =>
    match b with
    | some b =>
      -- `lhs < rhs` / `lhs > rhs`: `>`/`>=` are `<`/`<=` with the operands as written
      .ok (.bool (cmpOrd c (ordOf a b)))
    | none => .error .stuck
  | .eq => (match b with | some b => .ok (.bool (constEq a b)) | none => .error .stuck)
  | .ne => (match b with | some b => .ok (.bool (!constEq a b)) | none => .error .stuck)

def lookupArm {ρ : Type} (arms : List (Kind × Kind × ρ)) (k : Kind) : Option (Kind × ρ) :=
  match arms with
  | [] => none
  | (k', rk, r) :: rest => if k' = k then some (rk, r) else lookupArm rest k

def oob (len idx : Nat) : Err :=
  .panic ("index out of bounds: the len is " ++ toString len ++ " but the index is " ++ toString idx)

/-- the `match *op { .. }` of `evaluate_operator` on the (enum-stripped) operand values -/
def applyOp (o : Op) (args : List Constant) : Res :=
  match opTable o with
  | none => .error .notConst
  | some e =>
    match e.shape, args with
    | .unary, [] => .error (oob 0 0)
    | .unary, a :: _ =>
      (match lookupArm e.arms a.kind with
       | some (rk, r) => applyRule r rk a none
       | none => applyRule e.dflt a.kind a none)
    | _, [] => .error (oob 0 0)
    | _, [_] => .error (oob 1 1)
    | .binary, a :: b :: _ =>
      (match (if a.kind = b.kind then lookupArm e.arms a.kind else none) with
       | some (rk, r) => applyRule r rk a (some b)
       | none => applyRule e.dflt a.kind a (some b))
    | .whole, a :: b :: _ => applyRule e.dflt .Bool a (some b)

/-! ## `evaluate_cast` -/

inductive Ty where
  | scalar (s : Scalar)
  | enum (id : Nat) (underlying : Scalar)
  | other
  deriving DecidableEq, Repr, Inhabited

def rustInt : RustTy → Option IntTy
  | .i32 => some i32
  | .u32 => some u32
  | _ => none

def rustFloat : RustTy → Option F.Fmt
  | .f32 => some F.f32
  | .f64 => some F.f64
  | _ => none

def mkConst (rk : Kind) (z : Option Int) (bits : Option Nat) (b : Option Bool) : Res :=
  match rk, z, bits, b with
  | .Bool, _, _, some v => .ok (.bool v)
  | k, some z, _, _ => (match mkInt k z with | some c => .ok c | none => .error .stuck)
  | k, _, some bits, _ => (match mkFloat k bits with | some c => .ok c | none => .error .stuck)
  | _, _, _, _ => .error .stuck

/-- one arm of a scalar target of `evaluate_cast` -/
def applyCastRule (r : CastRule) (rk : Kind) (v : Constant) : Res :=
  match r with
  | .notConst => .error .notConst
  | .unreachable => .error (.panic "internal error: entered unreachable code")
  | .id =>
    (match v with
     | .bool b => mkConst rk none none (some b)
     | _ => match v.intVal?, v.floatBits? with
       | some z, _ => mkConst rk (some z) none none
       | _, some bits => mkConst rk none (some bits) none
       | _, _ => .error .stuck)
  | .neZero => (match v.intVal? with | some z => mkConst rk none none (some (z != 0)) | none => .error .stuck)
  | .fneZero =>
    (match floatFmtOf v.kind, v.floatBits? with
     | some f, some bits => mkConst rk none none (some (F.neZero (F.decode f bits)))
     | _, _ => .error .stuck)
  | .fromBool => (match v with | .bool b => mkConst rk (some (if b then 1 else 0)) none none | _ => .error .stuck)
  | .boolToFloat =>
    (match v, floatFmtOf rk with
     | .bool b, some f => mkConst rk none (some (if b then F.one f else 0)) none
     | _, _ => .error .stuck)
  | .asTy t =>
    match rustInt t, rustFloat t with
    | some it, _ =>
      -- `as i32` / `as u32`: integers wrap, floats saturate (NaN ↦ 0)
      (match v.intVal?, floatFmtOf v.kind, v.floatBits? with
       | some z, _, _ => mkConst rk (some (it.wrap z)) none none
       | _, some f, some bits => mkConst rk (some (F.toIntSat it.lo it.hi (F.decode f bits))) none none
       | _, _, _ => .error .stuck)
    | _, some ft =>
      -- `as f32` / `as f64`: nearest, ties to even
      (match v.intVal?, floatFmtOf v.kind, v.floatBits? with
       | some z, _, _ => mkConst rk none (some (F.ofInt ft z)) none
       | _, some f, some bits => mkConst rk none (some (if f = ft then bits else F.convert f ft bits)) none
       | _, _, _ => .error .stuck)
    | none, none => .error .stuck

/-- `match inner_value { Constant::Enum(_, inner) => *inner, other => other }` -/
def stripEnum : Constant → Constant
  | .enum _ inner => inner
  | other => other

def castScalar (s : Scalar) (v : Constant) : Res :=
  match castTable s with
  | none => .error .notConst
  | some rows =>
    -- every scalar arm starts by replacing an enum operand by its underlying value
    let v := stripEnum v
    match lookupArm rows v.kind with
    | some (rk, r) => applyCastRule r rk v
    | none => .error .notConst

def evalCast (t : Ty) (v : Constant) : Res :=
  match t with
  | .scalar s => castScalar s v
  | .enum id underlying =>
    (match castScalar underlying v with
     | .ok u => .ok (.enum id u)
     | .error e => .error e)
  | .other => .error .notConst

/-! ## `evaluate_constexpr` -/

/-- what `SizeOf` looks at -/
inductive SizeTy where
  | scalar (s : Scalar)
  | enum (underlying : Scalar)
  | other
  deriving DecidableEq, Repr, Inhabited

mutual
/-- `ir::Expression`, with the module lookups inlined -/
inductive Expr where
  | lit (c : Constant)
  | var (v : Option Constant)          -- local variable and its `constexpr_value`
  | global (v : Option Constant)       -- global variable and its `constexpr_value`
  | enumValue (id : Nat) (v : Constant)
  | cast (t : Ty) (e : Expr)
  | sizeOf (t : SizeTy)
  | op (o : Op) (args : Args)
  | other                              -- every other expression form
inductive Args where
  | nil
  | cons (e : Expr) (rest : Args)
end

/-- state of the operand loop: values pushed so far (reversed) and `enum_wrap` -/
structure Acc where
  vals : List Constant
  wrap : Option Nat
  deriving Repr

/-- one iteration of the operand loop of `evaluate_operator` -/
def pushArg (acc : Acc) (v : Constant) : Except Err Acc :=
  match v with
  | .enum id u =>
    if enumAsserts.1 && !(acc.wrap.isNone || acc.wrap == some id) then
      .error (.panic "assertion failed: enum_wrap.is_none() || enum_wrap == Some(enum_id)")
    else .ok ⟨u :: acc.vals, some id⟩
  | v =>
    if enumAsserts.2 && !acc.wrap.isNone then .error (.panic "assertion failed: enum_wrap.is_none()")
    else .ok ⟨v :: acc.vals, acc.wrap⟩

def evalSizeOf : SizeTy → Res
  | .scalar s => (match scalarSize s with | some n => .ok (.uint32 n) | none => .error .notConst)
  | .enum u =>
    (match scalarSize u with
     | some n => .ok (.uint32 n)
     | none => .error (.panic "called `Option::unwrap()` on a `None` value"))
  | .other => .error .notConst

def finishOp (o : Op) (acc : Acc) : Res :=
  match applyOp o acc.vals.reverse with
  | .error e => .error e
  | .ok r =>
    match (if noEnumRewrap.contains o then none else acc.wrap) with
    | some id => .ok (.enum id r)
    | none => .ok r

mutual
def eval : Expr → Res
  | .lit c => .ok c
  | .var v | .global v => (match v with | some c => .ok c | none => .error .notConst)
  | .enumValue id v => .ok (.enum id v)
  | .cast t e =>
    (match eval e with
     | .ok v => evalCast t v
     | .error e => .error e)
  | .sizeOf t => evalSizeOf t
  | .op o args =>
    (match evalArgs args ⟨[], none⟩ with
     | .ok acc => finishOp o acc
     | .error e => .error e)
  | .other => .error .notConst
def evalArgs : Args → Acc → Except Err Acc
  | .nil, acc => .ok acc
  | .cons e rest, acc =>
    (match eval e with
     | .error err => .error err
     | .ok v =>
       match pushArg acc v with
       | .error err => .error err
       | .ok acc' => evalArgs rest acc')
end

end RsslVerif.Model.ConstEval

import RsslVerif.Lemmas.MacroScope
/-!
API-level defines versus `#define` lines: what `Macro::parse` makes of the line `#define NAME value`, compared with the
macro `preprocess_initial_file` builds from the pair `(NAME, value)`.
-/
namespace RsslVerif.Lemmas.MacroApi
open RsslVerif.Model.Macro RsslVerif.Model.Include RsslVerif.Lemmas.MacroScope

def located (ts : List Tok) : List PTok := ts.map (⟨·, true⟩)

/-- the tokens after `#define` of the line `#define NAME value` -/
def defineLine (d : String × List Tok) : List PTok :=
  ⟨.ws, true⟩ :: ⟨.id d.1, true⟩ :: ⟨.ws, true⟩ :: located d.2

/-- the macro a `#define NAME value` line yields when the value is taken as it is -/
def fileMacro (d : String × List Tok) : Macro :=
  { name := d.1, isFunction := false, numParams := 0, body := located d.2 }

/-- forget the location bits -/
def eraseLoc (m : Macro) : Macro := { m with body := m.body.map (fun t => ⟨t.tok, true⟩) }

/-- a value for which both routes agree: no leading or trailing blank (the API route does not trim), no `##`
(the API route does not turn it into the paste operator) -/
def ValueOk (v : List Tok) : Prop := trim (located v) = located v ∧ Tok.hashhash ∉ v

theorem eraseLoc_api (d : String × List Tok) : eraseLoc (apiMacro d) = eraseLoc (fileMacro d) := by
  simp [eraseLoc, apiMacro, fileMacro, located, List.map_map, Function.comp_def]

theorem bodyTok_nil (t : PTok) (h : t.tok ≠ .hashhash) : bodyTok [] t = t := by
  unfold bodyTok
  split
  · simp [indexOfName]
  · rename_i hh; exact absurd hh h
  · rfl

theorem trim_ws_cons (v : List PTok) (b : Bool) : trim (⟨.ws, b⟩ :: v) = trim v := by
  unfold trim trimStart
  rw [List.dropWhile_cons]
  simp [Tok.isBlank]

theorem parseDefine_defineLine (d : String × List Tok) (hv : ValueOk d.2) :
    parseDefine (defineLine d) = .ok (fileMacro d) := by
  obtain ⟨htrim, hno⟩ := hv
  have hstart : trimStart (defineLine d) = ⟨.id d.1, true⟩ :: ⟨.ws, true⟩ :: located d.2 := by
    unfold defineLine trimStart
    rw [List.dropWhile_cons]
    simp only [Tok.isBlank, if_true]
    rw [List.dropWhile_cons]
    simp [Tok.isBlank]
  have hbody : (trim (⟨.ws, true⟩ :: located d.2)).map (bodyTok []) = located d.2 := by
    rw [trim_ws_cons, htrim]
    unfold located
    rw [List.map_map]
    apply List.map_congr_left
    intro t ht
    simp only [Function.comp]
    apply bodyTok_nil
    intro h
    exact hno (h ▸ ht)
  unfold parseDefine
  rw [hstart]
  simp only [List.length_nil, Nat.zero_add, parseParams, splitAtTok, trim, trimStart, trimEnd,
    List.dropWhile_nil, List.reverse_nil, List.isEmpty_nil, if_true, List.length_nil]
  have hb' := hbody
  simp only [trim, trimStart, trimEnd] at hb'
  simp only [fileMacro, hb']

/-- `#define` lines for pairwise distinct names, one after the other -/
def defineAll : List Macro → List (String × List Tok) → Except Err (List Macro)
  | ms, [] => .ok ms
  | ms, d :: ds =>
    match doDefine ms (defineLine d) with
    | .error e => .error e
    | .ok ms' => defineAll ms' ds

theorem removeNamed_of_not_mem (n : String) (ms : List Macro) (h : n ∉ names ms) : removeNamed n ms = ms := by
  induction ms with
  | nil => rfl
  | cons a as ih =>
    simp only [names, List.map_cons, List.mem_cons, not_or] at h
    have ha : a.name ≠ n := fun hh => h.1 hh.symm
    simp only [removeNamed, ha, if_false]
    rw [ih h.2]

theorem defineAll_spec (acc : List Macro) (ds : List (String × List Tok))
    (hv : ∀ d ∈ ds, ValueOk d.2) (hn : (names acc ++ ds.map (·.1)).Nodup) :
    defineAll acc ds = .ok (acc ++ ds.map fileMacro) := by
  induction ds generalizing acc with
  | nil => simp [defineAll]
  | cons d ds ih =>
    have hd : d.1 ∉ names acc := by
      intro hmem
      rw [List.nodup_append] at hn
      exact hn.2.2 d.1 hmem d.1 (by simp) rfl
    unfold defineAll doDefine
    rw [parseDefine_defineLine d (hv d (by simp))]
    simp only [fileMacro]
    rw [removeNamed_of_not_mem d.1 acc hd]
    have := ih (acc ++ [fileMacro d]) (fun x hx => hv x (by simp [hx])) (by
      simp only [names, List.map_append, List.map_cons, List.map_nil, fileMacro, List.append_assoc,
        List.singleton_append] at hn ⊢
      exact hn)
    simp only [fileMacro] at this
    rw [this]
    simp [fileMacro]

theorem paste_unlocated_panics (l r : PTok) (h : l.located = false ∨ r.located = false) :
    pasteTokens l r =
      .error (.panic "preprocess/src/unlexer.rs: unlex does not support unlocated tokens") := by
  unfold pasteTokens
  rcases h with h | h <;> simp [h]

end RsslVerif.Lemmas.MacroApi

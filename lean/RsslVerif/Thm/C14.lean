import RsslVerif.Lemmas.SourceMap
/-!
# C14 — layout trivia never changes results and diagnostics track source positions

Part 1 (this section): positions.  Theorems about `Model.SourceMap` — the model of `SourceManager`
(`text/src/location.rs`) and `MessagePrinter::write_message` (`text/src/errors.rs`) — for all texts, all
insertion points, all inserted texts and all file lists.
-/
namespace RsslVerif.Thm.C14
open RsslVerif.Gen.SourceMapTables RsslVerif.Model.SourceMap RsslVerif.Lemmas.SourceMap

/-- Tie to the source: the constants and format pieces the model is written against are the ones
    `location.rs`, `errors.rs`, `tokens.rs` and `prepare_tokens` contain today. -/
theorem tables_as_modelled :
    unknownRaw = 2 ^ 32 - 1 ∧ firstRaw = 0 ∧ firstLine = 1 ∧ firstColumn = 1 ∧ extraSlots = 1 ∧ newlineByte = 10 ∧
    locSep = ":" ∧ headSep = ": " ∧ unknownText = "<unknown>" ∧ caretText = "^" ∧ padText = " " ∧
    Severity.Error.text = "error" ∧ Severity.Note.text = "note" ∧
    whitespaceKinds = ["Endline", "PhysicalEndline", "Whitespace", "Comment"] ∧
    prepareDropsWhitespace = true ∧ prepareAppendsEofUnknown = true ∧
    spaceTabAreWhitespace = true ∧ spliceIsPhysicalEndline = true ∧ newlineIsEndline = true := by decide

/-! ## positions inside one file -/

/-- **General insertion formula.** After inserting any `ins` at `p`, the old offset `q ≥ p` (now at
    `q + |ins|`) is `nlCount ins` lines further down; its column is unchanged once a line break lies
    between `p` and `q`, and otherwise is the column reached by scanning `ins` and then the bytes up to `q`. -/
theorem insert_shift (s ins : Bytes) (p q : Nat) (hpq : p ≤ q) (hq : q ≤ s.length) :
    (lineCol (insertAt s p ins) (q + ins.length)).line = (lineCol s q).line + nlCount ins ∧
    (0 < nlCount ((s.drop p).take (q - p)) →
      (lineCol (insertAt s p ins) (q + ins.length)).col = (lineCol s q).col) := by
  rw [lineCol_insertAt_after s ins p q hpq hq, lineCol_split s p q hpq]
  constructor
  · simp only [scan_line]; omega
  · intro h
    simp only [scan_col]
    exact scanCol_reset _ _ _ h

/-- **line_shift.** Inserting `k` newline-terminated lines (`ins`) at the start of a line (`p`) moves
    every position `q ≥ p` down by exactly `k` lines and leaves its column unchanged — for all texts,
    all `k`, all `p`, all `q`. -/
theorem line_shift (s ins : Bytes) (p q k : Nat) (hpq : p ≤ q) (hq : q ≤ s.length)
    (hstart : (lineCol s p).col = firstColumn) (hins : NlTerminated ins) (hk : nlCount ins = k) :
    lineCol (insertAt s p ins) (q + ins.length) = ⟨(lineCol s q).line + k, (lineCol s q).col⟩ := by
  rw [lineCol_insertAt_after s ins p q hpq hq, lineCol_split s p q hpq,
    scan_lines (lineCol s p) ins hins hstart]
  have hl : ∀ (a : Pos) (n : Nat) (bs : Bytes),
      scan ⟨a.line + n, a.col⟩ bs = ⟨(scan a bs).line + n, (scan a bs).col⟩ := by
    intro a n bs
    have h1 := scan_line ⟨a.line + n, a.col⟩ bs
    have h2 := scan_col ⟨a.line + n, a.col⟩ bs
    have h3 := scan_line a bs
    have h4 := scan_col a bs
    cases hs : scan ⟨a.line + n, a.col⟩ bs with
    | mk l c =>
      rw [hs] at h1 h2
      simp at h1 h2
      simp [h1, h2, h3, h4]
      omega
  rw [hl, hk]

/-- positions before the inserted lines do not move at all -/
theorem line_shift_before (s ins : Bytes) (p q : Nat) (hqp : q ≤ p) (hp : p ≤ s.length) :
    lineCol (insertAt s p ins) q = lineCol s q :=
  lineCol_insertAt_before s ins p q hqp hp

/-- **Inline trivia.** Inserting `w` without a line break at `p`: a position on the rest of that line
    moves right by `|w|`, positions on later lines do not move, the line number never changes. -/
theorem inline_trivia_shift (s w : Bytes) (p q : Nat) (hpq : p ≤ q) (hq : q ≤ s.length) (hw : nlCount w = 0) :
    (lineCol (insertAt s p w) (q + w.length)).line = (lineCol s q).line ∧
    (nlCount ((s.drop p).take (q - p)) = 0 →
      (lineCol (insertAt s p w) (q + w.length)).col = (lineCol s q).col + w.length) ∧
    (0 < nlCount ((s.drop p).take (q - p)) →
      (lineCol (insertAt s p w) (q + w.length)).col = (lineCol s q).col) := by
  have h := insert_shift s w p q hpq hq
  refine ⟨by rw [h.1, hw]; rfl, ?_, h.2⟩
  intro h0
  rw [lineCol_insertAt_after s w p q hpq hq, lineCol_split s p q hpq]
  simp only [scan_col]
  rw [scanCol_noNl _ _ h0, scanCol_noNl _ _ h0, scanCol_noNl _ _ hw]
  omega

/-- line and column determine the offset: two different positions of a file never print the same `line:col` -/
theorem lineCol_injective (s : Bytes) (p q : Nat) (hpq : p ≤ q) (hq : q ≤ s.length)
    (h : lineCol s p = lineCol s q) : p = q := by
  have hl : (lineCol s q).line = (lineCol s p).line + nlCount ((s.drop p).take (q - p)) := by
    rw [lineCol_split s p q hpq, scan_line]
  have hc : (lineCol s q).col = scanCol (lineCol s p).col ((s.drop p).take (q - p)) := by
    rw [lineCol_split s p q hpq, scan_col]
  rw [← h] at hl hc
  have h0 : nlCount ((s.drop p).take (q - p)) = 0 := by omega
  rw [scanCol_noNl _ _ h0] at hc
  have hlen : ((s.drop p).take (q - p)).length = q - p := by
    simp [List.length_take, List.length_drop]; omega
  omega

/-- bounds: lines and columns start at 1 and never exceed the offset + 1 -/
theorem lineCol_bounds (s : Bytes) (q : Nat) (hq : q ≤ s.length) :
    firstLine ≤ (lineCol s q).line ∧ (lineCol s q).line ≤ firstLine + q ∧
    firstColumn ≤ (lineCol s q).col ∧ (lineCol s q).col ≤ firstColumn + q := by
  have hlen : (s.take q).length = q := by simp [List.length_take]; omega
  have h1 : nlCount (s.take q) ≤ q := by
    have := List.countP_le_length (p := isNl) (l := s.take q)
    unfold nlCount; omega
  have h2 : (lastLine (s.take q)).length ≤ q := by
    have : (lastLine (s.take q)).length ≤ (s.take q).length := by
      unfold lastLine
      rw [List.length_reverse]
      have := (List.takeWhile_sublist (fun c => !isNl c) (l := (s.take q).reverse)).length_le
      simpa using this
    omega
  rw [lineCol_line, lineCol_col]
  omega

/-! ## positions across files (`SourceManager`) -/

theorem totalSlots_append (a b : SourceManager) : totalSlots (a ++ b) = totalSlots a + totalSlots b := by
  induction a with
  | nil => simp [totalSlots, show firstRaw = 0 from rfl]
  | cons f a ih => simp [totalSlots, ih]; omega

theorem getFileLocation_skip (pre rest : SourceManager) (loc : Nat) :
    getFileLocation (pre ++ rest) (totalSlots pre + loc) = getFileLocation rest loc := by
  induction pre with
  | nil => simp [totalSlots, show firstRaw = 0 from rfl]
  | cons f pre ih =>
    have hnot : ¬ (f.slots + totalSlots pre + loc < f.slots) := by omega
    have hsub : f.slots + totalSlots pre + loc - f.slots = totalSlots pre + loc := by omega
    simp only [List.cons_append, getFileLocation, totalSlots, hnot, if_false, hsub]
    exact ih

theorem getFileOffset_skip (pre rest : SourceManager) (loc : Nat) :
    getFileOffset (pre ++ rest) (totalSlots pre + loc) =
      (getFileOffset rest loc).map fun (i, o) => (pre.length + i, o) := by
  induction pre with
  | nil =>
    simp [totalSlots, show firstRaw = 0 from rfl]
  | cons f pre ih =>
    have hnot : ¬ (f.slots + totalSlots pre + loc < f.slots) := by omega
    have hsub : f.slots + totalSlots pre + loc - f.slots = totalSlots pre + loc := by omega
    simp only [List.cons_append, getFileOffset, totalSlots, hnot, if_false, hsub, ih]
    cases getFileOffset rest loc with
    | none => rfl
    | some io => cases io; simp; omega

/-- **include_location.** A location inside a file — wherever that file sits among the loaded files,
    whatever the files loaded before it (the including files) and after it contain — decodes to that
    file's own name and to the line and column counted inside that file alone. -/
theorem include_location (pre post : SourceManager) (f : SourceFile) (off : Nat)
    (h : off ≤ f.contents.length) :
    getFileLocation (pre ++ f :: post) (totalSlots pre + off) =
      .known f.name (lineCol f.contents off).line (lineCol f.contents off).col ∧
    getFileOffset (pre ++ f :: post) (totalSlots pre + off) = some (pre.length, off) := by
  have hlt : off < f.slots := by unfold SourceFile.slots; have : extraSlots = 1 := rfl; omega
  constructor
  · rw [getFileLocation_skip]; simp [getFileLocation, hlt]
  · rw [getFileOffset_skip]; simp [getFileOffset, hlt]

/-- editing the including files (any change of the files loaded earlier or later) does not change
    what a position inside an included file decodes to -/
theorem include_independent_of_includer (pre pre' post post' : SourceManager) (f : SourceFile) (off : Nat)
    (h : off ≤ f.contents.length) :
    getFileLocation (pre' ++ f :: post') (totalSlots pre' + off) =
      getFileLocation (pre ++ f :: post) (totalSlots pre + off) := by
  rw [(include_location pre post f off h).1, (include_location pre' post' f off h).1]

/-- `get_source_location_from_file_offset` produces exactly the locations `include_location` speaks about -/
theorem sourceLocation_eq (pre post : SourceManager) (f : SourceFile) (off : Nat) (h : off ≤ f.contents.length) :
    sourceLocation (pre ++ f :: post) pre.length off = .ok (totalSlots pre + off) := by
  have hlt : off < f.slots := by unfold SourceFile.slots; have : extraSlots = 1 := rfl; omega
  simp [sourceLocation, hlt, baseOf]

/-- **location_in_range.** A raw location decodes to a file position exactly when it is below the
    total number of slots; the decoded pair lies inside its file (`offset ≤ size`) and re-encodes to the
    same raw location; both decoders agree on the owner. -/
theorem location_in_range (sm : SourceManager) (loc : Nat) :
    (loc < totalSlots sm ↔ getFileLocation sm loc ≠ .unknown) ∧
    (getFileOffset sm loc = none ↔ getFileLocation sm loc = .unknown) ∧
    (∀ i off, getFileOffset sm loc = some (i, off) →
      ∃ f, sm[i]? = some f ∧ off ≤ f.contents.length ∧ baseOf sm i + off = loc ∧
        getFileLocation sm loc = .known f.name (lineCol f.contents off).line (lineCol f.contents off).col) := by
  induction sm generalizing loc with
  | nil => simp [totalSlots, getFileLocation, getFileOffset, show firstRaw = 0 from rfl]
  | cons f sm ih =>
    by_cases hlt : loc < f.slots
    · refine ⟨?_, ?_, ?_⟩
      · simp [totalSlots, getFileLocation, hlt]; omega
      · simp [getFileLocation, getFileOffset, hlt]
      · intro i off hio
        simp [getFileOffset, hlt] at hio
        obtain ⟨rfl, rfl⟩ := hio
        refine ⟨f, by simp, ?_, ?_, ?_⟩
        · unfold SourceFile.slots at hlt; have : extraSlots = 1 := rfl; omega
        · simp [baseOf, totalSlots, show firstRaw = 0 from rfl]
        · simp [getFileLocation, hlt]
    · obtain ⟨h1, h2, h3⟩ := ih (loc - f.slots)
      refine ⟨?_, ?_, ?_⟩
      · simp only [totalSlots, getFileLocation, hlt, if_false]
        rw [← h1]; omega
      · simp only [getFileLocation, getFileOffset, hlt, if_false]
        rw [← h2]
        cases getFileOffset sm (loc - f.slots) <;> simp
      · intro i off hio
        simp only [getFileOffset, hlt, if_false] at hio
        cases hg : getFileOffset sm (loc - f.slots) with
        | none => rw [hg] at hio; simp at hio
        | some jo =>
          obtain ⟨j, o⟩ := jo
          rw [hg] at hio
          simp at hio
          obtain ⟨rfl, rfl⟩ := hio
          obtain ⟨g, hg1, hg2, hg3, hg4⟩ := h3 j o hg
          refine ⟨g, by simpa using hg1, hg2, ?_, ?_⟩
          · simp only [baseOf, List.take_succ_cons, totalSlots] at hg3 ⊢
            omega
          · simp only [getFileLocation, hlt, if_false]; exact hg4

/-- **line_shift across files.** `f` is any loaded file, `k` whole lines are inserted at the line start
    `p` of `f`.  A location at or after `p` in `f` moves by `|ins|` raw slots and decodes to the same
    file name, the same column and `line + k`; locations before `p`, and all locations of files loaded
    earlier, decode as before; locations of files loaded later move by `|ins|` raw slots and decode as before. -/
theorem line_shift_located (pre post : SourceManager) (f : SourceFile) (ins : Bytes) (p q k : Nat)
    (hpq : p ≤ q) (hq : q ≤ f.contents.length)
    (hstart : (lineCol f.contents p).col = firstColumn) (hins : NlTerminated ins) (hk : nlCount ins = k) :
    getFileLocation (pre ++ { f with contents := insertAt f.contents p ins } :: post)
        (totalSlots pre + q + ins.length) =
      .known f.name ((lineCol f.contents q).line + k) (lineCol f.contents q).col ∧
    getFileLocation (pre ++ f :: post) (totalSlots pre + q) =
      .known f.name (lineCol f.contents q).line (lineCol f.contents q).col := by
  constructor
  · have hq' : q + ins.length ≤ (insertAt f.contents p ins).length := by rw [length_insertAt]; omega
    have := (include_location pre post { f with contents := insertAt f.contents p ins } (q + ins.length) hq').1
    rw [Nat.add_assoc, this]
    simp only [line_shift f.contents ins p q k hpq hq hstart hins hk]
  · exact (include_location pre post f q hq).1

/-- locations of files loaded after the edited file: the raw value moves, the decoded position does not -/
theorem later_files_unaffected (pre post : SourceManager) (f f' : SourceFile) (loc : Nat) :
    getFileLocation (pre ++ f' :: post) (totalSlots pre + f'.slots + loc) =
      getFileLocation (pre ++ f :: post) (totalSlots pre + f.slots + loc) := by
  have e1 : pre ++ f' :: post = (pre ++ [f']) ++ post := by simp
  have e2 : pre ++ f :: post = (pre ++ [f]) ++ post := by simp
  have t1 : totalSlots pre + f'.slots = totalSlots (pre ++ [f']) := by
    rw [totalSlots_append]; simp [totalSlots, show firstRaw = 0 from rfl]
  have t2 : totalSlots pre + f.slots = totalSlots (pre ++ [f]) := by
    rw [totalSlots_append]; simp [totalSlots, show firstRaw = 0 from rfl]
  rw [e1, e2, t1, t2, getFileLocation_skip, getFileLocation_skip]

/-- locations of files loaded before the edited file are untouched -/
theorem earlier_files_unaffected (pre rest rest' : SourceManager) (loc : Nat) (h : loc < totalSlots pre) :
    getFileLocation (pre ++ rest') loc = getFileLocation (pre ++ rest) loc := by
  induction pre generalizing loc with
  | nil => simp [totalSlots, show firstRaw = 0 from rfl] at h
  | cons g pre ih =>
    by_cases hlt : loc < g.slots
    · simp [getFileLocation, hlt]
    · simp only [List.cons_append, getFileLocation, hlt, if_false]
      exact ih _ (by simp only [totalSlots] at h; omega)

end RsslVerif.Thm.C14

import RsslVerif.Gen.UsageTables
import RsslVerif.Model.Usage
import RsslVerif.Spec.Usage
import RsslVerif.Lemmas.Usage
/-!
# C02 — implicit threading of globals through functions on Metal

The property theorems for the pure-logic half of C02: the usage fixpoint (`GlobalUsageAnalysis::recurse`)
terminates without panicking, computes reachability through the "mentions" relation for every key
iteration order, and the parameter / argument lists the Metal generator builds from it are order
independent, monotone along calls, aligned between call sites and signatures, and contain exactly the
threaded-mode globals a function needs.  `…_partial` theorems exclude default-argument expressions and
global initialisers, which the real analysis does not visit; the two `…_not_analysed` theorems prove, with
concrete programs, that the full statements are false for the code as it is.
-/
namespace RsslVerif.Thm.C02
open RsslVerif.Gen.UsageTables RsslVerif.Model.Usage RsslVerif.Spec.Usage RsslVerif.Lemmas.Usage

/-! ## Tie to the source (tables regenerated from /repo on every run) -/

/-- the loop, the local pass and the list building have the syntactic shape the model mirrors -/
theorem tables_as_modelled :
    recurseShape = ⟨true, true, true, true, true⟩ ∧
    functionBodyGathered = true ∧ defaultArgumentsGathered = true ∧ globalInitialisersGathered = true ∧
    everyFunctionHasAnEntry = true ∧ cbuffersHaveEmptyUsage = true ∧
    callSitesFillDefaults = true ∧ noDefaultsWithImplicitParams = true ∧ staticInitialisersGeneratedLast = true ∧
    symbolInserts = [("Global", "GlobalVariable"), ("ConstantVariable", "ConstantBuffer"), ("Call", "Function")] ∧
    constantModeIffGlobalConstant = true ∧ intrinsicGlobalsHaveNoMode = true ∧
    implicitVariants = ["ThreadIndexInSimdgroup", "ThreadsPerSimdgroup", "MeshOutput", "PayloadOutput",
      "MeshGridProperties", "Global"] ∧
    implicitDerivesOrd = true ∧ requiredGlobalsSorted = true ∧ pushesNonConstantGlobals = true ∧
    intrinsicFunctionsSkipped = true ∧ argumentsAppendedInListOrder = true ∧ callSitesAppendCalleeList = true ∧ trampolineAppendsOwnList = true ∧
    implicitParamsFollowUserParams = true ∧ trampolineIffOutAndCalled = true := by decide

/-- every syntactic position a mention or call can sit at inside a function body is visited by
    gather_usage_* in the current source (a dropped match arm or field makes this fail) -/
theorem all_positions_descended :
    bodyPositions.all (fun p => p.2.all Slot.descended) = true ∧
    readPaths.all (fun p => p.2.all Slot.descended) = true ∧
    callArgSlot.descended = true ∧ recordsGlobals = true ∧ recordsCalls = true ∧
    -- every variant of the IR's statement/expression/initialiser enums has an arm in the tables
    stmtArms.length = 15 ∧ exprArms.length = 18 ∧ initArms.length = 2 ∧ forInitArms.length = 3 := by decide

/-- the name a parameter is declared under is the name call sites pass, for every implicit variant -/
theorem implicit_names_agree :
    (implicitNames.all fun r => r.1 == "Global" || r.2.1 == r.2.2) = true ∧
    implicitNames.map (·.1) = implicitVariants ∧
    implicitNames[globalVariant]? = some ("Global", "<param>", "<argument>") ∧
    globalParamAndArgumentShareName = true := by decide

/-! ## The fixpoint loop -/

/-- `recurse` never hits `Option::unwrap()` on `None`, whatever the fuel: every symbol a set mentions has an
    entry (calculate_local inserts one per function, global and constant buffer) -/
theorem recurse_no_panic {t₀ : Table} (hwf : WF t₀) {keys : List Sym} (hk : ∀ k ∈ keys, k ∈ keysOf t₀)
    (fuel : Nat) : ∃ r, recurseFuel fuel keys t₀ = .ok r :=
  ⟨_, recurseFuel_eq hk fuel t₀ (Inv.init hwf)⟩

/-- the loop terminates: the total size of the sets is at most `|keys|²` (`total_le_of_inv`) and every pass
    that reports `modified` strictly increases it (`total_sweep`), so `|keys|² + 1` passes suffice -/
theorem recurse_terminates {t₀ : Table} (hwf : WF t₀) {keys : List Sym} (hk : ∀ k ∈ keys, k ∈ keysOf t₀) :
    ∃ t', recurse keys t₀ = .ok (some t') := by
  obtain ⟨t', h⟩ := recP_some (keys := keys) (fuelBound t₀) t₀ (Inv.init hwf) (by unfold fuelBound; omega)
  exact ⟨t', by unfold recurse; rw [recurseFuel_eq hk _ _ (Inv.init hwf), h]⟩

/-- the measure statement itself: bounded, monotone, strictly increasing on a modified pass -/
theorem measure_bounded_and_increasing {t₀ t : Table} (hinv : Inv t₀ t) (keys : List Sym) :
    total t ≤ t₀.length * t₀.length ∧ total t ≤ total (sweepP t false keys).1 ∧
    ((sweepP t false keys).2 = true → total t < total (sweepP t false keys).1) :=
  ⟨total_le_of_inv hinv, (total_sweep t false).1, fun h => (total_sweep t false).2 h rfl⟩

/-- **closure = reachability**: after `recurse`, `g` is in `f`'s set iff some `h` reachable from `f` through
    mentions (reflexive-transitive) mentions `g` in the local table -/
theorem close_is_reachability {t₀ t' : Table} (hwf : WF t₀) {keys : List Sym}
    (hk : ∀ k, k ∈ keys ↔ k ∈ keysOf t₀) (h : recurse keys t₀ = .ok (some t')) (f g : Sym) :
    g ∈ val t' f ↔ ∃ h, Reach (Mentions t₀) f h ∧ g ∈ val t₀ h := by
  unfold recurse at h
  rw [recurseFuel_eq (fun k hk' => (hk k).1 hk') _ _ (Inv.init hwf)] at h
  have h' : recP (fuelBound t₀) keys t₀ = some t' := by
    injection h
  obtain ⟨hinv, hs⟩ := recP_spec _ _ _ (Inv.init hwf) h'
  exact closure_of_stable hinv (fun k hk' => hs k ((hk k).2 hk')) f g

/-- the result does not depend on the iteration order of `self.0.keys()` (cited by C07) -/
theorem closure_order_independent {t₀ t₁ t₂ : Table} (hwf : WF t₀) {keys₁ keys₂ : List Sym}
    (hk₁ : ∀ k, k ∈ keys₁ ↔ k ∈ keysOf t₀) (hk₂ : ∀ k, k ∈ keys₂ ↔ k ∈ keysOf t₀)
    (h₁ : recurse keys₁ t₀ = .ok (some t₁)) (h₂ : recurse keys₂ t₀ = .ok (some t₂)) (f g : Sym) :
    g ∈ val t₁ f ↔ g ∈ val t₂ f := by
  rw [close_is_reachability hwf hk₁ h₁, close_is_reachability hwf hk₂ h₂]

/-- sets stay duplicate free and keys are unchanged (so `get_usage_for_function` never fails afterwards) -/
theorem closure_keeps_keys {t₀ t' : Table} (hwf : WF t₀) {keys : List Sym}
    (hk : ∀ k, k ∈ keys ↔ k ∈ keysOf t₀) (h : recurse keys t₀ = .ok (some t')) :
    keysOf t' = keysOf t₀ ∧ ∀ k, (val t' k).Nodup := by
  unfold recurse at h
  rw [recurseFuel_eq (fun k hk' => (hk k).1 hk') _ _ (Inv.init hwf)] at h
  have h' : recP (fuelBound t₀) keys t₀ = some t' := by
    injection h
  obtain ⟨hinv, _⟩ := recP_spec _ _ _ (Inv.init hwf) h'
  exact ⟨hinv.keys, hinv.nodup⟩

/-! ## `required_globals`: collected in hash order, then sorted -/

theorem Implicit.le_total (a b : Implicit) : a.le b = true ∨ b.le a = true := by
  unfold Implicit.le
  by_cases h1 : a.variant < b.variant
  · left; simp [h1]
  · by_cases h2 : b.variant < a.variant
    · right; simp [h2]
    · have e : a.variant = b.variant := by omega
      rcases Nat.le_total a.payload b.payload with h | h
      · left; simp [e, h]
      · right; simp [e, h]

theorem Implicit.le_trans {a b c : Implicit} (h₁ : a.le b = true) (h₂ : b.le c = true) : a.le c = true := by
  unfold Implicit.le at *
  simp only [Bool.or_eq_true, Bool.and_eq_true, decide_eq_true_eq, beq_iff_eq] at *
  omega

theorem Implicit.le_antisymm {a b : Implicit} (h₁ : a.le b = true) (h₂ : b.le a = true) : a = b := by
  unfold Implicit.le at *
  simp only [Bool.or_eq_true, Bool.and_eq_true, decide_eq_true_eq, beq_iff_eq] at *
  cases a; cases b
  simp only [Implicit.mk.injEq] at *
  omega

theorem insertSorted_perm (x : Implicit) (l : List Implicit) : (insertSorted x l).Perm (x :: l) := by
  induction l with
  | nil => exact List.Perm.refl _
  | cons y ys ih =>
    simp only [insertSorted]
    split
    · exact List.Perm.refl _
    · exact (List.Perm.cons y ih).trans (List.Perm.swap x y ys)

theorem sortImplicit_perm (l : List Implicit) : (sortImplicit l).Perm l := by
  induction l with
  | nil => exact List.Perm.refl _
  | cons x xs ih => exact (insertSorted_perm x _).trans (List.Perm.cons x ih)

theorem insertSorted_sorted (x : Implicit) {l : List Implicit} (h : l.Pairwise (fun a b => a.le b = true)) :
    (insertSorted x l).Pairwise (fun a b => a.le b = true) := by
  induction l with
  | nil => simp [insertSorted]
  | cons y ys ih =>
    simp only [insertSorted]
    have hy := List.pairwise_cons.1 h
    split
    · rename_i hxy
      refine List.pairwise_cons.2 ⟨?_, h⟩
      intro z hz
      rcases List.mem_cons.1 hz with rfl | hz
      · exact hxy
      · exact Implicit.le_trans hxy (hy.1 z hz)
    · rename_i hxy
      have hyx : y.le x = true := by
        rcases Implicit.le_total x y with h | h
        · exact absurd h hxy
        · exact h
      refine List.pairwise_cons.2 ⟨?_, ih hy.2⟩
      intro z hz
      have : z ∈ x :: ys := (insertSorted_perm x ys).mem_iff.1 hz
      rcases List.mem_cons.1 this with rfl | hz
      · exact hyx
      · exact hy.1 z hz

theorem sortImplicit_sorted (l : List Implicit) : (sortImplicit l).Pairwise (fun a b => a.le b = true) := by
  induction l with
  | nil => simp [sortImplicit]
  | cons x xs ih => exact insertSorted_sorted x ih

/-- **the sorted list does not depend on the order in which the hash set was iterated**, duplicates included
    (two `DispatchMesh` instantiations push `MeshGridProperties` twice; `sort()` keeps both) -/
theorem required_order_independent {l₁ l₂ : List Implicit} (h : l₁.Perm l₂) :
    sortImplicit l₁ = sortImplicit l₂ := by
  apply List.Perm.eq_of_pairwise (le := fun a b => a.le b = true) _ (sortImplicit_sorted l₁) (sortImplicit_sorted l₂)
  · exact (sortImplicit_perm l₁).trans (h.trans (sortImplicit_perm l₂).symm)
  · intro a b _ _ hab hba
    exact Implicit.le_antisymm hab hba

theorem mem_sortImplicit {l : List Implicit} {i : Implicit} : i ∈ sortImplicit l ↔ i ∈ l :=
  (sortImplicit_perm l).mem_iff

/-- what one symbol contributes, without the error plumbing (errors = index out of range = empty) -/
def implP (p : Program) (s : Sym) : List Implicit :=
  match implicitsOfSym p s with
  | .ok l => l
  | .error _ => []

theorem implicitsOfSet_ok {p : Program} : ∀ {ss : List Sym} {l : List Implicit},
    implicitsOfSet p ss = .ok l → l = ss.flatMap (implP p) := by
  intro ss
  induction ss with
  | nil => intro l h; simp [implicitsOfSet] at h; simp [h]
  | cons s ss ih =>
    intro l h
    simp only [implicitsOfSet] at h
    split at h
    · rename_i a b ha hb
      injection h with h
      rw [← h, List.flatMap_cons, ← ih hb]
      simp [implP, ha]
    · exact absurd h (by simp)
    · exact absurd h (by simp)

/-- `function_required_globals[f]` as a pure function of the closure table -/
def requiredP (p : Program) (cl : Table) (f : Nat) : List Implicit :=
  sortImplicit ((val cl (.fn f)).flatMap (implP p))

theorem requiredOf_ok {p : Program} {cl : Table} {f : Nat} {r : List Implicit}
    (h : requiredOf p cl f = .ok r) : r = requiredP p cl f := by
  unfold requiredOf at h
  split at h
  · rename_i l hl
    injection h with h
    rw [← h, implicitsOfSet_ok hl]; rfl
  · exact absurd h (by simp)

/-- `required_globals` of a function is the same list for any two closure tables that agree as sets
    (hence for any key order and any set iteration order) -/
theorem requiredP_order_independent (p : Program) {cl₁ cl₂ : Table} (f : Nat)
    (hnd₁ : (val cl₁ (.fn f)).Nodup) (hnd₂ : (val cl₂ (.fn f)).Nodup)
    (h : ∀ s, s ∈ val cl₁ (.fn f) ↔ s ∈ val cl₂ (.fn f)) :
    requiredP p cl₁ f = requiredP p cl₂ f := by
  unfold requiredP
  apply required_order_independent
  exact ((List.perm_ext_iff_of_nodup hnd₁ hnd₂).2 h).flatMap_right _

theorem mem_requiredP {p : Program} {cl : Table} {f : Nat} {i : Implicit} :
    i ∈ requiredP p cl f ↔ ∃ s ∈ val cl (.fn f), i ∈ implP p s := by
  unfold requiredP
  rw [mem_sortImplicit, List.mem_flatMap]

/-- **monotone along calls**: when `f` mentions (calls) `h`, every implicit parameter of `h` is an implicit
    parameter of `f` — so each argument `append_arguments_for_globals` forwards at a call site names a
    parameter that is in scope in the caller -/
theorem required_monotone (p : Program) {t₀ cl : Table} (hwf : WF t₀) {keys : List Sym}
    (hk : ∀ k, k ∈ keys ↔ k ∈ keysOf t₀) (hcl : recurse keys t₀ = .ok (some cl)) {f h : Nat}
    (hcall : Sym.fn h ∈ val t₀ (.fn f)) :
    ∀ i, i ∈ requiredP p cl h → i ∈ requiredP p cl f := by
  intro i hi
  obtain ⟨s, hs, his⟩ := mem_requiredP.1 hi
  refine mem_requiredP.2 ⟨s, ?_, his⟩
  obtain ⟨x, hx, hxs⟩ := (close_is_reachability hwf hk hcl (.fn h) s).1 hs
  exact (close_is_reachability hwf hk hcl (.fn f) s).2 ⟨x, Reach.head hcall hx, hxs⟩

/-! ## call sites vs signatures -/

theorem userParamNames_length (ms : List ParamMode) : (userParamNames ms).length = ms.length := by
  simp [userParamNames]

/-- the payload-free implicit variants use one name on both sides (from the regenerated table) -/
theorem nonGlobal_names_agree : ∀ v, v < globalVariant →
    (implicitNames[v]?).map (fun r => r.2.1) = (implicitNames[v]?).map (fun r => r.2.2) := by decide

theorem implicit_base_eq_arg (p : Program) (i : Implicit) (hv : i.variant ≤ globalVariant) :
    implicitParamBase p i = implicitArgName p i := by
  unfold implicitParamBase implicitArgName
  split
  · rfl
  · rename_i hne
    have hlt : i.variant < globalVariant := by
      have : i.variant ≠ globalVariant := by simpa using hne
      omega
    have := nonGlobal_names_agree i.variant hlt
    cases hrow : implicitNames[i.variant]? with
    | none => rfl
    | some r =>
      obtain ⟨v, pn, an⟩ := r
      rw [hrow] at this
      simpa using this

theorem filterMap_length_of_all {α β : Type} (p : α → Bool) (g : α → β) : ∀ (l : List α),
    (∀ x ∈ l, p x = true) → (l.filterMap fun x => if p x then some (g x) else none).length = l.length := by
  intro l
  induction l with
  | nil => intro _; rfl
  | cons a l ih =>
    intro h
    have ha : p a = true := h a (by simp)
    simp only [List.filterMap_cons, ha, if_true, List.length_cons]
    rw [ih (fun x hx => h x (by simp [hx]))]

/-- a call that leaves out defaulted arguments gets exactly one explicit argument per omitted parameter when the
    callee receives parameters for globals -/
theorem filledDefaults_length (c : Ctx) (h : Nat) (fd : Func) (nargs : Nat)
    (hfd : c.prog.funcs[h]? = some fd) (hreq : (c.req h).isEmpty = false)
    (hdef : ∀ j, j < fd.params.length - nargs → fd.params[nargs + j]? = some .inDefault) :
    (filledDefaults c h nargs).length = fd.params.length - nargs := by
  have hf : callSitesFillDefaults = true := by decide
  unfold filledDefaults
  simp only [hfd, hf, hreq, Bool.not_false, Bool.and_self, if_true]
  rw [filterMap_length_of_all (fun j => fd.params[nargs + j]? == some ParamMode.inDefault)
        (fun j => defaultItemOf fd (nargs + j))]
  · simp
  · intro j hj
    have := hdef j (by simpa using hj)
    simp [this]

/-- **alignment**: at every call the type checker accepts (omitted parameters all have defaults) of a function
    that receives parameters for globals, the argument list is as long as the callee's parameter list (also
    with the `#tt` tag of a trampoline target) and at every implicit position the argument is the identifier the
    parameter is declared under — including calls that leave out defaulted arguments, whose defaults are passed
    explicitly since fix 1d760f5. -/
theorem args_align (c : Ctx) (h : Nat) (fd : Func) (args : List SrcArg) (tt : Bool)
    (hfd : c.prog.funcs[h]? = some fd) (hle : args.length ≤ fd.params.length)
    (hdef : ∀ j, j < fd.params.length - args.length → fd.params[args.length + j]? = some .inDefault)
    (hreq : (c.req h).isEmpty = false) (hvar : ∀ i ∈ c.req h, i.variant ≤ globalVariant) :
    (callArgList c h args ++ (if tt then ["#tt"] else [])).length = (paramList c h fd tt).length ∧
    ∀ j, j < (c.req h).length →
      ((callArgList c h args)[fd.params.length + j]?) =
        ((c.req h)[j]?).map (implicitParamBase c.prog) ∧
      ((paramList c h fd false)[fd.params.length + j]?) =
        ((c.req h)[j]?).map (implicitParamName c.prog) := by
  have hfl := filledDefaults_length c h fd args.length hfd hreq hdef
  have hpre : (args.map (srcArgName c.prog) ++ (filledDefaults c h args.length).map (filledText c)).length
      = fd.params.length := by
    simp only [List.length_append, List.length_map, hfl]; omega
  constructor
  · simp only [callArgList, paramList, List.length_append, List.length_map, userParamNames_length, hfl]
    cases tt <;> simp <;> omega
  · intro j hj
    constructor
    · unfold callArgList
      rw [List.getElem?_append_right (by rw [hpre]; omega)]
      rw [hpre]
      simp only [Nat.add_sub_cancel_left, List.getElem?_map]
      cases hget : (c.req h)[j]? with
      | none => rfl
      | some i =>
        have hi : i ∈ c.req h := List.mem_of_getElem? hget
        simp [implicit_base_eq_arg c.prog i (hvar i hi)]
    · unfold paramList
      simp only [Bool.false_eq_true, if_false, List.append_nil]
      rw [List.getElem?_append_right (by simp [userParamNames_length])]
      simp [userParamNames_length]

/-- a function that receives no globals keeps its defaults and its calls are emitted as written -/
theorem args_unchanged_without_implicit (c : Ctx) (h : Nat) (args : List SrcArg) (hreq : c.req h = []) :
    callArgList c h args = args.map (srcArgName c.prog) := by
  unfold callArgList filledDefaults
  cases c.prog.funcs[h]? <;> simp [hreq]

/-- regression guard for the former negation witness: `int f(int x = 1)` that needs a static, called as `f()`,
    is now emitted as `f(1, g_0)` against `f(int p_0, thread int& g_0)` (corpus line 1) -/
theorem args_aligned_with_defaults :
    let p : Program := { globals := [{ name := "g_0", storage := .Static, isConst := false, staticSampler := false, isObject := false }],
                         funcs := [{ name := "f_0", params := [.inDefault], items := [] }] }
    let c : Ctx := { prog := p, required := [[⟨globalVariant, 0⟩]] }
    callArgList c 0 [] = ["_", "g_0"] ∧ paramList c 0 ⟨"f_0", [.inDefault], [], none⟩ false = ["p_0", "&g_0"] := by
  decide

/-! ## exactly the functions that need them -/

/-- the intrinsic-function rows never produce the `Global` variant -/
theorem intrinsic_rows_not_global :
    (intrinsicImplicits.all fun r => r.2.all fun v => variantIndex v != globalVariant) = true := by decide

theorem lookup_mem {β : Type} : ∀ {l : List (String × β)} {k : String} {v : β}, l.lookup k = some v → (k, v) ∈ l := by
  intro l
  induction l with
  | nil => intro k v h; simp at h
  | cons e l ih =>
    intro k v h
    obtain ⟨a, b⟩ := e
    simp only [List.lookup_cons] at h
    split at h
    · rename_i hk
      have : k = a := by simpa using hk
      injection h with h
      simp [this, h]
    · exact List.mem_cons_of_mem _ (ih h)

theorem global_mem_implP {p : Program} {s : Sym} {g : Nat} (h : (⟨globalVariant, g⟩ : Implicit) ∈ implP p s) :
    s = .glob g ∧ ∃ gl, p.globals[g]? = some gl ∧ modeOf gl = some .parameter := by
  unfold implP implicitsOfSym at h
  cases s with
  | glob g' =>
    simp only at h
    cases hg : p.globals[g']? with
    | none => simp [hg] at h
    | some gl =>
      simp only [hg] at h
      cases hm : modeOf gl with
      | none => simp [hm] at h
      | some m =>
        cases m with
        | constant => simp [hm] at h
        | parameter =>
          simp only [hm, List.mem_singleton, Implicit.mk.injEq, true_and] at h
          subst h
          exact ⟨rfl, gl, hg, hm⟩
  | cb _ => simp at h
  | fn f =>
    simp only at h
    cases hf : p.funcs[f]? with
    | none => simp [hf] at h
    | some fd =>
      simp only [hf] at h
      cases hi : fd.intrinsic with
      | none => simp [hi] at h
      | some nm =>
        simp only [hi, List.mem_map] at h
        obtain ⟨v, hv, hveq⟩ := h
        exfalso
        cases hl : intrinsicImplicits.lookup nm with
        | none => simp [hl] at hv
        | some row =>
          simp only [hl, Option.getD_some] at hv
          have hrow := lookup_mem hl
          have hall := intrinsic_rows_not_global
          rw [List.all_eq_true] at hall
          have h1 := hall _ hrow
          rw [List.all_eq_true] at h1
          have h2 := h1 v hv
          have : variantIndex v = globalVariant := by
            injection hveq
          simp [this] at h2

/-- **threaded exactly (partial)**: a function has an implicit parameter for global `g` iff `g` is a
    threaded-mode (non-constant, non-intrinsic) global and the function needs it through the mentions the
    analysis records.  Partial: `t₀ = calculateLocal p` leaves out default-argument expressions and global
    initialisers (`default_arguments_not_analysed`, `global_initialisers_not_analysed`). -/
theorem threaded_exactly_partial (p : Program) {t₀ cl : Table} (hwf : WF t₀) {keys : List Sym}
    (hk : ∀ k, k ∈ keys ↔ k ∈ keysOf t₀) (hcl : recurse keys t₀ = .ok (some cl)) (f g : Nat) :
    (⟨globalVariant, g⟩ : Implicit) ∈ requiredP p cl f ↔
      (∃ gl, p.globals[g]? = some gl ∧ modeOf gl = some .parameter) ∧
      Needs (Mentions t₀) (.fn f) (.glob g) := by
  rw [mem_requiredP]
  constructor
  · rintro ⟨s, hs, hi⟩
    obtain ⟨rfl, hgl⟩ := global_mem_implP hi
    exact ⟨hgl, (close_is_reachability hwf hk hcl (.fn f) (.glob g)).1 hs⟩
  · rintro ⟨⟨gl, hg, hm⟩, hneeds⟩
    refine ⟨.glob g, (close_is_reachability hwf hk hcl (.fn f) (.glob g)).2 hneeds, ?_⟩
    simp [implP, implicitsOfSym, hg, hm]

/-! ## What "needs" means for a program, and the former counterexamples as regression guards -/

/-- every symbol an item mentions, wherever it sits -/
def Item.allSyms : Item → List Sym
  | .use _ g => [Sym.glob g]
  | .call _ f args => Sym.fn f :: args.filterMap fun (a : SrcArg) => a.map Sym.glob

/-- every mention of a symbol: in a function's body or default arguments, or in a global's initialiser.
    This is the property's own "needs" relation (the reading agreed after the fix batch: default arguments and
    initialisers count). -/
def allMentions (p : Program) (a b : Sym) : Prop :=
  match a with
  | .fn i => ∃ fd, p.funcs[i]? = some fd ∧ ∃ it ∈ fd.items, b ∈ Item.allSyms it
  | .glob i => ∃ gl, p.globals[i]? = some gl ∧ ∃ u ∈ gl.initUses, b = .glob u.2
  | .cb _ => False

/-- `int f_1(int p_0 = f_0())` with `f_0` reading a static, called by `f_2` (corpus line 2) -/
def witnessDefaultArg : Program :=
  { globals := [{ name := "g_0", storage := .Static, isConst := false, staticSampler := false, isObject := false }],
    funcs := [{ name := "f_0", params := [], items := [.use (.body [S "Return" 0]) 0] },
              { name := "f_1", params := [.inDefault], items := [.call (.defaultArg []) 0 []] },
              { name := "f_2", params := [], items := [.call (.body [S "Expression" 0]) 1 []] }] }

/-- since fix 1d760f5 default arguments are analysed: `f_1` and its caller receive `g_0`, and the call passes
    the default explicitly -/
theorem default_arguments_analysed :
    defaultArgumentsGathered = true ∧
    ∃ cl, (closeProgram witnessDefaultArg (keysOf (calculateLocal witnessDefaultArg))).toOption = some cl ∧
      (requiredOf witnessDefaultArg cl 2).toOption = some [⟨globalVariant, 0⟩] ∧
      (requiredOf witnessDefaultArg cl 1).toOption = some [⟨globalVariant, 0⟩] ∧
      callTexts ⟨witnessDefaultArg, [[⟨globalVariant, 0⟩], [⟨globalVariant, 0⟩], [⟨globalVariant, 0⟩]]⟩ 1 [] =
        ["f_1(g_0,g_0)", "f_0(g_0)"] := by
  refine ⟨by decide, [(.fn 0, [.glob 0]), (.fn 1, [.fn 0, .glob 0]), (.fn 2, [.fn 1, .fn 0, .glob 0]), (.glob 0, [])],
    by decide, by decide, by decide, by decide⟩

/-- `static int g_1 = 0 + g_0;` read by the entry point (corpus line 3) -/
def witnessGlobalInit : Program :=
  { globals := [{ name := "g_0", storage := .Static, isConst := false, staticSampler := false, isObject := false },
                { name := "g_1", storage := .Static, isConst := false, staticSampler := false, isObject := false,
                  initUses := [([], 0)] }],
    funcs := [{ name := "cs_main", params := [.in_], items := [.use (.body [S "Expression" 0]) 1] }] }

/-- since fix 2c8592f initialisers are analysed: the entry point requires `g_0` as well, so the kernel declares it -/
theorem global_initialisers_analysed :
    globalInitialisersGathered = true ∧
    ∃ cl, (closeProgram witnessGlobalInit (keysOf (calculateLocal witnessGlobalInit))).toOption = some cl ∧
      (requiredOf witnessGlobalInit cl 0).toOption = some [⟨globalVariant, 0⟩, ⟨globalVariant, 1⟩] := by
  refine ⟨by decide, [(.fn 0, [.glob 1, .glob 0]), (.glob 0, []), (.glob 1, [.glob 0])], by decide, by decide⟩

/-! ## Program level -/

/-- every function / global index an item or initialiser mentions exists -/
structure IndexClosed (p : Program) : Prop where
  uses : ∀ fd ∈ p.funcs, ∀ it ∈ fd.items, ∀ s ∈ Item.seenSyms p.globals it,
    match s with
    | .fn f => f < p.funcs.length
    | .glob g => g < p.globals.length
    | .cb _ => False
  inits : ∀ gl ∈ p.globals, ∀ u ∈ gl.initUses, u.2 < p.globals.length

theorem keysOf_calculateLocal (p : Program) : keysOf (calculateLocal p) =
    (List.range p.funcs.length).map Sym.fn ++ (List.range p.globals.length).map Sym.glob := by
  simp [calculateLocal, keysOf, List.map_append, List.map_map, Function.comp_def]

/-- **`calculate_local` produces a well-formed table** for every index-closed program: the hypothesis of the
    fixpoint theorems is what the real `calculate_local` establishes (one entry per function and global, sets
    are `HashSet`s) -/
theorem calculateLocal_wf (p : Program) (hp : IndexClosed p) : WF (calculateLocal p) := by
  have hmem : ∀ k x, x ∈ val (calculateLocal p) k → ∃ s, (k, s) ∈ calculateLocal p ∧ x ∈ s := by
    intro k x hx
    cases hl : (calculateLocal p).lookup k with
    | none => simp [val, hl] at hx
    | some s => exact ⟨s, mem_of_lookup hl, by simpa [val, hl] using hx⟩
  have hentry : ∀ k s, (k, s) ∈ calculateLocal p → s.Nodup ∧ ∀ x ∈ s, x ∈ keysOf (calculateLocal p) := by
    intro k s hks
    rw [keysOf_calculateLocal]
    simp only [calculateLocal, List.range_zero, List.map_nil, List.append_nil, List.mem_append, List.mem_map,
      List.mem_range, Prod.mk.injEq] at hks
    rcases hks with ⟨i, hi, rfl, rfl⟩ | ⟨i, hi, rfl, rfl⟩
    · refine ⟨nodup_extend List.nodup_nil, ?_⟩
      intro x hx
      have hfd : p.funcs.getD i ⟨"", [], [], none⟩ ∈ p.funcs := by
        rw [List.getD_eq_getElem?_getD, List.getElem?_eq_getElem hi]
        exact List.getElem_mem hi
      rcases mem_extend.1 hx with hx | hx
      · simp at hx
      · obtain ⟨it, hit, hxs⟩ := List.mem_flatMap.1 hx
        have := hp.uses _ hfd it hit x hxs
        cases x with
        | fn f => simp only [List.mem_append, List.mem_map, List.mem_range]; exact .inl ⟨f, this, rfl⟩
        | glob g => simp only [List.mem_append, List.mem_map, List.mem_range]; exact .inr ⟨g, this, rfl⟩
        | cb _ => exact absurd this (by simp)
    · split
      · refine ⟨nodup_extend List.nodup_nil, ?_⟩
        intro x hx
        have hgl : p.globals.getD i ⟨"", .Static, false, false, false, false, [], []⟩ ∈ p.globals := by
          rw [List.getD_eq_getElem?_getD, List.getElem?_eq_getElem hi]
          exact List.getElem_mem hi
        rcases mem_extend.1 hx with hx | hx
        · simp at hx
        · obtain ⟨u, hu, rfl⟩ := List.mem_map.1 hx
          have := hp.inits _ hgl u (List.mem_filter.1 hu).1
          simp only [List.mem_append, List.mem_map, List.mem_range]
          exact .inr ⟨u.2, this, rfl⟩
      · exact ⟨List.nodup_nil, by simp⟩
  constructor
  · intro k x hx
    obtain ⟨s, hks, hxs⟩ := hmem k x hx
    exact (hentry k s hks).2 x hxs
  · intro k
    cases hl : (calculateLocal p).lookup k with
    | none => simp [val, hl]
    | some s =>
      have : val (calculateLocal p) k = s := by simp [val, hl]
      rw [this]
      exact (hentry k s (mem_of_lookup hl)).1

/-! ### the local table records exactly the mentions (when every place is visited) -/

theorem lookup_map_fn (f : Nat → SymSet) (i : Nat) : ∀ (l : List Nat),
    (l.map fun j => (Sym.fn j, f j)).lookup (Sym.fn i) = if i ∈ l then some (f i) else none := by
  intro l
  induction l with
  | nil => rfl
  | cons a l ih =>
    simp only [List.map_cons, List.lookup_cons, List.mem_cons]
    by_cases h : i = a
    · subst h; simp
    · have : (Sym.fn i == Sym.fn a) = false := by simpa using h
      simp [this, ih, h]

theorem lookup_map_glob (f : Nat → SymSet) (i : Nat) : ∀ (l : List Nat),
    (l.map fun j => (Sym.glob j, f j)).lookup (Sym.glob i) = if i ∈ l then some (f i) else none := by
  intro l
  induction l with
  | nil => rfl
  | cons a l ih =>
    simp only [List.map_cons, List.lookup_cons, List.mem_cons]
    by_cases h : i = a
    · subst h; simp
    · have : (Sym.glob i == Sym.glob a) = false := by simpa using h
      simp [this, ih, h]

theorem lookup_map_fn_glob (f : Nat → SymSet) (i : Nat) : ∀ (l : List Nat),
    (l.map fun j => (Sym.fn j, f j)).lookup (Sym.glob i) = none := by
  intro l
  induction l with
  | nil => rfl
  | cons a l ih =>
    have : (Sym.glob i == Sym.fn a) = false := by simp
    simp only [List.map_cons, List.lookup_cons, this]
    exact ih

theorem val_calculateLocal_fn (p : Program) {i : Nat} (hi : i < p.funcs.length) :
    val (calculateLocal p) (.fn i) = localOfFunc p.globals (p.funcs.getD i ⟨"", [], [], none⟩) := by
  unfold val calculateLocal
  rw [List.lookup_append, List.lookup_append, lookup_map_fn]
  simp [hi]

theorem val_calculateLocal_glob (p : Program) {i : Nat} (hi : i < p.globals.length) :
    val (calculateLocal p) (.glob i) =
      if globalInitialisersGathered then
        extend [] (((p.globals.getD i ⟨"", .Static, false, false, false, false, [], []⟩).initUses.filter
          fun u => u.1.all Slot.descended && globalSeen p.globals u.2).map fun u => Sym.glob u.2)
      else [] := by
  unfold val calculateLocal
  rw [List.lookup_append, List.lookup_append, lookup_map_fn_glob, lookup_map_glob]
  simp [hi]

/-- every mention sits at a place the current gather_usage_* visits (for the generator's positions this is
    `all_positions_descended`) -/
structure AllSeen (p : Program) : Prop where
  items : ∀ fd ∈ p.funcs, ∀ it ∈ fd.items, it.place.seen = true
  reads : ∀ gl ∈ p.globals, gl.readPath.all Slot.descended = true
  inits : ∀ gl ∈ p.globals, ∀ u ∈ gl.initUses, u.1.all Slot.descended = true

theorem globalSeen_of_allSeen {p : Program} (hs : AllSeen p) (g : Nat) : globalSeen p.globals g = true := by
  have hr : recordsGlobals = true := by decide
  unfold globalSeen
  rw [hr]
  cases hg : p.globals[g]? with
  | none => rfl
  | some gl => simpa using hs.reads gl (List.mem_of_getElem? hg)

theorem seenSyms_eq_allSyms {p : Program} (hs : AllSeen p) {fd : Func} (hfd : fd ∈ p.funcs) {it : Item}
    (hit : it ∈ fd.items) : Item.seenSyms p.globals it = Item.allSyms it := by
  have hc : recordsCalls = true := by decide
  have ha : callArgSlot.descended = true := by decide
  have hp := hs.items fd hfd it hit
  cases it with
  | use pl g =>
    simp only [Item.place] at hp
    simp [Item.seenSyms, Item.allSyms, hp, globalSeen_of_allSeen hs]
  | call pl f args =>
    simp only [Item.place] at hp
    simp only [Item.seenSyms, Item.allSyms, hp, hc, ha, if_true, List.singleton_append, List.cons.injEq, true_and]
    congr 1
    funext a
    cases a with
    | none => rfl
    | some g => simp [globalSeen_of_allSeen hs]

/-- the local table of `calculate_local` is the mentions relation -/
theorem mentions_calculateLocal (p : Program) (hs : AllSeen p) (a b : Sym) :
    Mentions (calculateLocal p) a b ↔ allMentions p a b := by
  have hgi : globalInitialisersGathered = true := by decide
  unfold Mentions
  cases a with
  | fn i =>
    by_cases hi : i < p.funcs.length
    · have hget : p.funcs[i]? = some (p.funcs.getD i ⟨"", [], [], none⟩) := by
        rw [List.getD_eq_getElem?_getD, List.getElem?_eq_getElem hi]; rfl
      have hfd : p.funcs.getD i ⟨"", [], [], none⟩ ∈ p.funcs := List.mem_of_getElem? hget
      rw [val_calculateLocal_fn p hi]
      unfold localOfFunc
      simp only [mem_extend, List.not_mem_nil, false_or, List.mem_flatMap, allMentions]
      constructor
      · rintro ⟨it, hit, hb⟩
        exact ⟨_, hget, it, hit, by rwa [seenSyms_eq_allSyms hs hfd hit] at hb⟩
      · rintro ⟨fd, hfd', it, hit, hb⟩
        have : fd = p.funcs.getD i ⟨"", [], [], none⟩ := by rw [hget] at hfd'; exact (Option.some.inj hfd').symm
        subst this
        exact ⟨it, hit, by rwa [seenSyms_eq_allSyms hs hfd hit]⟩
    · have hk : Sym.fn i ∉ keysOf (calculateLocal p) := by
        rw [keysOf_calculateLocal]; simp; omega
      rw [val_of_not_mem hk]
      simp only [List.not_mem_nil, allMentions, false_iff]
      rintro ⟨fd, hfd, _⟩
      have := List.getElem?_eq_none (Nat.le_of_not_lt hi) ▸ hfd
      exact absurd this (by simp)
  | glob i =>
    by_cases hi : i < p.globals.length
    · have hget : p.globals[i]? = some (p.globals.getD i ⟨"", .Static, false, false, false, false, [], []⟩) := by
        rw [List.getD_eq_getElem?_getD, List.getElem?_eq_getElem hi]; rfl
      have hgl := List.mem_of_getElem? hget
      rw [val_calculateLocal_glob p hi, hgi]
      simp only [if_true, mem_extend, List.not_mem_nil, false_or, List.mem_map, List.mem_filter, allMentions]
      constructor
      · rintro ⟨u, ⟨hu, _⟩, rfl⟩
        exact ⟨_, hget, u, hu, rfl⟩
      · rintro ⟨gl, hgl', u, hu, rfl⟩
        have : gl = p.globals.getD i ⟨"", .Static, false, false, false, false, [], []⟩ := by
          rw [hget] at hgl'; exact (Option.some.inj hgl').symm
        subst this
        exact ⟨u, ⟨hu, by simp [hs.inits _ hgl u hu, globalSeen_of_allSeen hs]⟩, rfl⟩
    · have hk : Sym.glob i ∉ keysOf (calculateLocal p) := by
        rw [keysOf_calculateLocal]; simp; omega
      rw [val_of_not_mem hk]
      simp only [List.not_mem_nil, allMentions, false_iff]
      rintro ⟨gl, hgl, _⟩
      have := List.getElem?_eq_none (Nat.le_of_not_lt hi) ▸ hgl
      exact absurd this (by simp)
  | cb i =>
    have hk : Sym.cb i ∉ keysOf (calculateLocal p) := by
      rw [keysOf_calculateLocal]; simp
    rw [val_of_not_mem hk]
    simp [allMentions]

theorem Reach.congr {α : Type} {R S : α → α → Prop} (h : ∀ a b, R a b ↔ S a b) {a b : α} (hr : Reach R a b) :
    Reach S a b := by
  induction hr with
  | refl => exact .refl _
  | tail _ r ih => exact .tail ih ((h _ _).1 r)

theorem Needs.congr {α : Type} {R S : α → α → Prop} (h : ∀ a b, R a b ↔ S a b) (a b : α) :
    Needs R a b ↔ Needs S a b := by
  constructor
  · rintro ⟨x, hx, hr⟩; exact ⟨x, Reach.congr h hx, (h _ _).1 hr⟩
  · rintro ⟨x, hx, hr⟩; exact ⟨x, Reach.congr (fun a b => (h a b).symm) hx, (h _ _).2 hr⟩

/-- for every index-closed program the analysis returns a closure table (no panic, no fuel exhaustion) -/
theorem closeProgram_ok (p : Program) (hp : IndexClosed p) :
    ∃ cl, closeProgram p (keysOf (calculateLocal p)) = .ok cl := by
  obtain ⟨t', ht⟩ := recurse_terminates (calculateLocal_wf p hp) (keys := keysOf (calculateLocal p)) (fun _ hk => hk)
  exact ⟨t', by simp [closeProgram, ht]⟩

/-- `threaded_exactly_partial` at program level -/
theorem threaded_exactly_program_partial (p : Program) (hp : IndexClosed p) {cl : Table}
    (hcl : closeProgram p (keysOf (calculateLocal p)) = .ok cl) (f g : Nat) :
    (⟨globalVariant, g⟩ : Implicit) ∈ requiredP p cl f ↔
      (∃ gl, p.globals[g]? = some gl ∧ modeOf gl = some .parameter) ∧
      Needs (Mentions (calculateLocal p)) (.fn f) (.glob g) := by
  have hrec : recurse (keysOf (calculateLocal p)) (calculateLocal p) = .ok (some cl) := by
    unfold closeProgram at hcl
    split at hcl
    · exact absurd hcl (by simp)
    · exact absurd hcl (by simp)
    · rename_i t ht
      injection hcl with hcl
      rw [ht, hcl]
  exact threaded_exactly_partial p (calculateLocal_wf p hp) (fun _ => Iff.rfl) hrec f g

/-- **threaded exactly**: for every index-closed program whose mentions all sit at visited places, a function
    has an implicit parameter for global `g` iff `g` is a threaded-mode global and the function needs it — where
    "needs" is reachability through *all* mentions: bodies, default arguments and global initialisers.  (Before
    the fixes 2c8592f / 1d760f5 only the `_partial` form over the recorded mentions held.) -/
theorem threaded_exactly (p : Program) (hp : IndexClosed p) (hs : AllSeen p) {cl : Table}
    (hcl : closeProgram p (keysOf (calculateLocal p)) = .ok cl) (f g : Nat) :
    (⟨globalVariant, g⟩ : Implicit) ∈ requiredP p cl f ↔
      (∃ gl, p.globals[g]? = some gl ∧ modeOf gl = some .parameter) ∧
      Needs (allMentions p) (.fn f) (.glob g) := by
  rw [threaded_exactly_program_partial p hp hcl f g, Needs.congr (mentions_calculateLocal p hs)]

/-! ## Non-vacuity -/

/-- a diamond with an unused function: `f3 → {f1, f2} → f0 → g0`, `f2 → g1`, `f4` alone -/
def exampleTable : Table :=
  [(.fn 0, [.glob 0]), (.fn 1, [.fn 0]), (.fn 2, [.fn 0, .glob 1]), (.fn 3, [.fn 1, .fn 2]), (.fn 4, []),
   (.glob 0, []), (.glob 1, [])]

example : WF exampleTable := wf_of_check (by decide)
-- the hypothesis of the program-level theorems holds for the two witness programs
example : WF (calculateLocal witnessDefaultArg) := wf_of_check (by decide)
example : IndexClosed witnessGlobalInit := by
  constructor
  · intro fd hfd it hit s hs
    simp only [witnessGlobalInit, List.mem_singleton] at hfd
    subst hfd
    simp only [List.mem_singleton] at hit
    subst hit
    have : s = .glob 1 := by
      have h : Item.seenSyms witnessGlobalInit.globals (.use (.body [S "Expression" 0]) 1) = [.glob 1] := by decide
      rw [h] at hs; simpa using hs
    subst this
    decide
  · intro gl hgl u hu
    simp only [witnessGlobalInit, List.mem_cons, List.not_mem_nil, or_false] at hgl
    rcases hgl with rfl | rfl
    · simp at hu
    · simp only [List.mem_singleton] at hu; subst hu; decide
example : (recurse (keysOf exampleTable) exampleTable).toOption = some (some
    [(.fn 0, [.glob 0]), (.fn 1, [.fn 0, .glob 0]), (.fn 2, [.fn 0, .glob 1, .glob 0]),
     (.fn 3, [.fn 1, .fn 2, .fn 0, .glob 0, .glob 1]), (.fn 4, []), (.glob 0, []), (.glob 1, [])]) := by decide
-- a different key order reaches the same sets (in a different internal order)
example : (((recurse (keysOf exampleTable).reverse exampleTable).toOption.bind id).map
    (fun t => (val t (.fn 3)).length)) = some 5 := by decide
example : sortImplicit [⟨5, 3⟩, ⟨1, 0⟩, ⟨5, 0⟩, ⟨4, 0⟩, ⟨4, 0⟩] = [⟨1, 0⟩, ⟨4, 0⟩, ⟨4, 0⟩, ⟨5, 0⟩, ⟨5, 3⟩] := by decide

end RsslVerif.Thm.C02

#!/usr/bin/env python3
"""usage: record_seed.py <seed worktree> <seed id> <check result text> [caught_by text]
copies <worktree>/seed_out into seeded/<id>/ (without build output) and records the lead's verification in meta.json"""
import json, os, shutil, sys
wt, sid, result = sys.argv[1], sys.argv[2], sys.argv[3]
caught = sys.argv[4] if len(sys.argv) > 4 else ""
root = os.path.dirname(os.path.dirname(os.path.abspath(__file__)))
dst = os.path.join(root, "seeded", sid)
if os.path.exists(dst):
    sys.exit('refusing to overwrite ' + dst + ' - pick the next free id')
shutil.copytree(os.path.join(wt, "seed_out"), dst, ignore=shutil.ignore_patterns("target", "*.bak"))
mp = os.path.join(dst, "meta.json")
meta = json.load(open(mp))
meta["lead_verification"] = {
    "suite_with_change": "382 passed, 0 failed (re-run by lead with tools/verify_seed.sh)",
    "demo": "fails with the change, passes without it (re-run by lead)",
    "check_result": result,
}
if caught:
    meta["lead_verification"]["caught_by"] = caught
json.dump(meta, open(mp, "w"), indent=1)
print("recorded", sid)

//! C11.raw: generator of raw source files.  Dimensions (each chosen independently from the seed):
//! directive spelling (blanks / comments / line splices before and after `#`, after the name, trailing
//! comments, CRLF, missing final line end), condition leaves (decimal / hex / octal / u-suffixed literals,
//! object-like macros, undefined names, `defined` in six spellings, function-like macros with nested
//! calls, macros that expand to operators or parentheses, an empty macro), operators outside the
//! property's list and literal forms rssl does not have (expected: rejected, never mis-evaluated),
//! every kind of line inside (possibly skipped) groups: well-formed and malformed `#define/#undef/
//! #include/#pragma`, `#error`, unknown and non-identifier directive names, `#` alone, extra tokens after
//! `#else/#endif/#ifdef`, text rssl cannot lex, `#include` of text-only / conditional / guarded /
//! `#pragma once` / self-including / missing files, if-sections that cross an include boundary, API-level
//! defines, deep nesting.
use crate::util::*;

pub struct RawCase {
    pub defs: Vec<(String, String)>,
    pub files: Vec<(String, String)>,
}

/// (name, parameter list or "", body)
const PROLOGUE: &[(&str, &str, &str)] = &[
    ("ID", "(x)", "x"),
    ("NOTF", "(x)", "(!(x))"),
    ("AND2", "(a, b)", "((a) && (b))"),
    ("OR2", "(a,b)", "((a) || (b))"),
    ("LESS", "(a,b)", "((a) < (b))"),
    ("EQ2", "(a,b)", "(a == b)"),
    ("TWICE", "(x)", "AND2(x, x)"),
    ("Z", "()", "0"),
    ("K", "( )", "1"),
    ("EQ", "", "=="),
    ("AND", "", "&&"),
    ("OR", "", "||"),
    ("NOT", "", "!"),
    ("LP", "", "("),
    ("RP", "", ")"),
    ("LT", "", "<"),
    ("LE", "", "<="),
    ("GE", "", ">="),
    ("E", "", ""),
    ("ONE", "", "1"),
    ("PAR", "", "(1 || 0)"),
    ("ALIAS", "", "A"),
];

const VALUE_NAMES: &[&str] = &["A", "B", "C"];
const VALUE_BODIES: &[&str] = &["0", "1", "2", "5", "0x10", "010", "4294967296", "18446744073709551615", "1u", "(1 || 0)", "1 == 2", "! 0", "", "0 || 1", "B", "ID(1)"];
const LITS: &[&str] = &[
    "0", "1", "2", "5", "7", "4294967295", "4294967296", "9223372036854775808", "18446744073709551615", "1u", "0u", "1U",
    "0x0", "0x10", "0XfF", "0xFFFFFFFFFFFFFFFF", "00", "010", "0777", "true", "false",
];
/// C-valid leaves rssl does not have: the condition must be rejected
const UNSUP_LITS: &[&str] = &["1l", "1L", "1ul", "2UL", "1.0", "1e3", "'a'", "18446744073709551616", "4294967296u", "0x1FFFFFFFFFFFFFFFF"];
const UNSUP_BIN: &[&str] = &["+", "-", "*", "/", "%", "&", "|", "^", "<<", ">>"];

pub struct G<'a> {
    pub r: &'a mut Rng,
    pub kinds: &'a mut Hist,
    defined_fns: Vec<&'static str>,
    defined_ops: Vec<&'static str>,
    eol: &'static str,
    /// inside the arguments of a macro call (`defined` there is undefined behaviour: generated rarely)
    in_call: u32,
}

#[derive(Clone)]
enum E {
    Lit(String),
    Name(String),
    Defined(String, u8),
    Not(Box<E>),
    Bin(usize, Box<E>, Box<E>),
    Paren(Box<E>),
    Call(&'static str, Vec<E>),
    UnsupBin(&'static str, Box<E>, Box<E>),
    UnsupUnary(&'static str, Box<E>),
    Ternary(Box<E>, Box<E>, Box<E>),
}

/// operators with their C binding level (1 = loosest)
const OPS: &[(&str, u32, &str)] =
    &[("||", 1, "OR"), ("&&", 2, "AND"), ("==", 3, "EQ"), ("!=", 3, ""), ("<", 4, "LT"), ("<=", 4, "LE"), (">", 4, ""), (">=", 4, "GE")];

impl<'a> G<'a> {
    pub fn new(r: &'a mut Rng, kinds: &'a mut Hist) -> Self {
        G { r, kinds, defined_fns: Vec::new(), defined_ops: Vec::new(), eol: "\n", in_call: 0 }
    }

    fn ws(&mut self) -> String {
        match self.r.below(12) {
            0 => "\t".into(),
            1 => "  ".into(),
            2 => " /* c */ ".into(),
            3 => "/**/".into(),
            4 => format!(" \\{}", self.eol),
            5 => format!(" \\{} ", self.eol),
            // a comment over several lines whose text looks like directives (it is one blank in C)
            6 if self.r.chance(1, 4) => {
                self.kinds.add("spelling:multi-line-comment");
                format!(" /* m{e}#endif{e}#else l */ ", e = self.eol)
            }
            _ => " ".into(),
        }
    }

    fn opt_ws(&mut self) -> String {
        if self.r.chance(2, 3) { String::new() } else { self.ws() }
    }

    fn gen_expr(&mut self, depth: u32) -> E {
        if depth == 0 || self.r.chance(1, 5) {
            return match self.r.below(24) {
                0..=8 => E::Lit(self.r.pick(LITS).to_string()),
                9..=11 => E::Name(if self.r.chance(1, 4) { "U".to_string() } else { self.r.pick(VALUE_NAMES).to_string() }),
                12 => E::Name(self.r.pick(&["ONE", "PAR", "ALIAS", "U2"]).to_string()),
                13..=17 if self.in_call == 0 || self.r.chance(1, 12) => {
                    let n = match self.r.below(6) {
                        0 => "U".to_string(),
                        1 => self.r.pick(&["ID", "E", "Z", "EQ", "UNDEF_FN"]).to_string(),
                        _ => self.r.pick(VALUE_NAMES).to_string(),
                    };
                    E::Defined(n, if self.r.chance(1, 30) { 7 + self.r.below(4) as u8 } else { self.r.below(7) as u8 })
                }
                18..=20 if !self.defined_fns.is_empty() => {
                    let f = *self.r.pick(&["Z", "K"]);
                    if self.defined_fns.contains(&f) { E::Call(f, vec![]) } else { E::Lit("1".into()) }
                }
                21 if self.r.chance(1, 3) => E::Lit(self.r.pick(UNSUP_LITS).to_string()),
                _ => E::Lit(self.r.pick(LITS).to_string()),
            };
        }
        match self.r.below(40) {
            0..=2 => E::Not(Box::new(self.gen_expr(depth - 1))),
            3..=5 => E::Paren(Box::new(self.gen_expr(depth - 1))),
            6..=13 if !self.defined_fns.is_empty() => {
                let f = *self.r.pick(&self.defined_fns.clone());
                let n = PROLOGUE.iter().find(|p| p.0 == f).map(|p| p.1.matches(|c: char| c.is_ascii_alphabetic()).count()).unwrap_or(0);
                self.in_call += 1;
                let args = (0..n).map(|_| self.gen_expr(depth - 1)).collect();
                self.in_call -= 1;
                E::Call(f, args)
            }
            14 if self.r.chance(1, 2) => {
                E::UnsupBin(*self.r.pick(UNSUP_BIN), Box::new(self.gen_expr(depth - 1)), Box::new(self.gen_expr(depth - 1)))
            }
            15 if self.r.chance(1, 4) => E::UnsupUnary(*self.r.pick(&["-", "~", "+"]), Box::new(self.gen_expr(depth - 1))),
            16 if self.r.chance(1, 4) => {
                E::Ternary(Box::new(self.gen_expr(depth - 1)), Box::new(self.gen_expr(depth - 1)), Box::new(self.gen_expr(depth - 1)))
            }
            _ => E::Bin(self.r.below(OPS.len() as u64) as usize, Box::new(self.gen_expr(depth - 1)), Box::new(self.gen_expr(depth - 1))),
        }
    }

    fn print_expr(&mut self, e: &E, min_level: u32, toks: &mut Vec<String>) {
        match e {
            E::Lit(v) => toks.push(v.clone()),
            E::Name(n) => toks.push(n.clone()),
            E::Defined(n, form) => {
                toks.push(
                    match form {
                        0 => format!("defined {}", n),
                        1 => format!("defined({})", n),
                        2 => format!("defined ( {} )", n),
                        3 => format!("defined( {} )", n),
                        4 => format!("defined/**/{}", n),
                        5 => format!("defined\t({})", n),
                        6 => format!("defined \\{}{}", self.eol, n),
                        // malformed uses (the three error variants of `defined`)
                        7 => format!("defined({}, B)", n),
                        8 => "defined()".to_string(),
                        9 => format!("defined({}", n),
                        _ => "defined 3".to_string(),
                    },
                );
            }
            E::Not(x) => {
                self.kinds.add("op:!");
                toks.push(if self.defined_ops.contains(&"NOT") && self.r.chance(1, 8) { "NOT".into() } else { "!".into() });
                self.print_expr(x, 5, toks);
            }
            E::Paren(x) => {
                let m = self.defined_ops.contains(&"LP") && self.r.chance(1, 8);
                toks.push(if m { "LP".into() } else { "(".into() });
                self.print_expr(x, 0, toks);
                toks.push(if m && self.r.chance(1, 2) { "RP".into() } else { ")".into() });
            }
            E::Call(f, args) => {
                self.kinds.add("cond-call");
                toks.push(f.to_string());
                toks.push("(".into());
                for (i, a) in args.iter().enumerate() {
                    if i > 0 {
                        toks.push(",".into());
                    }
                    self.print_expr(a, 0, toks);
                }
                toks.push(")".into());
            }
            E::Bin(o, a, b) => {
                let (sp, lvl, mac) = OPS[*o];
                self.kinds.add(&format!("op:{}", sp));
                let wrap = lvl < min_level;
                if wrap {
                    toks.push("(".into());
                }
                self.print_expr(a, lvl, toks);
                if !mac.is_empty() && self.defined_ops.contains(&mac) && self.r.chance(1, 8) {
                    self.kinds.add("cond-operator-macro");
                    toks.push(mac.into());
                } else {
                    toks.push(sp.into());
                }
                self.print_expr(b, lvl + 1, toks);
                if wrap {
                    toks.push(")".into());
                }
            }
            E::UnsupBin(o, a, b) => {
                self.kinds.add("cond-unsupported-operator");
                toks.push("(".into());
                self.print_expr(a, 5, toks);
                toks.push(o.to_string());
                self.print_expr(b, 5, toks);
                toks.push(")".into());
            }
            E::UnsupUnary(o, a) => {
                self.kinds.add("cond-unsupported-operator");
                toks.push(o.to_string());
                self.print_expr(a, 5, toks);
            }
            E::Ternary(c, a, b) => {
                self.kinds.add("cond-unsupported-operator");
                toks.push("(".into());
                self.print_expr(c, 2, toks);
                toks.push("?".into());
                self.print_expr(a, 1, toks);
                toks.push(":".into());
                self.print_expr(b, 1, toks);
                toks.push(")".into());
            }
        }
    }

    /// condition text: tokens joined with blanks / comments / splices, or glued where that is safe
    pub fn cond_text(&mut self, depth: u32) -> String {
        if self.r.chance(1, 4) {
            return self.r.pick(&["0", "1"]).to_string();
        }
        let e = self.gen_expr(depth);
        let mut toks = Vec::new();
        self.print_expr(&e, 0, &mut toks);
        if self.defined_ops.contains(&"E") && self.r.chance(1, 10) && !toks.is_empty() {
            let i = self.r.below(toks.len() as u64 + 1) as usize;
            toks.insert(i, "E".into());
            self.kinds.add("cond-empty-macro");
        }
        if self.r.chance(1, 25) && !toks.is_empty() {
            // a malformed stream: drop / duplicate / replace one token
            let i = self.r.below(toks.len() as u64) as usize;
            match self.r.below(3) {
                0 => {
                    toks.remove(i);
                }
                1 => {
                    let t = toks[i].clone();
                    toks.insert(i, t);
                }
                _ => toks[i] = self.r.pick(&["+", "=", "(", ")", "||", "!", ","]).to_string(),
            }
            self.kinds.add("cond-mutated");
        }
        let glue = self.r.chance(1, 3);
        let mut s = String::new();
        for (i, t) in toks.iter().enumerate() {
            if i > 0 {
                let prev = &toks[i - 1];
                let pw = prev.chars().last().map(|c| c.is_ascii_alphanumeric() || c == '_' || c == '\'').unwrap_or(false);
                let tw = t.chars().next().map(|c| c.is_ascii_alphanumeric() || c == '_' || c == '\'').unwrap_or(false);
                let brackets = |x: &str| x == "(" || x == ")" || x == ",";
                let can_glue = pw != tw || brackets(prev) || brackets(t);
                if glue && can_glue && self.r.chance(2, 3) {
                    // nothing
                } else if self.r.chance(1, 12) {
                    s.push_str(&self.ws());
                } else {
                    s.push(' ');
                }
            }
            s.push_str(t);
        }
        s
    }

    /// `#name args` with random spelling
    pub fn directive(&mut self, name: &str, args: &str) -> String {
        let lead_ml = format!("/* a{e} #if 1{e} */ ", e = self.eol);
        let trail_ml = format!(" /* t{e}#else{e}*/", e = self.eol);
        let trail_splice = format!(" // c \\{e}#endif", e = self.eol);
        let lead = match self.r.below(40) {
            0..=3 => " ",
            4..=7 => "\t",
            8..=11 => "  ",
            12..=15 => "/* c */",
            16..=19 => " /**/ ",
            // comments over several lines, with text that looks like directives
            20 => {
                self.kinds.add("spelling:multi-line-comment");
                lead_ml.as_str()
            }
            _ => "",
        };
        let mid = match self.r.below(10) {
            0 => " ".to_string(),
            1 => "\t".to_string(),
            2 => "/**/".to_string(),
            3 => format!(" \\{}", self.eol),
            _ => String::new(),
        };
        let trail = match self.r.below(40) {
            0..=3 => " ",
            4..=7 => " // c",
            8..=11 => " /* c */",
            12..=15 => "\t",
            16..=19 => "//",
            20 => {
                self.kinds.add("spelling:multi-line-comment");
                trail_ml.as_str()
            }
            21 => {
                self.kinds.add("spelling:spliced-line-comment");
                trail_splice.as_str()
            }
            _ => "",
        };
        let sep = if args.is_empty() {
            String::new()
        } else {
            match self.r.below(8) {
                0 => "\t".to_string(),
                1 => " /* c */ ".to_string(),
                2 => format!(" \\{}", self.eol),
                3 => "  ".to_string(),
                _ => " ".to_string(),
            }
        };
        format!("{}#{}{}{}{}{}{}", lead, mid, name, sep, args, trail, self.eol)
    }

    fn text_line(&mut self, i: usize) -> String {
        let mut parts: Vec<String> = vec![format!("t{}", i)];
        let n = self.r.below(5);
        for _ in 0..n {
            let p = match self.r.below(16) {
                0..=4 => self.r.pick(&["A", "B", "C", "U", "E"]).to_string(),
                5 => self.r.pick(&["1", "0x10", "42", "1u"]).to_string(),
                6 | 7 if !self.defined_fns.is_empty() => {
                    let f = *self.r.pick(&self.defined_fns.clone());
                    match f {
                        "Z" | "K" => format!("{}()", f),
                        "ID" | "NOTF" | "TWICE" => format!("{}({})", f, self.r.pick(&["A", "1", "B + 1", "(C, 2)", "ID(A)"])),
                        _ => format!("{}({}, {})", f, self.r.pick(&["A", "1", "ID(B)"]), self.r.pick(&["2", "C", "(1, 2)"])),
                    }
                }
                8 => self.r.pick(&["+", "-", "*", ";", "{", "}", "[", "]", ".", "?", ":", "=", "<", ">", "<=", "<<", "->", "::", "@", "&&", "!", "#", "# define A 3", "# endif", "##", "#if 0"]).to_string(),
                9 => "\"s t\"".to_string(),
                10 => "defined".to_string(),
                11 => "ONE PAR".to_string(),
                12 if self.r.chance(1, 6) && !self.defined_fns.is_empty() => {
                    // malformed invocations in text (errors of flush_normal)
                    let f = *self.r.pick(&self.defined_fns.clone());
                    format!("{}{}", f, self.r.pick(&["(1", "(1, 2, 3, 4)", "((1)", "(,"]))
                }
                _ => format!("w{}", self.r.below(4)),
            };
            parts.push(p);
        }
        let lead = if self.r.chance(1, 8) { "  " } else { "" };
        let trail = match self.r.below(12) {
            0 => " // c",
            1 => " /* c */",
            2 => " ",
            _ => "",
        };
        format!("{}{}{}{}", lead, parts.join(" "), trail, self.eol)
    }

    /// lines that are only harmless (in C) inside a skipped group
    fn hostile(&mut self) -> (String, i32) {
        const PLAIN: &[&str] = &[
            "$", "`", "'a'", "18446744073709551616 x", "0x", "12ab", "1e", "x $ y",
            "#define", "#define 3", "#define F(", "#define F(1) x", "#define F(a,) x", "#undef", "#undef 3 4", "#undef A B",
            "#include", "#include nonsense", "#include <a", "#include \"missing.h\"", "#include <missing.h>", "#include \"main.rssl\"",
            "#pragma", "#pragma 3", "#pragma bogus", "#error hi", "#warning x", "#line 3", "#3", "#\"x\"", "# +", "#while", "#true",
            "#frob 1 2", "#", "# // c", "#define A 9", "#undef B", "#define ID(x) 0", "#pragma once",
            "#else junk", "#endif junk", "#elif", "#elif +", "#elif 1 +",
            "it's", "\"abc", "#include \"a",
        ];
        const OPENERS: &[&str] = &["#ifdef", "#ifndef 3 4", "#ifdef A B", "#if +", "#if", "#if 1 +", "#if $", "#ifdef 3"];
        if self.r.chance(1, 6) {
            let o = *self.r.pick(OPENERS);
            self.kinds.add(&format!("hostile:{}", o));
            (format!("{}{}", o, self.eol), 1)
        } else {
            let p = *self.r.pick(PLAIN);
            self.kinds.add(&format!("hostile:{}", p));
            let d = if p.starts_with("#endif") { -1 } else { 0 };
            (format!("{}{}", p, self.eol), d)
        }
    }

    fn header(&mut self, kind: u64, idx: usize) -> (String, String) {
        let name = format!("h{}.h", idx);
        let e = self.eol;
        let body = match kind {
            0 => format!("inc{} A B{}", idx, e),
            1 => format!("#ifdef A{e}hA{i} A{e}#else{e}hnA{i}{e}#endif{e}#define B 2{e}", e = e, i = idx),
            2 => format!("#ifndef H{i}_G{e}#define H{i}_G{e}g{i} A{e}#endif{e}", e = e, i = idx),
            3 => format!("#pragma once{e}o{i} B{e}", e = e, i = idx),
            4 => format!("#if A{e}# if B{e}hAB{e}# elif 1{e}hA{e}# endif{e}#elif defined(C){e}hC{e}#else{e}hnone{e}#endif{e}", e = e),
            // crossing shapes
            5 => format!("#if 1{e}open{i}{e}", e = e, i = idx),
            6 => format!("close{i}{e}#endif{e}", e = e, i = idx),
            7 => format!("#else{e}flip{i}{e}", e = e, i = idx),
            8 => format!("#elif 1{e}flip{i}{e}", e = e, i = idx),
            9 => format!("#ifndef R_G{e}#define R_G{e}r1{e}#include \"{n}\"{e}r2{e}#endif{e}", e = e, n = name),
            10 => format!("#if 0{e}dead{i}{e}", e = e, i = idx),
            // `#pragma once` in a group that is not selected must not mark the file
            12 => format!("#if 0{e}#pragma once{e}#pragma bogus{e}#endif{e}p{i} A{e}", e = e, i = idx),
            _ => String::new(),
        };
        (name, body)
    }

    pub fn case(&mut self) -> RawCase {
        self.eol = if self.r.chance(1, 6) { "\r\n" } else { "\n" };
        let e = self.eol;
        let mut files: Vec<(String, String)> = Vec::new();
        let mut defs: Vec<(String, String)> = Vec::new();
        let mut main = String::new();
        self.defined_fns.clear();
        self.defined_ops.clear();
        // API-level defines
        if self.r.chance(1, 4) {
            let n = 1 + self.r.below(3);
            for _ in 0..n {
                let d = *self.r.pick(&[
                    ("A", "1"), ("B", "0"), ("C", "7"), ("E", ""), ("A", "0x10"), ("ID(x)", "x"), ("PAR", "(1 || 0)"), ("U2", "A"),
                    ("A", "1"), ("B", "1"), ("C", "0"), ("3", "1"), ("A", "$"), ("F(", "1"), ("A B", "C"), ("A", "1\\n"),
                ]);
                defs.push((d.0.to_string(), d.1.to_string()));
                self.kinds.add("api-define");
            }
        }
        // prologue
        for (n, params, body) in PROLOGUE {
            if self.r.chance(3, 5) {
                main.push_str(&self.directive("define", &format!("{}{} {}", n, params, body)));
                if params.is_empty() {
                    self.defined_ops.push(n);
                } else if *n != "TWICE" || self.defined_fns.contains(&"AND2") {
                    self.defined_fns.push(n);
                }
            }
        }
        let len = 1 + self.r.below(28) as usize;
        let well_nested = self.r.chance(5, 6);
        let mut depth: i32 = 0;
        let mut i = 0usize;
        while i < len {
            i += 1;
            let remaining = (len - i) as i32;
            let k = if well_nested && depth > remaining { 1000 } else { self.r.below(100) };
            match k {
                0..=13 => {
                    depth += 1;
                    let c = self.cond_text(3);
                    main.push_str(&self.directive("if", &c));
                    self.kinds.add("line:if");
                }
                14..=20 => {
                    depth += 1;
                    let n = if self.r.chance(1, 5) { "U" } else { *self.r.pick(&["A", "B", "C", "ID", "E"]) };
                    let name = if self.r.chance(1, 2) { "ifdef" } else { "ifndef" };
                    main.push_str(&self.directive(name, n));
                    self.kinds.add("line:ifdef");
                }
                21..=28 if depth > 0 || !well_nested => {
                    let c = self.cond_text(2);
                    main.push_str(&self.directive("elif", &c));
                    self.kinds.add("line:elif");
                }
                29..=35 if depth > 0 || !well_nested => {
                    main.push_str(&self.directive("else", ""));
                    self.kinds.add("line:else");
                }
                36..=45 if depth > 0 || !well_nested => {
                    depth = (depth - 1).max(0);
                    main.push_str(&self.directive("endif", ""));
                    self.kinds.add("line:endif");
                }
                1000 => {
                    depth -= 1;
                    main.push_str(&self.directive("endif", ""));
                    self.kinds.add("line:endif");
                }
                46..=54 => {
                    let n = if self.r.chance(1, 6) { "U" } else { *self.r.pick(VALUE_NAMES) };
                    let b = *self.r.pick(VALUE_BODIES);
                    main.push_str(&self.directive("define", &format!("{} {}", n, b)));
                    self.kinds.add("line:define");
                }
                55..=56 => {
                    let d = *self.r.pick(&["ID(x) (x)", "Z() 1", "NEWF(a, b) a b", "ID 5", "AND2(a,b) 0"]);
                    main.push_str(&self.directive("define", d));
                    self.kinds.add("line:define-fn");
                }
                57..=60 => {
                    let n = *self.r.pick(&["A", "B", "C", "U", "E", "ID", "ONE"]);
                    main.push_str(&self.directive("undef", n));
                    if n == "ID" {
                        self.defined_fns.retain(|f| *f != "ID");
                    }
                    if n == "E" {
                        self.defined_ops.retain(|f| *f != "E");
                    }
                    self.kinds.add("line:undef");
                }
                61..=67 => {
                    let kind = match self.r.below(20) {
                        0..=3 => 0,
                        4..=6 => 1,
                        7..=9 => 2,
                        10..=11 => 3,
                        12..=13 => 4,
                        14 => 5,
                        15 => 6,
                        16 => 7,
                        17 => if self.r.chance(1, 2) { 8 } else { 10 },
                        18 => 9,
                        19 if self.r.chance(1, 2) => 12,
                        _ => 11,
                    };
                    self.kinds.add(&format!("include-kind:{}", kind));
                    if kind == 11 {
                        main.push_str(&self.directive("include", "\"missing.h\""));
                    } else {
                        let (name, body) = self.header(kind, files.len());
                        let twice = matches!(kind, 2 | 3 | 12) && self.r.chance(2, 3);
                        let spelled = if self.r.chance(1, 3) { format!("<{}>", name) } else { format!("\"{}\"", name) };
                        main.push_str(&self.directive("include", &spelled));
                        if twice {
                            main.push_str(&self.text_line(i));
                            main.push_str(&self.directive("include", &spelled));
                        }
                        if kind == 5 && self.r.chance(2, 3) {
                            // the includer closes what the header opened
                            main.push_str(&self.text_line(i));
                            main.push_str(&self.directive("endif", ""));
                        }
                        if kind == 10 && self.r.chance(2, 3) {
                            main.push_str(&self.directive("endif", ""));
                        }
                        files.push((name, body));
                    }
                }
                68..=70 => {
                    let p = *self.r.pick(&["once", "warning(disable : 4000)", "warning", "bogus_pragma", "once extra"]);
                    main.push_str(&self.directive("pragma", p));
                    self.kinds.add("line:pragma");
                }
                71..=72 => {
                    let l = match self.r.below(4) {
                        0 => self.directive("frobnicate", "1"),
                        1 => self.directive("error", "stop here"),
                        2 => self.directive("", ""),
                        _ => self.directive("else", "junk"),
                    };
                    main.push_str(&l);
                    self.kinds.add("line:odd-directive");
                }
                73..=82 => {
                    // a hostile line, half of the time inside a group of its own that C skips
                    let (h, dd) = self.hostile();
                    match self.r.below(6) {
                        0 | 1 => {
                            main.push_str(&format!("#if 0{e}{h}", e = e, h = h));
                            for _ in 0..dd.max(0) {
                                main.push_str(&format!("#endif{}", e));
                            }
                            if dd < 0 {
                                // the hostile `#endif junk` closed our group: nothing to close
                            } else {
                                main.push_str(&format!("#endif{}", e));
                            }
                            self.kinds.add("hostile-in:if0");
                        }
                        2 => {
                            main.push_str(&format!("#if 1{e}#else{e}{h}", e = e, h = h));
                            for _ in 0..dd.max(0) {
                                main.push_str(&format!("#endif{}", e));
                            }
                            if dd >= 0 {
                                main.push_str(&format!("#endif{}", e));
                            }
                            self.kinds.add("hostile-in:else");
                        }
                        3 => {
                            // nested two deep, so that a conditional hostile line is not the skipping level itself
                            main.push_str(&format!("#if 0{e}#if 1{e}{h}", e = e, h = h));
                            for _ in 0..dd.max(0) {
                                main.push_str(&format!("#endif{}", e));
                            }
                            if dd >= 0 {
                                main.push_str(&format!("#endif{}", e));
                            }
                            main.push_str(&format!("#endif{}", e));
                            self.kinds.add("hostile-in:nested");
                        }
                        _ => {
                            main.push_str(&h);
                            depth += dd;
                            depth = depth.max(0);
                            self.kinds.add("hostile-in:flow");
                        }
                    }
                }
                83 if self.r.chance(1, 3) => {
                    // an invocation whose arguments span lines
                    if self.defined_fns.contains(&"AND2") {
                        main.push_str(&format!("m{} AND2(A,{}   B) tail{}", i, e, e));
                        self.kinds.add("line:multiline-call");
                    }
                }
                _ => {
                    main.push_str(&self.text_line(i));
                    self.kinds.add("line:text");
                }
            }
        }
        if well_nested {
            for _ in 0..depth.max(0) {
                main.push_str(&self.directive("endif", ""));
            }
        }
        // probe line: which macros survive, and what they expand to
        let mut probe = "probe A B C U E ID(7) ALIAS defined".to_string();
        if self.r.chance(1, 8) {
            // no line end at the end of the file
        } else {
            probe.push_str(e);
        }
        main.push_str(&probe);
        self.kinds.add(if well_nested { "raw-nested" } else { "raw-wild" });
        files.insert(0, ("main.rssl".to_string(), main));
        RawCase { defs, files }
    }

    /// `#if <cond> / T / #else / F / #endif` after a prologue: the condition stream
    pub fn cond_case(&mut self) -> RawCase {
        self.eol = "\n";
        let mut main = String::new();
        self.defined_fns.clear();
        self.defined_ops.clear();
        let mut defs = Vec::new();
        if self.r.chance(1, 6) {
            let d = *self.r.pick(&[("A", "1"), ("B", "0"), ("C", "0x10"), ("ID(x)", "x"), ("E", "")]);
            defs.push((d.0.to_string(), d.1.to_string()));
        }
        for (n, params, body) in PROLOGUE {
            if self.r.chance(2, 3) {
                main.push_str(&format!("#define {}{} {}\n", n, params, body));
                if params.is_empty() {
                    self.defined_ops.push(n);
                } else if *n != "TWICE" || self.defined_fns.contains(&"AND2") {
                    self.defined_fns.push(n);
                }
            }
        }
        for n in VALUE_NAMES {
            if self.r.chance(2, 3) {
                let b = if self.r.chance(2, 3) { *self.r.pick(&VALUE_BODIES[..9]) } else { *self.r.pick(VALUE_BODIES) };
                main.push_str(&format!("#define {} {}\n", n, b));
            }
        }
        let depth = 1 + self.r.below(5) as u32;
        let c = self.cond_text(depth);
        main.push_str(&self.directive("if", &c));
        main.push_str("T\n#else\nF\n#endif\n");
        self.kinds.add("raw-cond");
        RawCase { defs, files: vec![("main.rssl".to_string(), main)] }
    }

    /// a program of which (almost always) nothing at all is selected: the output of the preprocessor is empty or
    /// blank only, and the parser must be handed `Eof` and nothing else.  (Every other generator ends with a
    /// probe line, so their output is never empty.)
    pub fn empty_case(&mut self) -> RawCase {
        let k = self.r.below(12);
        self.kinds.add(&format!("nothing-selected-shape:{}", k));
        let inner = {
            let c = if self.r.chance(1, 2) { self.cond_case() } else { self.case() };
            c
        };
        self.eol = "\n";
        let body = inner.files[0].1.clone();
        let body_nl = if body.ends_with('\n') || body.is_empty() { body.clone() } else { format!("{}\n", body) };
        let mut files: Vec<(String, String)> = Vec::new();
        let main = match k {
            0 => String::new(),
            1 => "\n".to_string(),
            2 => " \t /* c */ \n// only a comment\n\n".to_string(),
            3 => "/* a comment\nover two lines */".to_string(),
            4 => format!("#if 0\n{}#endif\n", body_nl),
            5 => format!("#ifdef NEVER_DEFINED\n{}#endif", body_nl),
            6 => format!("#if 1\n#else\n{}#endif\n", body_nl),
            7 => "#define A 1\n#define F(x) x\n#undef A\n#pragma once\n".to_string(),
            8 => {
                files.push(("e.h".to_string(), String::new()));
                files.push(("s.h".to_string(), "#if 0\nskipped\n#endif\n".to_string()));
                "#include \"e.h\"\n#include <s.h>\n#include \"e.h\"\n".to_string()
            }
            9 => format!("#if 0\n#elif 0\n{}#else\n#endif\n", body_nl),
            10 => "#if 1\n#if 0\nx\n#endif\n#else\ny\n#endif\n".to_string(),
            _ => format!("#ifndef G\n#define G\n#include \"main.rssl\"\n#else\n#if 0\n{}#endif\n#endif\n", body_nl),
        };
        let mut all = vec![("main.rssl".to_string(), main)];
        if matches!(k, 4 | 5 | 6 | 9 | 11) {
            all.extend(inner.files[1..].iter().cloned());
        }
        all.extend(files);
        RawCase { defs: if self.r.chance(1, 4) { vec![("A".to_string(), "1".to_string())] } else { Vec::new() }, files: all }
    }

    /// one text for the entry point `preprocess_fragment` (request `C11.frag`): a single-file program of the
    /// ordinary generators, with lines in front that look at the define the function supplies
    /// (`__HLSL_VERSION`): tested with every relational operator, `#ifdef` / `#ifndef` / `defined`, as text,
    /// redefined, undefined, or not mentioned at all; sometimes the fragment includes itself by its own name
    pub fn frag_case(&mut self) -> RawCase {
        let mut base = None;
        for _ in 0..6 {
            let c = if self.r.chance(1, 3) { self.cond_case() } else { self.case() };
            if c.files.len() == 1 {
                base = Some(c);
                break;
            }
        }
        let base = base.unwrap_or_else(|| self.cond_case());
        let mut main = String::new();
        let v = "__HLSL_VERSION";
        let k = self.r.below(12);
        self.kinds.add(&format!("frag-version-use:{}", k));
        match k {
            0 => {}
            1 => {
                let op = *self.r.pick(&[">=", "==", "<", "<=", ">", "!="]);
                let n = *self.r.pick(&["2021", "2018", "2022", "0", "1"]);
                main.push_str(&format!("#if {} {} {}\nvt\n#else\nvf\n#endif\n", v, op, n));
            }
            2 => main.push_str(&format!("#ifdef {}\nvdef\n#else\nvundef\n#endif\n", v)),
            3 => main.push_str(&format!("#ifndef {}\n#define {} 2018\nvundef\n#endif\n", v, v)),
            4 => main.push_str(&format!("#if defined({}) && {} == 2021\nvt\n#elif defined {}\nvother\n#else\nvnone\n#endif\n", v, v, v)),
            5 => main.push_str(&format!("#undef {}\n#if {}\nvt\n#else\nvf\n#endif\n", v, v)),
            6 => main.push_str(&format!("#define {} 2016\n#if {} < 2021\nvold\n#endif\n", v, v)),
            7 => main.push_str(&format!("#if {} < 2021\nvold\n#elif {} == 2021\nv2021\n#else\nvnew\n#endif\n", v, v)),
            8 => main.push_str(&format!("#if 0\n#undef {}\n#endif\n#if {}\nvt\n#endif\n", v, v)),
            9 => main.push_str(&format!("#if !{}\nvzero\n#else\nvset\n#endif\n", v)),
            10 => main.push_str("#ifndef FRAG_AGAIN\n#define FRAG_AGAIN\nfirst\n#include \"main.rssl\"\n#else\nsecond\n#endif\n"),
            _ => main.push_str(&format!("version {}\n", v)),
        }
        let body = &base.files[0].1;
        let at_end = self.r.chance(1, 3);
        let text = if at_end { format!("{}{}", body, if body.ends_with('\n') || body.is_empty() { main.clone() } else { format!("\n{}", main) }) } else { format!("{}{}", main, body) };
        let text = if self.r.chance(1, 2) { format!("{}probe {} A B\n", if text.ends_with('\n') || text.is_empty() { text.clone() } else { format!("{}\n", text) }, v) } else { text };
        RawCase { defs: Vec::new(), files: vec![("main.rssl".to_string(), text)] }
    }

    /// one header of the re-include stream; `g` = its guard macro, `lower` = names of headers it may include
    fn guard_header(&mut self, kind: u64, i: usize, g: &str, lower: &[String]) -> String {
        let fancy = self.r.chance(1, 4);
        let mut d = |me: &mut Self, name: &str, args: &str| -> String {
            if fancy {
                me.directive(name, args)
            } else if args.is_empty() {
                format!("#{}{}", name, me.eol)
            } else {
                format!("#{} {}{}", name, args, me.eol)
            }
        };
        let e = self.eol;
        let gdef = if self.r.chance(1, 2) { g.to_string() } else { format!("{} 1", g) };
        let inc = if lower.is_empty() { String::new() } else { format!("\"{}\"", self.r.pick(lower)) };
        let mut b = String::new();
        match kind {
            // the classic include guard
            0 => {
                b += &d(self, "ifndef", g);
                b += &d(self, "define", &gdef);
                b += &format!("g{} A{}", i, e);
                b += &d(self, "endif", "");
            }
            // a guard block with an #else group: the second include must deliver it
            1 => {
                b += &d(self, "ifndef", g);
                b += &d(self, "define", &gdef);
                b += &format!("f{} A{}", i, e);
                b += &d(self, "else", "");
                b += &format!("s{} B{}", i, e);
                b += &d(self, "endif", "");
            }
            2 => {
                b += &d(self, "ifndef", g);
                b += &d(self, "define", &gdef);
                b += &format!("f{}{}", i, e);
                b += &d(self, "elif", "defined(A)");
                b += &format!("ea{} A{}", i, e);
                b += &d(self, "else", "");
                b += &format!("eb{}{}", i, e);
                b += &d(self, "endif", "");
            }
            3 => {
                b += &d(self, "ifndef", g);
                b += &d(self, "define", &gdef);
                b += &format!("f{}{}", i, e);
                b += &d(self, "elif", "!defined(B) || C == 7");
                b += &format!("enb{} C{}", i, e);
                b += &d(self, "endif", "");
            }
            // text / directives outside the guard block
            4 => {
                let w = self.r.below(4);
                if w == 0 {
                    b += &format!("pre{}{}", i, e);
                }
                b += &d(self, "ifndef", g);
                b += &d(self, "define", &gdef);
                b += &format!("g{}{}", i, e);
                if self.r.chance(1, 2) {
                    b += &d(self, "else", "");
                    b += &format!("s{}{}", i, e);
                }
                b += &d(self, "endif", "");
                match w {
                    1 => b += &format!("post{} C{}", i, e),
                    2 => b += &d(self, "define", "C 5"),
                    3 => {
                        b += &d(self, "ifdef", "A");
                        b += &format!("tailA{}{}", i, e);
                        b += &d(self, "endif", "");
                    }
                    _ => {}
                }
            }
            5 => {
                b += &d(self, "pragma", "once");
                b += &format!("o{} A B{}", i, e);
            }
            6 => {
                b += &d(self, "pragma", "once");
                b += &d(self, "ifndef", g);
                b += &d(self, "define", &gdef);
                b += &format!("f{}{}", i, e);
                b += &d(self, "else", "");
                b += &format!("s{}{}", i, e);
                b += &d(self, "endif", "");
            }
            // nested guards
            7 => {
                let gi = format!("{}_IN", g);
                b += &d(self, "ifndef", g);
                b += &d(self, "ifndef", &gi);
                b += &d(self, "define", &gi);
                b += &format!("in1_{}{}", i, e);
                b += &d(self, "else", "");
                b += &format!("in2_{}{}", i, e);
                b += &d(self, "endif", "");
                b += &d(self, "define", &gdef);
                b += &d(self, "else", "");
                b += &format!("out2_{}{}", i, e);
                b += &d(self, "endif", "");
            }
            // the guard macro is defined by the includer (or from the API), never by the header
            8 => {
                b += &d(self, "ifndef", g);
                b += &format!("nd{}{}", i, e);
                b += &d(self, "else", "");
                b += &format!("d{} {}{}", i, g, e);
                b += &d(self, "endif", "");
            }
            // the header undefines its own guard on the second visit
            9 => {
                b += &d(self, "ifndef", g);
                b += &d(self, "define", &gdef);
                b += &format!("on{}{}", i, e);
                b += &d(self, "else", "");
                b += &d(self, "undef", g);
                b += &format!("off{}{}", i, e);
                b += &d(self, "endif", "");
            }
            // the "guard" is a macro of the includer
            10 => {
                b += &d(self, "ifndef", "A");
                b += &format!("nA{}{}", i, e);
                b += &d(self, "define", "A 3");
                b += &d(self, "else", "");
                b += &format!("hasA{} A{}", i, e);
                b += &d(self, "undef", "A");
                b += &d(self, "endif", "");
            }
            // inverted guard
            11 => {
                b += &d(self, "ifdef", g);
                b += &format!("again{}{}", i, e);
                b += &d(self, "else", "");
                b += &d(self, "define", &gdef);
                b += &format!("first{}{}", i, e);
                b += &d(self, "endif", "");
            }
            12 => {
                let c = if self.r.chance(1, 2) { format!("!defined({})", g) } else { format!("! defined {}", g) };
                b += &d(self, "if", &c);
                b += &d(self, "define", &gdef);
                b += &format!("f{}{}", i, e);
                b += &d(self, "else", "");
                b += &format!("s{}{}", i, e);
                b += &d(self, "endif", "");
            }
            // two blocks on the same guard
            13 => {
                b += &d(self, "ifndef", g);
                b += &d(self, "define", &gdef);
                b += &format!("a{}{}", i, e);
                b += &d(self, "endif", "");
                b += &d(self, "ifndef", g);
                b += &format!("never{}{}", i, e);
                b += &d(self, "else", "");
                b += &format!("b{}{}", i, e);
                b += &d(self, "endif", "");
            }
            // directives in the #else group of the guard: they must act on the second include
            14 => {
                b += &d(self, "ifndef", g);
                b += &d(self, "define", &gdef);
                b += &format!("f{}{}", i, e);
                b += &d(self, "else", "");
                b += &d(self, "define", "B 9");
                if !inc.is_empty() {
                    b += &d(self, "include", &inc);
                }
                b += &d(self, "undef", "C");
                b += &d(self, "endif", "");
            }
            // comments and blank lines around the guard block
            15 => {
                b += &format!("// guard{e}{e}  /* c */{e}", e = e);
                b += &d(self, "ifndef", g);
                b += &d(self, "define", &gdef);
                b += &format!("f{}{}", i, e);
                if self.r.chance(2, 3) {
                    b += &d(self, "else", "");
                    b += &format!("s{}{}", i, e);
                }
                b += &d(self, "endif", "");
                b += &format!("/* end */{e}{e}", e = e);
                if self.r.chance(1, 2) {
                    b.truncate(b.len() - e.len());
                    b += "  ";
                }
            }
            // wrappers: the header is reached through another header
            16 => {
                b += &format!("w{}a{}", i, e);
                if !inc.is_empty() {
                    b += &d(self, "include", &inc);
                }
                b += &format!("w{}b{}", i, e);
            }
            _ => {
                b += &d(self, "ifndef", g);
                b += &d(self, "define", &gdef);
                if !inc.is_empty() {
                    b += &d(self, "include", &inc);
                }
                b += &d(self, "else", "");
                if !inc.is_empty() {
                    b += &d(self, "include", &inc);
                }
                b += &format!("wagain{}{}", i, e);
                b += &d(self, "endif", "");
            }
        }
        b
    }

    /// the re-include stream: few headers of every guard shape, each included two or three times (directly and
    /// through other headers) while the macros they test change between the includes.  C processes the file
    /// every time it is named (only `#pragma once` may suppress it).
    pub fn reinclude_case(&mut self) -> RawCase {
        self.eol = if self.r.chance(1, 8) { "\r\n" } else { "\n" };
        let e = self.eol;
        self.defined_fns.clear();
        self.defined_ops.clear();
        let mut defs: Vec<(String, String)> = Vec::new();
        let mut files: Vec<(String, String)> = Vec::new();
        let mut guards: Vec<String> = Vec::new();
        let nh = 1 + self.r.below(3) as usize;
        let mut names: Vec<String> = Vec::new();
        for i in 0..nh {
            let kind = if i > 0 && self.r.chance(1, 3) { 16 + self.r.below(2) } else { self.r.below(16) };
            let g = format!("H{}_G", i);
            let body = self.guard_header(kind, i, &g, &names.clone());
            self.kinds.add(&format!("reinc-header:{}", kind));
            guards.push(g.clone());
            if kind == 7 {
                guards.push(format!("{}_IN", g));
            }
            let name = format!("h{}.h", i);
            names.push(name.clone());
            files.push((name, body));
        }
        if self.r.chance(1, 5) {
            let g = self.r.pick(&guards).clone();
            defs.push((g, self.r.pick(&["1", "", "0"]).to_string()));
            self.kinds.add("reinc-api-guard");
        }
        if self.r.chance(1, 6) {
            let d = *self.r.pick(&[("A", "1"), ("B", "0"), ("C", "7")]);
            defs.push((d.0.to_string(), d.1.to_string()));
        }
        let mut main = String::new();
        for n in VALUE_NAMES {
            if self.r.chance(1, 3) {
                main.push_str(&format!("#define {} {}{}", n, self.r.pick(&["0", "1", "7", "2"]), e));
            }
        }
        let mut depth = 0usize;
        let len = 3 + self.r.below(10) as usize;
        let mut count = vec![0usize; nh];
        let include = |me: &mut Self, main: &mut String, k: usize, count: &mut Vec<usize>| {
            let spelled = if me.r.chance(1, 4) { format!("<{}>", names[k]) } else { format!("\"{}\"", names[k]) };
            let l = if me.r.chance(1, 5) { me.directive("include", &spelled) } else { format!("#include {}{}", spelled, me.eol) };
            main.push_str(&l);
            count[k] += 1;
        };
        let flip = |me: &mut Self, main: &mut String| {
            let g = me.r.pick(&guards).clone();
            match me.r.below(5) {
                0 | 1 => main.push_str(&format!("#define {}{}", g, me.eol)),
                2 => main.push_str(&format!("#define {} 1{}", g, me.eol)),
                _ => main.push_str(&format!("#undef {}{}", g, me.eol)),
            }
            me.kinds.add("reinc-flip-guard");
        };
        for i in 0..len {
            match self.r.below(20) {
                0..=8 => {
                    let k = self.r.below(nh as u64) as usize;
                    include(self, &mut main, k, &mut count);
                }
                9..=11 => flip(self, &mut main),
                12 | 13 => {
                    let n = *self.r.pick(VALUE_NAMES);
                    if self.r.chance(1, 2) {
                        main.push_str(&format!("#define {} {}{}", n, self.r.pick(&["0", "1", "7"]), e));
                    } else {
                        main.push_str(&format!("#undef {}{}", n, e));
                    }
                }
                14 | 15 => main.push_str(&format!("t{} A B C{}", i, e)),
                16 | 17 if depth < 3 => {
                    let g = self.r.pick(&guards).clone();
                    let o = match self.r.below(5) {
                        0 => "#if 1".to_string(),
                        1 => "#if 0".to_string(),
                        2 => format!("#ifdef {}", g),
                        3 => format!("#ifndef {}", g),
                        _ => format!("#if defined({}) && A", g),
                    };
                    main.push_str(&o);
                    main.push_str(e);
                    depth += 1;
                }
                18 if depth > 0 => {
                    main.push_str(&format!("#endif{}", e));
                    depth -= 1;
                }
                _ => main.push_str(&format!("u{}{}", i, e)),
            }
        }
        for _ in 0..depth {
            main.push_str(&format!("#endif{}", e));
        }
        // at the top level: one header again (and again), with its macros changed in between or not
        let k = self.r.below(nh as u64) as usize;
        let times = 2 + self.r.below(2);
        for _ in 0..times {
            include(self, &mut main, k, &mut count);
            if self.r.chance(1, 2) {
                flip(self, &mut main);
            }
        }
        self.kinds.add(&format!("reinc-max-includes-of-one-file:{}", count.iter().max().copied().unwrap_or(0).min(6)));
        let mut probe = String::from("probe A B C");
        for g in &guards {
            probe.push(' ');
            probe.push_str(g);
        }
        probe.push_str(e);
        main.push_str(&probe);
        self.kinds.add("raw-reinclude");
        files.insert(0, ("main.rssl".to_string(), main));
        RawCase { defs, files }
    }

    /// very deep nesting
    pub fn deep_case(&mut self, n: usize) -> RawCase {
        self.eol = "\n";
        if self.r.chance(1, 8) {
            // many sequential includes: `include_depth` must return to 0 after each
            let mut main = String::new();
            for i in 0..(n + 200) {
                main.push_str("#include \"e.h\"\n");
                if i % 50 == 0 {
                    main.push_str(&format!("s{}\n", i));
                }
            }
            self.kinds.add("raw-many-includes");
            return RawCase {
                defs: Vec::new(),
                files: vec![("main.rssl".to_string(), main), ("e.h".to_string(), "#ifdef A\nx\n#endif\n".to_string())],
            };
        }
        let mut main = String::from("#define A 1\n");
        let mut closers: Vec<String> = Vec::new();
        for i in 0..n {
            let o = match self.r.below(6) {
                0 => "#if 0",
                1 => "#ifdef U",
                2 => "#ifndef A",
                3 => "#ifdef A",
                _ => "#if 1",
            };
            main.push_str(o);
            main.push('\n');
            if self.r.chance(1, 4) {
                main.push_str(&format!("d{}\n", i));
            }
            closers.push(match self.r.below(5) {
                0 => format!("#else\ne{}\n#endif\n", i),
                1 => format!("#elif 1\nf{}\n#endif\n", i),
                2 => format!("#elif 0\ng{}\n#else\nh{}\n#endif\n", i, i),
                _ => format!("c{}\n#endif\n", i),
            });
        }
        main.push_str("middle\n");
        for c in closers.iter().rev() {
            main.push_str(c);
        }
        main.push_str("probe A\n");
        self.kinds.add("raw-deep");
        RawCase { defs: Vec::new(), files: vec![("main.rssl".to_string(), main)] }
    }
}

pub fn escape(s: &str) -> String {
    s.replace('\\', "\\\\").replace('\n', "\\n").replace('\r', "\\r").replace('\t', "\\t")
}

pub fn request_of(c: &RawCase) -> String {
    let d: Vec<String> = c.defs.iter().map(|(n, b)| format!("{}={}", n, b)).collect();
    let mut f = vec!["C11.raw".to_string(), d.join(","), escape(&c.files[0].1)];
    for (n, t) in &c.files[1..] {
        f.push(format!("{}={}", n, escape(t)));
    }
    f.join("\t")
}

pub fn request_of_frag(c: &RawCase) -> String {
    format!("C11.frag\t{}", escape(&c.files[0].1))
}

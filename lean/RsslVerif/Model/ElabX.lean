import RsslVerif.Model.IrTypingX
import RsslVerif.Model.Elab
import RsslVerif.Gen.ElabTables
/-!
# Model of expression elaboration, extended language (typer/src/typer/expressions.rs)

Same development as `Model/Elab.lean` (C04 composes with that one) over a larger source language, in its
**own namespace** `RsslVerif.Model.ElabX`.  New source forms (`parse_expr_unchecked`):

* `member e name` — `ast::Expression::Member`: on a struct the data member of that name (`StructMember`), on a scalar the
  swizzle `.x/.r` repeated (`Swizzle`), on a vector `.xyzw/.rgba` (`Swizzle`), on a matrix `_m00_m11` / `_11_22`
  (`read_matrix_subscript`, `MatrixSwizzle`); a swizzle that names a slot twice is an rvalue;
* `index a i` — `ast::Expression::ArraySubscript` on arrays, vectors and matrices; the index is converted to `uint`;
* `ctor t args` — `parse_expr_constructor`, the numeric constructors `float3(a, b)` (component count rule);
* `call name args` now also reaches the **intrinsic functions**: they are ordinary entries of the function registry
  (`Env.funcs` starts with the signatures of `Gen.IntrinsicSigs`, in registration order), selected by the same
  `find_function_type`.

Definitions of `Model/Elab.lean` that do not mention expressions (`Err`, `enforceIncrement`, `arithTarget`,
`ternTargets`, `candsFrom`, ...) are shared; the ones that build expression nodes are repeated here verbatim over the
larger `IExpr`.  The driver cross-checks the two models on every request of the old fragment.
-/
namespace RsslVerif.Model.ElabX
open RsslVerif.Gen.RankTable RsslVerif.Gen.TypingTables RsslVerif.Gen.ElabTables RsslVerif.Model.Conv RsslVerif.Model.Overload
open RsslVerif.Model.IrTyping (FuncSig opReturn boolOf)
open RsslVerif.Model.IrTypingX
open RsslVerif.Model.Elab (Err boolR intR minusFolds enforceIncrement unwrapPanic nvRank nvIsInteger arithTarget
  arithScalar isOutputParam mostSigScalar ternTargets candsFrom)

mutual
/-- fragment of `ast::Expression` -/
inductive SExpr where
  | lit (k : Scalar)
  | var (i : Nat)
  | un (o : UnOp) (e : SExpr)
  | bin (o : BinOp) (a b : SExpr)
  | tern (c a b : SExpr)
  /-- call of the overload set named `name` (user functions and intrinsic functions) -/
  | call (name : Nat) (args : SArgs)
  | cast (t : Ty) (e : SExpr)
  /-- `e.name` -/
  | member (e : SExpr) (name : String)
  /-- `a[i]` -/
  | index (a i : SExpr)
  /-- `T(args)` where `T` names a type -/
  | ctor (t : Ty) (args : SArgs)
  deriving Repr, Inhabited
inductive SArgs where
  | nil
  | cons (e : SExpr) (r : SArgs)
  deriving Repr, Inhabited
end

def SArgs.ofList : List SExpr → SArgs
  | [] => .nil
  | e :: r => .cons e (SArgs.ofList r)

def SArgs.length : SArgs → Nat
  | .nil => 0
  | .cons _ r => r.length + 1

abbrev Res := Except Err (IExpr × ETy)

/-- `ImplicitConversion::apply`: no node when only the value category changes, a re-tagged literal for untyped
    literals converted to a scalar type (table from casting.rs), otherwise `Cast(target_type.0, expr)` -/
def applyConv (c : Conversion) (e : IExpr) : Except Err IExpr :=
  if c.dimCast = none ∧ c.primary = none ∧ c.modCast = none then .ok e else
  match targetType c with
  | .error s => .error (.panic s)
  | .ok t =>
    -- the literal re-tagging shortcut is only taken for unmodified targets (`target_is_unmodified`, fix 660cfa4)
    if retagRequiresUnmodified && decide (t.ty.mod ≠ {}) then .ok (.cast t.ty e) else
    match e, t.ty.layer with
    | .lit .intLiteral, .scalar k =>
      match retagInt k with
      | some k' => .ok (.lit k')
      | none => .ok (.cast t.ty e)
    | .lit .floatLiteral, .scalar k =>
      match retagFloat k with
      | some k' => .ok (.lit k')
      | none => .ok (.cast t.ty e)
    | _, _ => .ok (.cast t.ty e)

/-- `find` followed by `apply` and `get_target_type`; `.ok none` = no implicit conversion -/
def convert (e : IExpr) (s d : ETy) : Except Err (Option (IExpr × ETy)) :=
  match find s d with
  | .error m => .error (.panic m)
  | .ok none => .ok none
  | .ok (some c) =>
    match applyConv c e with
    | .error m => .error m
    | .ok e' =>
      match targetType c with
      | .error m => .error (.panic m)
      | .ok t => .ok (some (e', t))

/-- the `#[cfg(debug_assertions)]` block of `parse_expr_internal` (and, with `dbg = true` forced, the
    unconditional block of `parse_expr`): `get_type` must succeed and agree with the computed type -/
def selfCheck (dbg : Bool) (Γ : Env) (e : IExpr) (τ : ETy) : Res :=
  if dbg then
    match typeOf Γ e with
    | .error s => .error (.panic s)
    | .ok τ' => if τ' = τ then .ok (e, τ) else .error (.panic "expressions.rs: queried type != computed type")
  else .ok (e, τ)


/-- the cast of the operand of `! ~` to the operator's input type: `find(..)` then `apply`.  `~` still unwraps the
    result (`onFail = panic`; it only ever asks for `bool → int`), `!` reports `UnaryOperationWrongTypes` when the
    operand does not convert to `bool` (fix bf0e893) -/
def castOperand (onFail : Err) (e : IExpr) (τ inp : ETy) : Except Err IExpr :=
  if τ = inp then .ok e else
  match find τ inp with
  | .error m => .error (.panic m)
  | .ok none => .error onFail
  | .ok (some c) => applyConv c e

/-! ## written places (`check_mutable_place`, fixes 4575004 / b359800 / 3758fdd) -/

/-- `TypeRegistry::is_const`: `get_non_array_layer(id)` is a `Modifier` layer with `is_const` — arrays are looked through
    (`const float a[3]` is `Array(Modifier(const, float), 3)`), an outer modifier is not.  `fuel` bounds the number of array
    layers (`none` = ran out: only for an environment whose array definitions are cyclic, which no `TypeRegistry` is) -/
def isConstTy (Γ : Env) : Nat → Ty → Option Bool
  | 0, _ => none
  | fuel + 1, t =>
    if t.mod ≠ {} then some t.mod.isConst else
    match t.layer with
    | .other id =>
      match Γ.others[id]? with
      | some (.array elem _) => isConstTy Γ fuel elem
      | _ => some false
    | _ => some false

/-- enough fuel for every acyclic environment: one array definition per step -/
def constFuel (Γ : Env) : Nat := Γ.others.length + 1

/-- `get_type_layer(remove_modifier(ty)).is_object()` -/
def isObjectTy (Γ : Env) : Layer → Bool
  | .other id =>
    match Γ.others[id]? with
    | some .object => true
    | some (.resource _ _) => true
    | _ => false
  | _ => false

/-- one iteration of the loop of `check_mutable_place` up to `current = match current`: the type the IR gives `current`
    must be an lvalue and not const; `k` is the rest of the loop -/
def placeStep (Γ : Env) (e : IExpr) (k : Unit → Except Err Unit) : Except Err Unit :=
  match typeOf Γ e with
  | .error _ => .error (.reject "InternalError")
  | .ok τ =>
    if τ.vt ≠ .lvalue then .error (.reject "LvalueRequired") else
    match isConstTy Γ (constFuel Γ) τ.ty with
    | none => .error (.unsupported "cyclic array type")
    | some true => .error (.reject "MutableRequired")
    | some false => k ()

/-- `check_mutable_place`: every object on the way from the written part to the variable must be a mutable lvalue.  The loop
    walks through `StructMember`, `Swizzle`, `MatrixSwizzle` (and `ObjectMember`, outside the model) to their object, through
    `ArraySubscript` unless the subscripted value is a buffer / texture (its elements are not part of the value of the
    resource variable), and stops at any other node (`ConstantVariable`, a member of a cbuffer, is outside the model). -/
def checkMutablePlace (Γ : Env) : IExpr → Except Err Unit
  | .member o sid idx => placeStep Γ (.member o sid idx) fun _ => checkMutablePlace Γ o
  | .swizzle o slots => placeStep Γ (.swizzle o slots) fun _ => checkMutablePlace Γ o
  | .mswizzle o slots => placeStep Γ (.mswizzle o slots) fun _ => checkMutablePlace Γ o
  | .index o i => placeStep Γ (.index o i) fun _ =>
    match typeOf Γ o with
    | .error _ => .error (.reject "InternalError")
    | .ok τo => if isObjectTy Γ τo.ty.layer then .ok () else checkMutablePlace Γ o
  | .lit k => placeStep Γ (.lit k) fun _ => .ok ()
  | .var i => placeStep Γ (.var i) fun _ => .ok ()
  | .tern c a b => placeStep Γ (.tern c a b) fun _ => .ok ()
  | .seq a b => placeStep Γ (.seq a b) fun _ => .ok ()
  | .call f args => placeStep Γ (.call f args) fun _ => .ok ()
  | .cast t e => placeStep Γ (.cast t e) fun _ => .ok ()
  | .op o args => placeStep Γ (.op o args) fun _ => .ok ()
  | .ctor t ar args => placeStep Γ (.ctor t ar args) fun _ => .ok ()

/-- `check_output_arguments`: the arguments given for `out` / `inout` parameters — **after** `apply_casts` — must name
    mutable objects; `zip` stops at the shorter list (default arguments) -/
def checkOutArgs (Γ : Env) : List Param → IArgs → Except Err Unit
  | p :: ps, .cons e r =>
    if isOutputParam p.io then
      match checkMutablePlace Γ e with
      | .error m => .error m
      | .ok _ => checkOutArgs Γ ps r
    else checkOutArgs Γ ps r
  | _, _ => .ok ()

/-- `parse_expr_unaryop` after the operand has been elaborated -/
def elabUn (Γ : Env) (o : UnOp) (e : IExpr) (τ : ETy) : Res :=
  let unmodR : ETy := τ.ty.unmod.r
  match o with
  | .prefixIncrement =>
    match enforceIncrement τ with
    | .error m => .error m
    | .ok _ =>
      match checkMutablePlace Γ e with
      | .error m => .error m
      | .ok _ => .ok ((.op .prefixIncrement (.cons e .nil)), τ)
  | .prefixDecrement =>
    match enforceIncrement τ with
    | .error m => .error m
    | .ok _ =>
      match checkMutablePlace Γ e with
      | .error m => .error m
      | .ok _ => .ok ((.op .prefixDecrement (.cons e .nil)), τ)
  | .postfixIncrement =>
    match enforceIncrement τ with
    | .error m => .error m
    | .ok _ =>
      match checkMutablePlace Γ e with
      | .error m => .error m
      | .ok _ => .ok ((.op .postfixIncrement (.cons e .nil)), unmodR)
  | .postfixDecrement =>
    match enforceIncrement τ with
    | .error m => .error m
    | .ok _ =>
      match checkMutablePlace Γ e with
      | .error m => .error m
      | .ok _ => .ok ((.op .postfixDecrement (.cons e .nil)), unmodR)
  | .plus =>
    match τ.ty.layer with
    | .enum _ => .error (.unsupported "enum operand")
    | .other _ => .error (.reject "UnaryOperationWrongTypes")
    | _ => .ok ((.op .plus (.cons e .nil)), unmodR)
  | .minus =>
    match τ.ty.layer with
    | .enum _ => .error (.unsupported "enum operand")
    | .other _ => .error (.reject "UnaryOperationWrongTypes")
    | _ =>
      -- `is_trivial`: the operand is a literal and constant evaluation of the negation succeeds
      match e with
      | .lit k => if minusFolds k then .ok ((.lit k), unmodR)
                  else .ok ((.op .minus (.cons e .nil)), unmodR)
      | _ => .ok ((.op .minus (.cons e .nil)), unmodR)
  | .logicalNot =>
    match τ.ty.layer with
    | .enum _ => .error (.unsupported "enum operand")
    | .other _ => .error (.reject "UnaryOperationWrongTypes")
    | l =>
      let (out, inp) := if l.extractScalar = some .bool then (unmodR, τ) else (boolR, boolR)
      match castOperand (.reject "UnaryOperationWrongTypes") e τ inp with
      | .error m => .error m
      | .ok e' => .ok ((.op .logicalNot (.cons e' .nil)), out)
  | .bitwiseNot =>
    match τ.ty.layer with
    | .enum _ => .error (.unsupported "enum operand")
    | .scalar .intLiteral | .scalar .int32 | .scalar .uInt32 =>
      .ok ((.op .bitwiseNot (.cons e .nil)), unmodR)
    | .scalar .bool =>
      match castOperand unwrapPanic e τ intR with
      | .error m => .error m
      | .ok e' => .ok ((.op .bitwiseNot (.cons e' .nil)), intR)
    | _ => .error (.reject "UnaryOperationWrongTypes")
  | .dereference => .error (.reject "PointersNotSupported")
  | .addressOf => .error (.reject "PointersNotSupported")

/-- the rest of the arithmetic arm once both operands are known to convert to `ety`: the two targets must agree
    (`assert_eq!`), the casts are applied, `get_return_type` gives the result type -/
def arithBuild (o : BinOp) (ca cb : Conversion) (a b : IExpr) : Res :=
  match targetType ca with
  | .error m => .error (.panic m)
  | .ok ta =>
    match targetType cb with
    | .error m => .error (.panic m)
    | .ok tb =>
      if ta ≠ tb then .error (.panic "expressions.rs: assert_eq!(lhs_cast target, rhs_cast target)") else
      match applyConv ca a with
      | .error m => .error m
      | .ok a' =>
        match applyConv cb b with
        | .error m => .error m
        | .ok b' =>
          match o.toIOp with
          | none => .error (.panic "expressions.rs: unreachable!()")
          | some i =>
            match opReturn i [ta, tb] with
            | .error m => .error (.panic m)
            | .ok out => .ok (.op i (.cons a' (.cons b' .nil)), out)

/-- the arithmetic / comparison / bit / logical arm of `parse_expr_binop` -/
def elabArith (o : BinOp) (a : IExpr) (τa : ETy) (b : IExpr) (τb : ETy) : Res :=
  match τa.ty.layer, τb.ty.layer with
  | .enum _, _ => .error (.unsupported "enum operand")
  | _, .enum _ => .error (.unsupported "enum operand")
  | la, lb =>
    match arithTarget o la lb with
    | .error m => .error m
    | .ok (.scalar ts) =>
      match selectVectorRank la lb with
      | none => .error (.reject "BinaryOperationWrongTypes")
      | some dim =>
        match find τa (Ty.mk {} (Layer.ofDim (arithScalar ts dim) dim)).r with
        | .error m => .error (.panic m)
        | .ok none => .error (.reject "BinaryOperationWrongTypes")
        | .ok (some ca) =>
          match find τb (Ty.mk {} (Layer.ofDim (arithScalar ts dim) dim)).r with
          | .error m => .error (.panic m)
          | .ok none => .error (.reject "BinaryOperationWrongTypes")
          | .ok (some cb) => arithBuild o ca cb a b
    | .ok _ => .error (.unsupported "non-scalar operator type")

/-- the assignment arm of `parse_expr_binop` -/
def elabAssign (Γ : Env) (o : BinOp) (a : IExpr) (τa : ETy) (b : IExpr) (τb : ETy) : Res :=
  if τa.ty.mod.isConst then .error (.reject "MutableRequired") else
  if τa.vt ≠ .lvalue then .error (.reject "LvalueRequired") else
  match checkMutablePlace Γ a with
  | .error m => .error m
  | .ok _ =>
  match convert b τb τa.ty.r with
  | .error m => .error m
  | .ok none => .error (.reject "BinaryOperationWrongTypes")
  | .ok (some (b', tb)) =>
    match o.toIOp with
    | none => .error (.panic "expressions.rs: unreachable!()")
    | some i =>
      match opReturn i [τa, tb] with
      | .error m => .error (.panic m)
      | .ok out => .ok ((.op i (.cons a (.cons b' .nil))), out)


/-- the rest of `parse_expr_ternary` once both arms are known to convert to the target -/
def ternBuild (c : IExpr) (τc : ETy) (ca cb : Conversion) (a b : IExpr) : Res :=
  match applyConv ca a with
  | .error m => .error m
  | .ok a' =>
    match applyConv cb b with
    | .error m => .error m
    | .ok b' =>
      match targetType ca with
      | .error m => .error (.panic m)
      | .ok ta =>
        match targetType cb with
        | .error m => .error (.panic m)
        | .ok tb =>
          if ta ≠ tb then .error (.panic "expressions.rs: assert_eq!(left_cast target, right_cast target)") else
          if τc.ty.layer.isVecOrMat then .error (.reject "ShortCircuitingVector") else
          match convert c τc boolR with
          | .error m => .error m
          | .ok none => .error (.reject "TernaryConditionRequiresBoolean")
          | .ok (some (c', _)) => .ok (.tern c' a' b', ta)

/-- `parse_expr_ternary` after the three operands have been elaborated -/
def elabTern (c : IExpr) (τc : ETy) (a : IExpr) (τa : ETy) (b : IExpr) (τb : ETy) : Res :=
  match ternTargets τa.ty.layer τb.ty.layer with
  | .error m => .error m
  | .ok (lt, rt) =>
    if lt ≠ rt then .error (.reject "TernaryArmsMustHaveSameType") else
    -- `target_mod`: only row_major / column_major of the left arm survive
    match find τa (Ty.mk { rest := τa.ty.mod.rest &&& 3 } lt).r with
    | .error m => .error (.panic m)
    | .ok none => .error (.reject "TernaryArmsMustHaveSameType")
    | .ok (some ca) =>
      match find τb (Ty.mk { rest := τa.ty.mod.rest &&& 3 } lt).r with
      | .error m => .error (.panic m)
      | .ok none => .error (.reject "TernaryArmsMustHaveSameType")
      | .ok (some cb) => ternBuild c τc ca cb a b


/-- `strip_param_type` (typer/src/typer/functions.rs): the type of a parameter in the function's signature is its declared
    type without modifiers (`const float p` is a `float` parameter); array parameters are outside the model -/
def stripParamType (t : Ty) : Ty := t.unmod

/-- candidates of a call: the functions named `name`, in declaration order, with their `FunctionId` -/
def candidates (Γ : Env) (name : Nat) : List Cand := candsFrom name Γ.funcs 0

/-- `apply_casts` with the casts `find_overload_casts` recorded for the selected overload -/
def castArgs : List Param → IArgs → List ETy → Except Err IArgs
  | p :: ps, .cons e r, t :: ts =>
    match convert e t p.ety with
    | .error m => .error m
    | .ok none => .error (.panic "expressions.rs: selected overload has no cast for an argument")
    | .ok (some (e', _)) =>
      match castArgs ps r ts with
      | .error m => .error m
      | .ok r' => .ok (.cons e' r')
  | _, .nil, [] => .ok .nil
  | _, _, _ => .error (.panic "expressions.rs: assert_eq!(casts.len(), values.len())")

/-- `write_function` after the arguments have been elaborated -/
def elabCall (Γ : Env) (name : Nat) (args : IArgs) (ts : List ETy) : Res :=
  match resolve (candidates Γ name) ts with
  | .panic => .error (.panic "casting.rs: invalid vector cast")
  | .unmatched => .error (.reject "FunctionArgumentTypeMismatch")
  | .ambiguous _ => .error (.reject "FunctionArgumentTypeMismatch")
  | .selected id =>
    match Γ.funcs[id]? with
    | none => .error (.panic "ir_functions.rs: function id out of range")
    | some s =>
      match castArgs s.params args ts with
      | .error m => .error m
      | .ok args' =>
        match checkOutArgs Γ s.params args' with
        | .error m => .error m
        | .ok _ => .ok ((.call id args'), s.ret.r)

/-! ## member access, swizzles -/

def uintR : ETy := (scalarTy .uInt32).r

/-- the first data member called `name` with its index (`get_struct_member_expression`; methods are outside the model) -/
def memberLookup (name : String) : List (String × Ty) → Nat → Option (Nat × Ty)
  | [], _ => none
  | m :: r, i => if m.1 = name then some (i, m.2) else memberLookup name r (i + 1)

/-- one `match c { 'x' | 'r' if l >= 1 => .., .. }` of the swizzle readers: the first arm whose characters contain `c`
    and whose guard `l >= min` holds; tables from `Gen.ElabTables` -/
def lookupSlot : List (List Char × Nat × Nat) → Nat → Char → Option Nat
  | [], _, _ => none
  | (cs, mn, k) :: r, l, c => if cs.contains c ∧ mn ≤ l then some k else lookupSlot r l c

/-- the swizzle loop: `none` as soon as one character is not a slot -/
def slotsOf (tab : List (List Char × Nat × Nat)) (l : Nat) : List Char → Option (List Nat)
  | [] => some []
  | c :: r =>
    match lookupSlot tab l c with
    | none => none
    | some k =>
      match slotsOf tab l r with
      | none => none
      | some ks => some (k :: ks)

/-- state of `read_matrix_subscript` between characters: `start` = `None`, `opened isM first` = `Some((is_m, first_value))` -/
inductive MState where
  | start
  | opened (isM : Bool) (first : Option Nat)
  deriving DecidableEq, Repr

/-- one component digit: the `_m` form counts from `0`, the `_` form from `1`; must be below the dimension `l` -/
def matrixComponent (isM : Bool) (c : Char) (l : Nat) : Option Nat :=
  lookupSlot (if isM then matrixDigitsM else matrixDigits) l c

/-- the character loop of `read_matrix_subscript`; `acc` is `swizzle_slots` reversed; `none` = `InvalidSwizzle` -/
def readMatrix (x y : Nat) : List Char → MState → (seenNoM seenM : Bool) → List (Nat × Nat) → Option (List (Nat × Nat))
  | [], st, _, _, acc =>
    if st ≠ .start ∨ acc = [] ∨ matrixMaxSlots < acc.length then none else some acc.reverse
  | c :: r, .start, a, b, acc => if c = matrixOpen then readMatrix x y r (.opened false none) a b acc else none
  | c :: r, .opened isM first, a, b, acc =>
    if isM = false ∧ first = none ∧ c = matrixM then readMatrix x y r (.opened true none) a b acc else
    match matrixComponent isM c (if first = none then x else y) with
    | none => none
    | some comp =>
      match first with
      | none => readMatrix x y r (.opened isM (some comp)) a b acc
      | some fc =>
        -- `Ensure _ vs _m usage is the same for all slots`
        if isM then (if a then none else readMatrix x y r .start a true ((fc, comp) :: acc))
        else (if b then none else readMatrix x y r .start true b ((fc, comp) :: acc))

/-- the `Member` arm of `parse_expr_unchecked` after the composite has been elaborated -/
def elabMember (Γ : Env) (name : String) (e : IExpr) (τ : ETy) : Res :=
  if name.toList = [] then .error (.unsupported "empty member name") else
  match τ.ty.layer with
  | .other id =>
    match Γ.others[id]? with
    | some (.struct ms) =>
      match memberLookup name ms 0 with
      | some (idx, t) => .ok (.member e id idx, ⟨t, τ.vt⟩)
      | none => .error (.reject "StructMemberDoesNotExist")
    | some .object => .error (.unsupported "object member")
    | some (.resource _ _) => .error (.unsupported "object member")
    | some _ => .error (.reject "TypeDoesNotHaveMembers")
    | none => .error (.unsupported "undeclared type")
  | .scalar s =>
    match slotsOf scalarSwizzle 1 name.toList with
    | some slots =>
      -- fix c805c03: `if swizzle_slots.len() > 4 { return Err(InvalidSwizzle) }` after the character loop
      if scalarMaxSlots < slots.length then .error (.reject "InvalidSwizzle") else
      .ok (.swizzle e slots, ⟨⟨τ.ty.mod, swizzleLayer s slots.length⟩, swizzleVT slots τ.vt⟩)
    | none => .error (.reject "TypeDoesNotHaveMembers")
  | .vector s x =>
    match slotsOf vectorSwizzle x name.toList with
    | some slots =>
      if vectorMaxSlots < slots.length then .error (.reject "InvalidSwizzle") else
      .ok (.swizzle e slots, ⟨⟨τ.ty.mod, swizzleLayer s slots.length⟩, swizzleVT slots τ.vt⟩)
    | none => .error (.reject "InvalidSwizzle")
  | .matrix s x y =>
    match readMatrix x y name.toList .start false false [] with
    | some slots => .ok (.mswizzle e slots, ⟨⟨τ.ty.mod, swizzleLayer s slots.length⟩, swizzleVT slots τ.vt⟩)
    | none => .error (.reject "InvalidSwizzle")
  | .enum _ => .error (.reject "TypeDoesNotHaveMembers")

/-! ## subscripts -/

/-- the `index_type` of the `ArraySubscript` arm: `uint` for arrays, vectors, matrices and buffers, `uint2` / `uint3` for
    textures (widths from `Gen.ElabTables.subscriptIndexWidth`); anything else is `ArrayIndexingNonArrayType` -/
def indexTy (Γ : Env) (l : Layer) : Except Err ETy :=
  match l with
  | .vector _ _ => .ok uintR
  | .matrix _ _ _ => .ok uintR
  | .other id =>
    match Γ.others[id]? with
    | some (.array _ _) => .ok uintR
    | some (.resource kind _) =>
      match subscriptIndexWidth.lookup kind with
      | some w => .ok (if w = 1 then uintR else Ty.r ⟨{}, .vector .uInt32 w⟩)
      | none => .error (.reject "ArrayIndexingNonArrayType")
    | some .object => .error (.unsupported "object subscript")
    | some _ => .error (.reject "ArrayIndexingNonArrayType")
    | none => .error (.unsupported "undeclared type")
  | _ => .error (.reject "ArrayIndexingNonArrayType")

/-- the `ArraySubscript` arm of `parse_expr_unchecked` after both operands have been elaborated: the index is converted
    to the index type, the type of the node is whatever `Expression::get_type` says (`get_expression_type`) -/
def elabIndex (Γ : Env) (a : IExpr) (τa : ETy) (i : IExpr) (τi : ETy) : Res :=
  match indexTy Γ τa.ty.layer with
  | .error m => .error m
  | .ok it =>
    match find τi it with
    | .error m => .error (.panic m)
    | .ok none => .error (.reject "ArraySubscriptIndexNotInteger")
    | .ok (some c) =>
      match applyConv c i with
      | .error m => .error m
      | .ok i' =>
        match typeOf Γ (.index a i') with
        | .error _ => .error (.panic "expressions.rs: internal error: type unknown")
        | .ok ety => .ok (.index a i', ety)

/-! ## numeric constructors -/

/-- one iteration of the loop of `parse_expr_constructor` after the argument has been elaborated: its arity and the
    argument converted to the constructor's scalar kind at the argument's own dimension -/
def ctorSlot (s : Scalar) (e : IExpr) (τ : ETy) : Except Err (IExpr × Nat) :=
  match τ.ty.layer.dim with
  | none => .error (.reject "WrongTypeInConstructor")
  | some d =>
    match find τ (Ty.r ⟨{}, Layer.ofDim s d⟩) with
    | .error m => .error (.panic m)
    | .ok none => .error (.reject "WrongTypeInConstructor")
    | .ok (some c) =>
      match applyConv c e with
      | .error m => .error m
      | .ok e' => .ok (e', τ.ty.layer.numElements)


mutual
/-- `parse_expr_internal` -/
def elabE (dbg : Bool) (Γ : Env) : SExpr → Res
  | .lit k => selfCheck dbg Γ (.lit k) (scalarTy k).r
  | .var i =>
    -- `find_identifier`: the variable `v<i>` must be declared and its scope must not have ended
    if Γ.hidden.contains i then .error (.reject "UnknownIdentifier") else
    match Γ.vars[i]? with
    | some t => selfCheck dbg Γ (.var i) t.l
    | none => .error (.reject "UnknownIdentifier")
  | .un o e =>
    match elabE dbg Γ e with
    | .error m => .error m
    | .ok (e', τ) => (match elabUn Γ o e' τ with
      | .error m => .error m
      | .ok (n, τ') => selfCheck dbg Γ n τ')
  | .bin o a b =>
    match elabE dbg Γ a with
    | .error m => .error m
    | .ok (a', τa) =>
      match elabE dbg Γ b with
      | .error m => .error m
      | .ok (b', τb) =>
        match o.cls with
        | .arith =>
          match elabArith o a' τa b' τb with
          | .error m => .error m
          | .ok (n, τ) => selfCheck dbg Γ n τ
        | .assign =>
          match elabAssign Γ o a' τa b' τb with
          | .error m => .error m
          | .ok (n, τ) => selfCheck dbg Γ n τ
        | .sequence => selfCheck dbg Γ (.seq a' b') τb
  | .tern c a b =>
    match elabE dbg Γ c with
    | .error m => .error m
    | .ok (c', τc) =>
      match elabE dbg Γ a with
      | .error m => .error m
      | .ok (a', τa) =>
        match elabE dbg Γ b with
        | .error m => .error m
        | .ok (b', τb) =>
          match elabTern c' τc a' τa b' τb with
          | .error m => .error m
          | .ok (n, τ) => selfCheck dbg Γ n τ
  | .call name args =>
    if (candidates Γ name).isEmpty then .error (.reject "UnknownIdentifier") else
    if Γ.templates.contains name then .error (.unsupported "template function") else
    match elabArgs dbg Γ args with
    | .error m => .error m
    | .ok (args', ts) =>
      match elabCall Γ name args' ts with
      | .error m => .error m
      | .ok (n, τ) => selfCheck dbg Γ n τ
  | .cast t e =>
    match elabE dbg Γ e with
    | .error m => .error m
    | .ok (e', _) => selfCheck dbg Γ (.cast t e') t.r
  | .member e name =>
    match elabE dbg Γ e with
    | .error m => .error m
    | .ok (e', τ) =>
      match elabMember Γ name e' τ with
      | .error m => .error m
      | .ok (n, τ') => selfCheck dbg Γ n τ'
  | .index a i =>
    match elabE dbg Γ a with
    | .error m => .error m
    | .ok (a', τa) =>
      match elabE dbg Γ i with
      | .error m => .error m
      | .ok (i', τi) =>
        match elabIndex Γ a' τa i' τi with
        | .error m => .error m
        | .ok (n, τ) => selfCheck dbg Γ n τ
  | .ctor t args =>
    -- `target_scalar`: a type without scalar kind is reported before any argument is looked at
    match t.layer.extractScalar with
    | none => .error (.reject "ConstructorWrongArgumentCount")
    | some s =>
      match elabSlots dbg Γ s args with
      | .error m => .error m
      | .ok (args', arities) =>
        if arities.sum = t.layer.numElements then selfCheck dbg Γ (.ctor t arities args') t.r
        else .error (.reject "ConstructorWrongArgumentCount")
/-- the argument loop of `parse_expr_call` -/
def elabArgs (dbg : Bool) (Γ : Env) : SArgs → Except Err (IArgs × List ETy)
  | .nil => .ok (.nil, [])
  | .cons e r =>
    match elabE dbg Γ e with
    | .error m => .error m
    | .ok (e', τ) =>
      match elabArgs dbg Γ r with
      | .error m => .error m
      | .ok (r', ts) => .ok (.cons e' r', τ :: ts)
/-- the argument loop of `parse_expr_constructor`: each argument is elaborated and converted before the next one -/
def elabSlots (dbg : Bool) (Γ : Env) (s : Scalar) : SArgs → Except Err (IArgs × List Nat)
  | .nil => .ok (.nil, [])
  | .cons e r =>
    match elabE dbg Γ e with
    | .error m => .error m
    | .ok (e', τ) =>
      match ctorSlot s e' τ with
      | .error m => .error m
      | .ok (e'', arity) =>
        match elabSlots dbg Γ s r with
        | .error m => .error m
        | .ok (r', as) => .ok (.cons e'' r', arity :: as)
end

/-- `parse_expr`: `parse_expr_value_only` plus the unconditional type query -/
def elabTop (dbg : Bool) (Γ : Env) (e : SExpr) : Res :=
  match elabE dbg Γ e with
  | .error m => .error m
  | .ok (e', τ) => selfCheck true Γ e' τ

end RsslVerif.Model.ElabX

"""C04 — emitted DirectX HLSL is accepted by the front end and is a fixpoint."""
import os

T = "RsslVerif.Thm.C04."


def custom(ctx):
    if not ctx.harness_build():
        return
    root = os.path.dirname(os.path.dirname(os.path.abspath(__file__)))
    corpus = os.path.join(root, "corpus", "C04.txt")
    if os.path.exists(corpus) and os.path.getsize(corpus) > 0:
        cases, _ = ctx.run_harness(["c04", "--requests", corpus])
        ctx.correspond(cases, compare_model=False)
    cases, stats = ctx.run_harness(["c04", "--tier", ctx.tier, "--seed", str(ctx.seed)])
    ctx.stats.extend(stats)
    ctx.correspond(cases, compare_model=False)
    ctx.extra["model_comparison"] = ("none at whole-program level: the fixpoint run is the property's own oracle; the stage "
                                     "models (C09 printer/parser, C10 lexer, C15 names, C06 slots) are compared with the code "
                                     "in their own checks")


def nontrivial(req, obs):
    return obs.startswith("ok:")


def finding_key(req, obs, detail):
    # key by the first differing line class / rejection message, not by the whole program
    import re
    m = re.match(r"FAIL:panic ([^:]+):\d+: (.*)$", detail or "")
    if m:
        return f"panic {m.group(1)}: " + re.sub(r"\d+", "N", m.group(2))
    return req


SPEC = {
    "id": "C04",
    "gens": ["SlotTables"],
    "lean_modules": ["RsslVerif.Thm.C04"],
    "theorems": [T + "slots_stable", T + "run_explicit", T + "step_explicit"],
    "harness": "c04",
    "custom": custom,
    "nontrivial": nontrivial,
    "finding_key": finding_key,
    "rule": "programs = type-directed generated sources using every declaration kind (enum, struct with method, static/"
            "groupshared globals, cbuffer with register, resources of 16 object types with register/space annotations and "
            "bind-group attributes, arrays, function template, namespace, overloads, default / out / inout parameters, every "
            "statement form, casts, swizzles, intrinsics) + resource/pipeline programs + the repository's inputs under tests/; "
            "each compiled for DirectX in no-pipeline mode and the emitted text compiled again; the second generation must be "
            "accepted, byte-identical and keep every binding slot; non-trivial = the source was accepted",
    "level_text": "Proof by composition, partial: the slot-stability leg is proved here over the C06 allocator model (re-running "
                  "the allocator on the sequence with explicit groups reproduces every binding and inline block, for all "
                  "sequences); the other legs are the property theorems of C09 (print/parse round trip), C10 (literals re-read "
                  "exactly), C15 (unique unreserved names are kept) in their own modules. The composition itself (export "
                  "preserves declaration order/kinds, re-elaboration adds no conversions) is not a theorem: it is exercised by "
                  "the literal fixpoint run on generated programs and the repository corpus.",
    "trusted_base": [
        "Lean 4.33 kernel; axioms propext / Classical.choice / Quot.sound only",
        "Model/Slots.lean (tied to the code by C06's correspondence) and Gen.SlotTables",
        "the composition of stage theorems into the whole-program fixpoint is argued in DESIGN.md, not machine-checked",
    ],
    "assumptions": ["Rust's shortest round-trip float formatting and correctly rounded parsing (f64 Display / FromStr)"],
}

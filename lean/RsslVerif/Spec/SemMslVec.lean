import RsslVerif.Spec.SemVec
import RsslVerif.Spec.SemMsl
import RsslVerif.Spec.SemMslWT
/-!
# `Spec.SemMslVec` — what the emitted Metal *vector* syntax means (property C02, vector layer)

The Metal Shading Language reading of the syntax fragment `Model.IrVec.VAExpr` (leaves of the scalar syntax are read by
`Spec.SemMsl`).  Values, the abstract primitives and the typed semantics `VIr.eval` are those of C01's vector layer
(`Spec.SemVec`), unchanged.  Where Metal differs from HLSL the reading is spelled out here (MSL specification, "Vector
constructors", "Implicit type conversions", "Type conversions and re-interpreting data", "Operators"):

* **type names**: `bool int uint float` and `T2 T3 T4`; there is no one-component vector type.
* **no implicit vector conversions**: vector → vector of another type, vector → scalar and vector → shorter vector do not
  exist; a scalar converts implicitly to a vector (element conversion, then replicated).
* **explicit conversion** `(T)e` / `T(e)` with one operand: scalar → scalar, scalar → vector (replicated), vector → vector
  of the *same* size (component-wise).  Anything else is ill-formed (`castOK`; the expression then has no type).
* **constructors** `T_n(a, b, …)` with several arguments flatten their scalar / vector arguments, each component converted
  to the element type; the component count must be `n`.
* **members** `.xyzw` (`.rgba`) exist on vectors only; one letter selects a scalar.
* **operators** act component-wise on operands of ONE vector type (no integer promotion inside vectors; comparisons give
  `bool` vectors); a scalar operand next to a vector is converted to the element type and replicated; two scalar operands
  follow C++ (`Spec.SemMsl`: promotion, usual arithmetic conversions, Metal's shift rule); `&&` / `||` / `?:` take scalar
  conditions here.
* `metal::fmod(a, b)` is the component-wise float remainder (the primitive the IR's `%` on floats denotes); the
  *operators* `%` / `%=` do not exist for floating-point operands (`remOK`).
-/
namespace RsslVerif.Spec.SemMslVec
open RsslVerif.Gen.HlslGenTables RsslVerif.Gen.HlslVecTables RsslVerif.Model RsslVerif.Model.IrVec
open RsslVerif.Spec.Sem RsslVerif.Spec.SemVec
open RsslVerif.Model.Ir (Ty Var)

namespace VMsl

/-- `float`, `float3`, … -/
def vtyTable : List (String × VTy) :=
  VAst.scalarNames.map (fun p => (p.1, VTy.sc p.2)) ++
  VAst.scalarNames.flatMap (fun p => [(p.1 ++ "2", VTy.vec p.2 2), (p.1 ++ "3", VTy.vec p.2 3), (p.1 ++ "4", VTy.vec p.2 4)])

def vtyOfName (n : String) : Option VTy := (vtyTable.find? (fun p => p.1 == n)).map (·.2)

/-- the explicit conversions Metal has between the numeric types of the layer -/
def castOK : VTy → VTy → Bool
  | .sc _, .sc _ => true
  | .sc _, .vec _ _ => true
  | .vec _ n, .vec _ m => n == m
  | .vec _ _, .sc _ => false

/-- explicit conversion of an operand of static type `from_` (every component through `Msl.castM`) -/
def castMV (P : Prim) (from_ to : VTy) (v : VVal) : Option VVal :=
  match to, v with
  | .sc t, .sc x => (Msl.castM P from_.scalar t x).map .sc
  | .vec t n, .sc x => (Msl.castM P from_.scalar t x).map fun y => .vec (List.replicate n y)
  | .vec t n, .vec xs => if xs.length = n then (mapOpt (Msl.castM P from_.scalar t) xs).map .vec else none
  | .sc _, .vec _ => none

def castMVR (P : Prim) (from_ to : VTy) (r : VR) : VR :=
  match r with
  | none => none
  | some (v, σ) =>
    match castMV P from_ to v with
    | none => none
    | some v' => some (v', σ)

/-- implicit conversion: identity, scalar → scalar, scalar → vector -/
def convMV (P : Prim) (from_ to : VTy) (v : VVal) : Option VVal :=
  if from_ = to then some v
  else
    match from_, to, v with
    | .sc f, .sc t, .sc x => (Msl.convert P f t x).map .sc
    | .sc f, .vec t n, .sc x => (Msl.convert P f t x).map fun y => .vec (List.replicate n y)
    | _, _, _ => none

def convMVR (P : Prim) (from_ to : VTy) (r : VR) : VR :=
  match r with
  | none => none
  | some (v, σ) =>
    match convMV P from_ to v with
    | none => none
    | some v' => some (v', σ)

/-- can `from_` be converted implicitly to `to`? -/
def convOK : VTy → VTy → Bool
  | .sc _, .sc _ => true
  | .sc _, .vec _ _ => true
  | a, b => decide (a = b)

/-- static type of a member selection: vectors only -/
def memberTy (t : VTy) (m : String) : Option VTy :=
  match t with
  | .sc _ => none
  | .vec k n =>
    match VAst.parseSwizzle m with
    | none => none
    | some idx => if idx ≠ [] ∧ idx.all (fun i => decide (i < n)) = true then some (swzTy k idx.length) else none

/-- type in which a binary operator other than `&&` `||` is carried out -/
def binTy (m : MBin) (ta tb : VTy) : Option VTy :=
  match ta, tb with
  | .sc a, .sc b =>
    if Msl.isShift m then (if Msl.isInteger (Msl.promote a) && Msl.isInteger (Msl.promote b) then some (.sc (Msl.promote a)) else none)
    else (Msl.common a b).map .sc
  | .vec a n, .vec b k => if a = b ∧ n = k then some (.vec a n) else none
  | .vec a n, .sc _ => some (.vec a n)
  | .sc _, .vec b n => some (.vec b n)

def resTy (m : MBin) (t : VTy) : VTy := if m.isCmp then t.withScalar .bool else t

/-- the operator `%` (and `%=`) does not exist for floating-point operands (that is what `metal::fmod` is for) -/
def remOK (m : MBin) (ta tb : VTy) : Bool := !(m == .mod && (ta.scalar == .float || tb.scalar == .float))

/-- common type of the second and third operand of `?:` -/
def ternTy (a b : VTy) : Option VTy :=
  if a = b then some a
  else
    match a, b with
    | .sc x, .sc y => (Msl.common x y).map .sc
    | .vec x n, .sc _ => some (.vec x n)
    | .sc _, .vec y n => some (.vec y n)
    | _, _ => none

/-- static type of `f(args)` for the callees of the layer: `metal::fmod`, or a type name (a conversion with one argument,
a constructor that flattens with several) -/
def callTy (f : String) (tys : List VTy) : Option VTy :=
  if f == Msl.fmodName then
    match tys with
    | [ta, tb] => if ta.scalar = .float ∧ tb.scalar = .float then binTy .mod ta tb else none
    | _ => none
  else
    match vtyOfName f with
    | none => none
    | some ty =>
      match tys with
      | [ta] => if castOK ta ty then some ty else none
      | _ => if (tys.map VTy.count).sum = ty.count then some ty else none

mutual
def typeOf (sig : Msl.MSig) (env : VAst.VEnv) : VAExpr → Option VTy
  | .sc a => (Msl.typeOf sig env.base a).map .sc
  | .ident s => (env.vres s).map env.vvty
  | .cast n e =>
    match typeOf sig env e, vtyOfName n with
    | some te, some ty => if castOK te ty then some ty else none
    | _, _ => none
  | .member e m =>
    match typeOf sig env e with
    | none => none
    | some t => memberTy t m
  | .call f args =>
    match argTypes sig env args with
    | none => none
    | some tys => callTy f tys
  | .un op e =>
    match astUnSem op, typeOf sig env e with
    | .un .lnot, some t => some (t.withScalar .bool)
    | .un _, some (.sc k) => some (.sc (Msl.promote k))
    | .un _, some (.vec k n) => some (.vec k n)
    | _, _ => none
  | .bin op a b =>
    match astBinSem op, typeOf sig env a, typeOf sig env b with
    | .bin m, some ta, some tb => if remOK m ta tb then (binTy m ta tb).map (resTy m) else none
    | .land, some (.sc _), some (.sc _) => some (.sc .bool)
    | .lor, some (.sc _), some (.sc _) => some (.sc .bool)
    | _, _, _ => none
  | .tern c t f =>
    match typeOf sig env c, typeOf sig env t, typeOf sig env f with
    | some (.sc _), some tt, some tf => ternTy tt tf
    | _, _, _ => none
/-- the static types of the arguments of a call -/
def argTypes (sig : Msl.MSig) (env : VAst.VEnv) : VAExprs → Option (List VTy)
  | .nil => some []
  | .cons e r =>
    match typeOf sig env e, argTypes sig env r with
    | some t, some l => some (t :: l)
    | _, _ => none
end

/-- an operand brought to the operation type `T` (a scalar next to a vector: element conversion, replicated) -/
def operand (P : Prim) (from_ T : VTy) (v : VVal) : Option VVal := convMV P from_ T v

def operandR (P : Prim) (from_ T : VTy) (r : VR) : VR := convMVR P from_ T r

/-- the type an operand of static type `t` is converted to for an operation carried out at `T`: `T` itself, except that
the two operands of a scalar shift are promoted separately -/
def operandTy (m : MBin) (t T : VTy) : VTy :=
  match T with
  | .sc _ => if Msl.isShift m then .sc (Msl.promote t.scalar) else T
  | .vec _ _ => T

/-- the binary operator at operation type `T` -/
def binAt (P : Prim) (ta tb T : VTy) (m : MBin) (va vb : VVal) : Option VVal :=
  match T with
  | .sc k =>
    -- two scalars: C++ rules
    match va, vb with
    | .sc x, .sc y => (if Msl.isShift m then Msl.shiftM P (Msl.promote ta.scalar) (Msl.promote tb.scalar) m x y else Msl.binopM P k m x y).map .sc
    | _, _ => none
  | .vec _ _ => lift2 (binop P m) va vb

/-- the components a constructor receives from its evaluated arguments: each converted to the element kind `k` -/
def ctorComps (P : Prim) (k : Ty) : List VTy → List VVal → Option (List Val)
  | [], [] => some []
  | t :: ts, v :: vs =>
    match (if t.scalar = k then some v.comps else mapOpt (Msl.castM P t.scalar k) v.comps), ctorComps P k ts vs with
    | some cs, some l => some (cs ++ l)
    | _, _ => none
  | _, _ => none

/-- value of `f(args)` from the static types and the values of the arguments -/
def callVal (P : Prim) (f : String) (tys : List VTy) (vals : List VVal) : Option VVal :=
  if f == Msl.fmodName then
    match tys, vals with
    | [ta, tb], [va, vb] =>
      if ta.scalar = .float ∧ tb.scalar = .float then
        match binTy .mod ta tb with
        | none => none
        | some T =>
          match operand P ta T va, operand P tb T vb with
          | some x, some y => lift2 (binop P .mod) x y
          | _, _ => none
      else none
    | _, _ => none
  else
    match vtyOfName f with
    | none => none
    | some ty =>
      match tys, vals with
      | [ta], [v] =>
        -- `T(e)`: a conversion; between types of one element kind no component changes
        if castOK ta ty then
          (if ta.scalar = ty.scalar then
            match ty, v with
            | .vec _ n, .sc x => some (.vec (List.replicate n x))
            | _, w => some w
           else castMV P ta ty v)
        else none
      | _, _ =>
        if (tys.map VTy.count).sum = ty.count then
          match ctorComps P ty.scalar tys vals with
          | none => none
          | some cs => build ty cs
        else none

mutual
def eval (M : Msl.MWorld) (env : VAst.VEnv) (ρ : VStore) : VAExpr → Store → VR
  | .sc a, σ =>
    match Msl.eval M env.base a σ with
    | none => none
    | some (v, σ1) => some (.sc v, σ1)
  | .ident s, σ =>
    match env.vres s with
    | none => none
    | some x => some (ρ x, σ)
  | .cast n e, σ =>
    match typeOf M.msig env e, vtyOfName n with
    | some te, some ty => if castOK te ty then castMVR M.P te ty (eval M env ρ e σ) else none
    | _, _ => none
  | .member e m, σ =>
    match typeOf M.msig env e with
    | none => none
    | some t =>
      match memberTy t m, VAst.parseSwizzle m with
      | some _, some idx =>
        match eval M env ρ e σ with
        | none => none
        | some (v, σ1) =>
          match select idx v with
          | none => none
          | some r => some (r, σ1)
      | _, _ => none
  | .call f args, σ =>
    match argTypes M.msig env args with
    | none => none
    | some tys =>
      match evalArgs M env ρ args σ with
      | none => none
      | some (vals, σ1) =>
        match callVal M.P f tys vals with
        | none => none
        | some r => some (r, σ1)
  | .tern c t f, σ =>
    match typeOf M.msig env c, typeOf M.msig env t, typeOf M.msig env f with
    | some (.sc tc), some tt, some tf =>
      match ternTy tt tf with
      | none => none
      | some T =>
        match convMVR M.P (.sc tc) (.sc .bool) (eval M env ρ c σ) with
        | some (.sc (.b true), σ1) => convMVR M.P tt T (eval M env ρ t σ1)
        | some (.sc (.b false), σ1) => convMVR M.P tf T (eval M env ρ f σ1)
        | _ => none
    | _, _, _ => none
  | .un op e, σ =>
    match astUnSem op with
    | .un m =>
      match typeOf M.msig env e with
      | none => none
      | some (.sc k) =>
        match convMVR M.P (.sc k) (.sc (if m = .lnot then .bool else Msl.promote k)) (eval M env ρ e σ) with
        | some (.sc v, σ1) =>
          (match (if m = .lnot then unop M.P m v else Msl.unopM M.P (Msl.promote k) m v) with
           | none => none
           | some r => some (.sc r, σ1))
        | _ => none
      | some (.vec k n) =>
        -- no promotion inside vectors; `!` needs boolean components
        if m = .lnot ∧ k ≠ .bool then none
        else
          match eval M env ρ e σ with
          | none => none
          | some (v, σ1) =>
            match lift1 (unop M.P m) v with
            | none => none
            | some r => some (r, σ1)
    | _ => none
  | .bin op a b, σ =>
    match astBinSem op with
    | .bin m =>
      match typeOf M.msig env a, typeOf M.msig env b with
      | some ta, some tb =>
        match (if remOK m ta tb then binTy m ta tb else none) with
        | none => none
        | some T =>
          match operandR M.P ta (operandTy m ta T) (eval M env ρ a σ) with
          | none => none
          | some (va, σ1) =>
            match operandR M.P tb (operandTy m tb T) (eval M env ρ b σ1) with
            | none => none
            | some (vb, σ2) =>
              match binAt M.P ta tb T m va vb with
              | none => none
              | some r => some (r, σ2)
      | _, _ => none
    | .land =>
      match typeOf M.msig env a, typeOf M.msig env b with
      | some (.sc ta), some (.sc tb) =>
        match convMVR M.P (.sc ta) (.sc .bool) (eval M env ρ a σ) with
        | some (.sc (.b false), σ1) => some (.sc (.b false), σ1)
        | some (.sc (.b true), σ1) =>
          match convMVR M.P (.sc tb) (.sc .bool) (eval M env ρ b σ1) with
          | some (.sc (.b r), σ2) => some (.sc (.b r), σ2)
          | _ => none
        | _ => none
      | _, _ => none
    | .lor =>
      match typeOf M.msig env a, typeOf M.msig env b with
      | some (.sc ta), some (.sc tb) =>
        match convMVR M.P (.sc ta) (.sc .bool) (eval M env ρ a σ) with
        | some (.sc (.b true), σ1) => some (.sc (.b true), σ1)
        | some (.sc (.b false), σ1) =>
          match convMVR M.P (.sc tb) (.sc .bool) (eval M env ρ b σ1) with
          | some (.sc (.b r), σ2) => some (.sc (.b r), σ2)
          | _ => none
        | _ => none
      | _, _ => none
    | _ => none
/-- the arguments of a call, left to right -/
def evalArgs (M : Msl.MWorld) (env : VAst.VEnv) (ρ : VStore) : VAExprs → Store → Option (List VVal × Store)
  | .nil, σ => some ([], σ)
  | .cons e r, σ =>
    match eval M env ρ e σ with
    | none => none
    | some (v, σ1) =>
      match evalArgs M env ρ r σ1 with
      | none => none
      | some (l, σ2) => some (v :: l, σ2)
end

/-! ### statement-level assignment to a vector variable or to a swizzle of one

`v = E;`, `v.xz = E;`, `v += E;`, `v.yx *= E;`: Metal converts the right operand implicitly to the type of the left one
(identity, scalar → scalar, scalar → vector only); a compound assignment computes `l op r` at the operation type and stores
the result converted back the same way; a swizzle with a repeated component is not assignable. -/

def nodupIdx : Option (List Nat) → Bool
  | none => true
  | some is => is.Nodup

def evalTop (M : Msl.MWorld) (env : VAst.VEnv) (ρ : VStore) (a : VAExpr) (σ : Store) : Option (VVal × Store × VStore) :=
  match a with
  | .bin op l r =>
    match astBinSem op with
    | .assign =>
      match VAst.lvalOfV env l, typeOf M.msig env l, typeOf M.msig env r with
      | some (x, idx), some T, some tr =>
        if convOK tr T && nodupIdx idx then
          match convMVR M.P tr T (eval M env ρ r σ) with
          | none => none
          | some (v, σ1) =>
            match writePlace (ρ x) idx v with
            | none => none
            | some nv => some (v, σ1, ρ.set x nv)
        else none
      | _, _, _ => none
    | .compound m =>
      match VAst.lvalOfV env l, typeOf M.msig env l, typeOf M.msig env r with
      | some (x, idx), some T, some tr =>
        match (if remOK m T tr then binTy m T tr else none) with
        | none => none
        | some C =>
          if convOK C T && nodupIdx idx then
            match operandR M.P tr (operandTy m tr C) (eval M env ρ r σ) with
            | none => none
            | some (v, σ1) =>
              match readPlace (ρ x) idx with
              | none => none
              | some cur0 =>
                match operand M.P T (operandTy m T C) cur0 with
                | none => none
                | some cur =>
                  match binAt M.P T tr C m cur v with
                  | none => none
                  | some r1 =>
                    match convMV M.P C T r1 with
                    | none => none
                    | some r2 =>
                      match writePlace (ρ x) idx r2 with
                      | none => none
                      | some nv => some (r2, σ1, ρ.set x nv)
          else none
      | _, _, _ => none
    | _ => (eval M env ρ a σ).map fun r => (r.1, r.2, ρ)
  | _ => (eval M env ρ a σ).map fun r => (r.1, r.2, ρ)

end VMsl

/-! ## side conditions of the vector theorems

Where the Metal reading is *known* to coincide with the typed semantics.  Excluded: one-component vector types (`float1` is
emitted as `float`: the value would change representation), literal kinds, widening vector casts (the type checker has no
such conversion), unary / binary arithmetic on *scalar* `bool` operands (C++ promotes them to `int`; covered by the oracle
only, as in the scalar half) and the bare `Int32(i32::MIN)` constant as a scalar leaf (a `long` in Metal; known finding). -/
namespace VOk

def basicK : Ty → Bool
  | .bool | .int | .uint | .float => true
  | _ => false

def arithK : Ty → Bool
  | .int | .uint | .float => true
  | _ => false

def intK : Ty → Bool
  | .int | .uint => true
  | _ => false

/-- a numeric type Metal can name: a basic kind, 2 to 4 components -/
def tyOKM : VTy → Bool
  | .sc k => basicK k
  | .vec k n => basicK k && decide (2 ≤ n) && decide (n ≤ 4)

/-- no widening of vectors -/
def castFits : VTy → VTy → Bool
  | .vec _ m, .vec _ n => decide (n ≤ m)
  | _, _ => true

def optTyOKM : Option VTy → Bool
  | some t => tyOKM t
  | none => false

/-- a **literal operand converted to a concrete type**: what the type checker builds since fixes 40c6233 / c05bffa for the
literal next to a vector (`b + 1` ↦ `(int3)b + (int3)1`, `c ? v : 1.5` ↦ `c ? (float3)v : (float3)1.5`; before, the *other*
operand was cast to a vector of the literal type and the exporter panicked).  An integer literal of magnitude below 2^31 is an
`int` in Metal as well (negative: unary minus applied to an `int`), an unsuffixed floating literal a `float`: the explicit
conversion to the concrete kind gives the value the IR's conversion of the exact literal gives.  (Wider integer literals are
`long` in Metal — the known finding *metal-integer-literal-typing* — and stay outside.) -/
def litOperandOK (ty : VTy) : VExpr → Bool
  | .sc (.lit (.intLit v)) => decide (-2147483648 < v) && decide (v < 2147483648)
  | .sc (.lit (.floatLit _)) => ty.scalar == .float
  | _ => false

mutual
def okMV (S : Ir.Side) (vvty : Var → VTy) : VExpr → Bool
  | .sc e => Ir.okM S e && !Ir.isMin e && (match Ir.typeOf S.sig S.vty e with | some k => basicK k | none => false)
  | .vvar id => S.vis (.loc id) && tyOKM (vvty (.loc id))
  | .vglobal id => S.vis (.glob id) && tyOKM (vvty (.glob id))
  | .cast ty e =>
    tyOKM ty &&
      (litOperandOK ty e ||
        (okMV S vvty e &&
          (match SemVec.VIr.typeOf S.sig S.vty vvty e with
            | some te => tyOKM te && castFits te ty
            | none => false)))
  | .swz e sl => okMV S vvty e && optTyOKM (SemVec.VIr.typeOf S.sig S.vty vvty e) && decide (sl.length ≤ 4)
  | .ctor ty slots => tyOKM ty && okMVSlots S vvty slots
  | .tern c t f => okMV S vvty c && okMV S vvty t && okMV S vvty f
  | .op o args =>
    okMVs S vvty args &&
      (match args with
        | .cons a .nil =>
          (match irOpSem o, SemVec.VIr.typeOf S.sig S.vty vvty a with
            | .un .lnot, _ => true
            | .un _, some (.sc k) => arithK k
            | _, _ => true)
        | .cons a (.cons _ .nil) =>
          (match irOpSem o, SemVec.VIr.typeOf S.sig S.vty vvty a with
            | .bin m, some (.sc k) => if Msl.isShift m then intK k else arithK k
            | _, _ => true)
        | _ => true)
def okMVs (S : Ir.Side) (vvty : Var → VTy) : VExprs → Bool
  | .nil => true
  | .cons e r => okMV S vvty e && okMVs S vvty r
def okMVSlots (S : Ir.Side) (vvty : Var → VTy) : VSlots → Bool
  | .nil => true
  | .cons _ e r => okMV S vvty e && okMVSlots S vvty r
end

/-- the assigned place of a statement-level assignment: a vector variable in scope, or a swizzle with distinct components
of a variable of *vector* type (on a scalar the exporter emits no member) -/
def placeOKM (vis : Var → Bool) (vvty : Var → VTy) : VExpr → Bool
  | .vvar id => vis (.loc id)
  | .vglobal id => vis (.glob id)
  | .swz (.vvar id) sl => vis (.loc id) && (match vvty (.loc id) with | .vec _ _ => true | _ => false) && decide ((sl.map slotIdx).Nodup)
  | .swz (.vglobal id) sl => vis (.glob id) && (match vvty (.glob id) with | .vec _ _ => true | _ => false) && decide ((sl.map slotIdx).Nodup)
  | _ => false

/-- operands of a compound assignment carried out at type `T`: a scalar `T` must be int / uint (shifts) or int / uint / float.
(Until fix batch 3 `%=` also needed a non-float kind: the exporter emitted the operator Metal does not have — known finding
metal-remainder-operator-on-floats; since 92d66eb + 35faaaa it emits `l = metal::fmod(l, r)`, inside the theorem.) -/
def binSideB (m : MBin) (T : VTy) : Bool :=
  match T with
  | .sc k => if Msl.isShift m then intK k else arithK k
  | .vec _ _ => true

/-- the shape a value of a type has -/
def shaped : VTy → VVal → Bool
  | .sc _, .sc _ => true
  | .vec _ n, .vec xs => decide (xs.length = n)
  | _, _ => false

end VOk

/-! ## matrices: orientation

An RSSL matrix `floatRxC` has `R` rows of `C` components (`m[i]` is row `i`, the constructor takes its scalars row by row).
The exporter names it `metal::floatCxR`: `C` columns of `R` components (`matrixTypeNameSwapsDims`) — the *same logical
matrix*, stored by columns — and emits `mul(a, b)` as `a * b` (`mulIsMultiplyInOrder`).  `toMetal` is that correspondence;
`mulMV_toMetal` (Thm) says Metal's matrix × vector product on the corresponding object is RSSL's `mul(M, v)`.  The Metal
constructor from scalars fills **columns**, so keeping the argument order (as the Constructor arm does) builds the
transposed matrix: `ctor_from_scalars_transposes` (a negation witness; known finding). -/
namespace Mat
variable {α : Type}

/-- column `j` of a matrix given by its rows -/
def column (rows : List (List α)) (j : Nat) : List α := rows.filterMap (·[j]?)

/-- the Metal object (list of columns) that denotes the RSSL matrix (list of rows) with `c` columns -/
def toMetal (c : Nat) (rows : List (List α)) : List (List α) := (List.range c).map (column rows)

/-- dot product with a given first term order: `x0*y0 + x1*y1 + …`, left-associated, as both languages define it -/
def dot (add mul : α → α → α) : List α → List α → Option α
  | x :: xs, y :: ys =>
    let rec go (acc : α) : List α → List α → α
      | a :: as, b :: bs => go (add acc (mul a b)) as bs
      | _, _ => acc
    some (go (mul x y) xs ys)
  | _, _ => none

/-- RSSL / HLSL `mul(M, v)`: component `i` is `dot(row i, v)` -/
def mulRowsVec (add mul : α → α → α) (rows : List (List α)) (v : List α) : Option (List α) :=
  mapOptG (fun r => dot add mul r v) rows
where
  mapOptG {β γ : Type} (f : β → Option γ) : List β → Option (List γ)
    | [] => some []
    | x :: xs =>
      match f x, mapOptG f xs with
      | some y, some ys => some (y :: ys)
      | _, _ => none

/-- Metal `M * v` for a matrix given by its columns: `Σ_j column_j * v_j` as a linear combination of the columns,
left-associated; component `i` of the result -/
def mulColsVecAt (add mul : α → α → α) (cols : List (List α)) (v : List α) (i : Nat) : Option α :=
  match cols, v with
  | c0 :: cs, v0 :: vs =>
    match c0[i]? with
    | none => none
    | some x0 =>
      let rec go (acc : α) : List (List α) → List α → Option α
        | c :: cs, w :: ws =>
          match c[i]? with
          | none => none
          | some x => go (add acc (mul x w)) cs ws
        | _, _ => some acc
      go (mul x0 v0) cs vs
  | _, _ => none

/-- Metal's constructor from scalars: consecutive groups of `r` scalars are the columns -/
def metalFromScalars (r : Nat) : Nat → List α → List (List α)
  | 0, _ => []
  | c + 1, xs => xs.take r :: metalFromScalars r c (xs.drop r)

/-- RSSL's constructor from scalars: consecutive groups of `c` scalars are the rows -/
def rsslFromScalars (c : Nat) : Nat → List α → List (List α)
  | 0, _ => []
  | r + 1, xs => xs.take c :: rsslFromScalars c r (xs.drop c)

end Mat

end RsslVerif.Spec.SemMslVec

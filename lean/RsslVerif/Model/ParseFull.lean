import RsslVerif.Model.FormatFull
/-!
# C09 model, reading half, full expression language and types

`xparseLvl W f k term ts` is `Model/Parse.lean`'s `parseLvl` extended by what `parser/expressions.rs`,
`parser/types.rs` and `parser/declarations.rs` do for

* `expr_p2_cast` and `expr_p2_sizeof` (level 2),
* `expr_p1_call`'s template arguments (`parse_template_args` in front of the `(`),
* `parse_expression_or_type_with_or_without_symbols` (both readings, the longer one wins, equal length = `Either`),
* `parse_type_id_internal` = `parse_type_internal` (modifiers before, layout, modifiers after) + abstract declarator,
* `parse_declarator_internal` (pointer / reference prefixes, identifier unless abstract, array dimensions).

**Type names.** `parse_expression_resolve_symbols` runs `expr_p15` once per subset of the names it has seen in cast
position ("is not a type") and returns all distinct results as an `AmbiguousParseBranch`, which the type checker resolves
with the names that really are types.  The model takes that set of names as the parameter `W` and is the run in which
exactly the names outside `W` are rejected (`SymbolIsNotAType`); the harness resolves the real result the same way.
Only `parse_type_layout_internal` called *with* a symbol table consults it (casts and the type reading of `sizeof`);
template arguments and declarations are read without one (`sym = false`).

**Choice.** `select` keeps the alternative that leaves fewer tokens (an error counts by where it occurred), the earlier
alternative on a tie.  The alternatives of `expr_leaf`, `expr_p1_right` and `expr_p2` start with different tokens except
`expr_p2_cast` / `expr_p1` on `(`.  There the model takes the cast whenever the cast alternative succeeds and the
postfix alternative otherwise — assuming (tested by the correspondence run, argued in notes/C09.md) that `(` expr `)`
followed by postfix operators never reaches further than a successful `(` type `)` operand.  Failures are `none`; how
far a failed alternative got is not represented.

Not modelled: attributes inside declarators (`* [[a]]`, `x [[a]]`), `BracedInit`.
-/
namespace RsslVerif.Model.ParseFull
open RsslVerif.Gen.FmtTables RsslVerif.Gen.ParseTables RsslVerif.Gen.SyntaxTables RsslVerif.Model.Format
open RsslVerif.Model.FormatFull

/-- `parse_type_modifiers_before`, one token -/
inductive ModStep where
  | mod (m : TypeMod)
  | skip
  | stop
  deriving DecidableEq

def modBeforeStep (t : Tok) : ModStep :=
  match t with
  | .p k =>
    match modBeforeKw.find? (fun e => e.1 == k) with
    | some e => .mod e.2
    | none => if modBeforeSkips.contains k then .skip else .stop
  | .id n =>
    match modBeforeId.find? (fun e => e.1 == n) with
    | some e => .mod e.2
    | none => .stop
  | _ => .stop

/-- `parse_type_modifiers_before`: the loop -/
def takeModsBefore : List Tok → List TypeMod × List Tok
  | [] => ([], [])
  | t :: rest =>
    match modBeforeStep t with
    | .mod m => let (ms, r) := takeModsBefore rest; (m :: ms, r)
    | .skip => takeModsBefore rest
    | .stop => ([], t :: rest)

def modAfterStep (t : Tok) : Option TypeMod :=
  match t with
  | .p k => (modAfterKw.find? (fun e => e.1 == k)).map (·.2)
  | _ => none

/-- `parse_type_modifiers_after` -/
def takeModsAfter : List Tok → List TypeMod × List Tok
  | [] => ([], [])
  | t :: rest =>
    match modAfterStep t with
    | some m => let (ms, r) := takeModsAfter rest; (m :: ms, r)
    | none => ([], t :: rest)

variable (W : List String)

mutual
def xparseLvl : Nat → Nat → Terminator → List Tok → Option (XExpr × List Tok)
  | 0, _, _, _ => none
  | f + 1, 0, _, ts =>
    -- `expr_leaf`
    match ts with
    | .id n :: rest => some (.id n, rest)
    | .lit n :: rest => some (.lit n, rest)
    | .p .LeftParen :: rest =>
      match xparseLvl f 15 parenTerminator rest with
      | some (e, .p .RightParen :: rest') => some (e, rest')
      | _ => none
    | _ => none
  | f + 1, k + 1, term, ts =>
    if k + 1 = 2 then
      -- `expr_p2`: prefix operator / cast / sizeof / `expr_p1`
      match ts with
      | [] => none
      | t :: rest =>
        match prefixOp t with
        | some op =>
          match xparseLvl f 2 term rest with
          | some (e, r) => some (.un op e, r)
          | none => none
        | none =>
          if t = .p .SizeOf then
            match rest with
            | .p .LeftParen :: r =>
              match parseEOT f true r with
              | some (a, .p .RightParen :: r') => some (.sizeof a, r')
              | _ => none
            | _ => none
          else
            match (if t = .p .LeftParen then castAlt f term rest else none) with
            | some res => some res
            | none =>
              match xparseLvl f 1 term ts with
              | some (a, r) => xcont f 2 term a r
              | none => none
    else
      match xparseLvl f k term ts with
      | some (a, r) => xcont f (k + 1) term a r
      | none => none
/-- `expr_p2_cast` after its `(` -/
def castAlt : Nat → Terminator → List Tok → Option (XExpr × List Tok)
  | 0, _, _ => none
  | f + 1, term, ts =>
    match parseTyId f true ts with
    | some (ty, .p .RightParen :: r) =>
      match xparseLvl f 2 term r with
      | some (e, r') => some (.cast ty e, r')
      | none => none
    | _ => none
def xcont : Nat → Nat → Terminator → XExpr → List Tok → Option (XExpr × List Tok)
  | 0, _, _, _, _ => none
  | f + 1, k, term, acc, ts =>
    if k = 1 then
      match ts with
      | .p .PlusPlus :: r => xcont f 1 term (.un .PostfixIncrement acc) r
      | .p .MinusMinus :: r => xcont f 1 term (.un .PostfixDecrement acc) r
      | .p .Period :: .id n :: r => xcont f 1 term (.mem acc n) r
      | .p .Period :: _ => none
      | .p .LeftSquareBracket :: r =>
        match xparseLvl f 15 subscriptTerminator r with
        | some (i, .p .RightSquareBracket :: r') => xcont f 1 term (.sub acc i) r'
        | _ => none
      | .p .LeftParen :: r =>
        match xparseArgs f r with
        | some (args, r') => xcont f 1 term (.call acc .nil args) r'
        | none => none
      | .lt b :: r =>
        -- `expr_p1_call`: template arguments, then the `(` must follow (otherwise the alternative fails at its start)
        match parseTArgsReq f (.lt b :: r) with
        | some (targs, .p .LeftParen :: r1) =>
          match xparseArgs f r1 with
          | some (args, r') => xcont f 1 term (.call acc targs args) r'
          | none => none
        | _ => some (acc, ts)
      | _ => some (acc, ts)
    else if k = 2 then some (acc, ts)
    else if k = 13 then
      match ts with
      | .p .QuestionMark :: r =>
        match xparseLvl f ternMiddleLevel term r with
        | some (a, .p .Colon :: r2) =>
          match xparseLvl f ternLastLevel term r2 with
          | some (b, r3) => some (.tern acc a b, r3)
          | none => some (acc, ts)
        | _ => some (acc, ts)
      | _ => some (acc, ts)
    else if k = 14 then
      match parseOpAt 14 term ts with
      | some (op, r) =>
        match xparseLvl f 14 term r with
        | some (rhs, r') => some (.bin op acc rhs, r')
        | none => some (acc, ts)
      | none => some (acc, ts)
    else
      match parseOpAt k term ts with
      | some (op, r) =>
        match xparseLvl f (k - 1) term r with
        | some (rhs, r') => xcont f k term (.bin op acc rhs) r'
        | none => none
      | none => some (acc, ts)
/-- after `(`: the argument list up to and including `)` -/
def xparseArgs : Nat → List Tok → Option (XArgs × List Tok)
  | 0, _ => none
  | f + 1, ts =>
    match ts with
    | .p .RightParen :: r => some (.nil, r)
    | _ => xparseArgs1 f ts
/-- a non-empty argument list up to and including `)` -/
def xparseArgs1 : Nat → List Tok → Option (XArgs × List Tok)
  | 0, _ => none
  | f + 1, ts =>
    match xparseLvl f 15 callArgTerminator ts with
    | some (e, .p .Comma :: r) =>
      match xparseArgs1 f r with
      | some (as, r') => some (.cons e as, r')
      | none => none
    | some (e, .p .RightParen :: r) => some (.cons e .nil, r)
    | _ => none
/-- `parse_template_args_req`: `<` list `>`; an element that cannot be read at all ends the (then empty) list -/
def parseTArgsReq : Nat → List Tok → Option (TArgs × List Tok)
  | 0, _ => none
  | f + 1, ts =>
    match ts with
    | .lt _ :: .gt _ :: r => some (.nil, r)
    | .lt _ :: r =>
      match parseTArgList f r with
      | some (as, .gt _ :: r') => some (as, r')
      | _ => none
    | _ => none
/-- a non-empty `parse_list(Comma, parse_expression_or_type)` -/
def parseTArgList : Nat → List Tok → Option (TArgs × List Tok)
  | 0, _ => none
  | f + 1, ts =>
    match parseEOT f false ts with
    | some (a, .p .Comma :: r) =>
      match parseTArgList f r with
      | some (as, r') => some (.cons a as, r')
      | none => none
    | some (a, r) => some (.cons a .nil, r)
    | none => none
/-- `parse_expression_or_type_with_or_without_symbols` -/
def parseEOT : Nat → Bool → List Tok → Option (TArg × List Tok)
  | 0, _, _ => none
  | f + 1, sym, ts =>
    match parseTyId f sym ts, xparseLvl f 15 eotTerminator ts with
    | some (ty, r1), some (ex, r2) =>
      if r1.length < r2.length then some (.t ty, r1)
      else if r1.length = r2.length then some (.both ex ty, r1)
      else some (.e ex, r2)
    | some (ty, r1), none => some (.t ty, r1)
    | none, some (ex, r2) => some (.e ex, r2)
    | none, none => none
/-- `parse_type_id_internal`; `sym` = called with a symbol table (names outside `W` are not types) -/
def parseTyId : Nat → Bool → List Tok → Option (TyId × List Tok)
  | 0, _, _ => none
  | f + 1, sym, ts =>
    match takeModsBefore ts with
    | (mods, .id n :: r) =>
      if sym && !W.contains n then none else
      let (targs, r1) : TArgs × List Tok :=
        match parseTArgsReq f r with
        | some x => x
        | none => (.nil, r)
      let (mods2, r2) := takeModsAfter r1
      match parseDecl f true r2 with
      | some (d, r3) => some (.mk (mods ++ mods2) n targs d, r3)
      | none => none
    | _ => none
/-- `parse_declarator_internal` -/
def parseDecl : Nat → Bool → List Tok → Option (Decl × List Tok)
  | 0, _, _ => none
  | f + 1, abstr, ts =>
    match ts with
    | .p .Asterix :: .p .LeftSquareBracket :: _ => none   -- an attribute would be read here (not modelled)
    | .p .Asterix :: r =>
      let (quals, r1) := takeModsAfter r
      match parseDecl f abstr r1 with
      | some (inner, r2) => some (.ptr quals inner, r2)
      | none => none
    | .p .Ampersand :: .p .LeftSquareBracket :: _ => none
    | .p .Ampersand :: r =>
      match parseDecl f abstr r with
      | some (inner, r2) => some (.ref inner, r2)
      | none => none
    | _ =>
      if abstr then parseArrDims f .empty ts
      else
        match ts with
        | .id n :: r => parseArrDims f (.name n) r
        | _ => none
/-- the `while let Ok(..) = parse_arraydim(input)` loop -/
def parseArrDims : Nat → Decl → List Tok → Option (Decl × List Tok)
  | 0, _, _ => none
  | f + 1, acc, ts =>
    match ts with
    | .p .LeftSquareBracket :: r =>
      match xparseLvl f 15 arraySizeTerminator r with
      | some (e, .p .RightSquareBracket :: r') => parseArrDims f (.arr acc e) r'
      | some _ => some (acc, ts)
      | none =>
        match r with
        | .p .RightSquareBracket :: r' => parseArrDims f (.arrN acc) r'
        | _ => some (acc, ts)
    | _ => some (acc, ts)
end

/-- `parse_expression` / `parse_expression_no_seq` on a whole token list, with fuel enough for it -/
def xparseAll (term : Terminator) (ts : List Tok) : Option (XExpr × List Tok) :=
  xparseLvl W (30 * ts.length + 60) 15 term ts

end RsslVerif.Model.ParseFull

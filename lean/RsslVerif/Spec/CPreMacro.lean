import RsslVerif.Model.Macro
/-!
# Reference semantics for C12: the C preprocessor on the property's subset

Our reading of C11 §6.10.3 (macro replacement) and §6.10.3.5 (scope of macro definitions), restricted to the
subset named in the property: no `#` operator, operands of `##` are not macro names.

* `Spec.lookup`: a name denotes the latest `#define` that is not followed by an `#undef` (§6.10.3.5).
* `Spec.expand`: D. Prosser's algorithm (the one the standard's wording was derived from): every token carries a
  *hide set*; an identifier is replaced unless its own name is in its hide set ("painted"); arguments are fully
  macro-expanded before substitution unless they are operands of `##`; `##` pastes its two neighbours (an empty
  argument is a placemarker); the result is rescanned together with the rest of the source.
  White space is not a token here (it matters to C only for `#`).
The spec is executable and takes fuel; a theorem that relates it to the model says "for some fuel".
-/
namespace RsslVerif.Spec.CPreMacro
open RsslVerif.Model.Macro

/-! ## Scope of definitions -/

inductive Event (μ : Type) where
  | define (name : String) (m : μ)
  | undef (name : String)

/-- newest event first: the first event that mentions `n` decides -/
def lookupNewestFirst {μ : Type} : List (Event μ) → String → Option μ
  | [], _ => none
  | .define k m :: older, n => if k = n then some m else lookupNewestFirst older n
  | .undef k :: older, n => if k = n then none else lookupNewestFirst older n

/-- events in source order: the latest `#define` of `n` not followed by an `#undef` of `n` -/
def lookup {μ : Type} (evs : List (Event μ)) (n : String) : Option μ :=
  lookupNewestFirst evs.reverse n

/-! ## Macro replacement -/

structure SMacro where
  name : String
  /-- `none`: object-like -/
  params : Option (List String)
  /-- replacement list without white space; `Tok.hashhash` is the `##` operator -/
  body : List Tok
  deriving DecidableEq, Repr, Inhabited

structure HTok where
  tok : Tok
  hide : List String
  deriving DecidableEq, Repr, Inhabited

inductive SErr where
  | fuel
  | arity
  | unterminated
  | pasteInvalid
  | pasteAtEdge
  deriving DecidableEq, Repr, Inhabited

def find (ms : List SMacro) (n : String) : Option SMacro := ms.find? (·.name == n)

/-- actuals up to the matching `)`: (arguments, hide set of the `)`, rest) -/
def collectArgs : List HTok → Nat → List HTok → List (List HTok) →
    Option (List (List HTok) × List String × List HTok)
  | [], _, _, _ => none
  | t :: rest, depth, cur, acc =>
    match t.tok with
    | .lparen => collectArgs rest (depth + 1) (cur ++ [t]) acc
    | .rparen =>
      if depth = 0 then some (acc ++ [cur], t.hide, rest)
      else collectArgs rest (depth - 1) (cur ++ [t]) acc
    | .comma =>
      if depth = 0 then collectArgs rest 0 [] (acc ++ [cur])
      else collectArgs rest depth (cur ++ [t]) acc
    | _ => collectArgs rest depth (cur ++ [t]) acc

/-- result of pasting two tokens (`none`: not a valid token): an identifier with an identifier or a number, a number
with a number, and the two-character operators (`Model.Macro.punctMerges`, compared with the lexer by
`Thm.C12.paste_matches_lexer`) -/
def pasteTok : Tok → Tok → Option Tok
  | .id a, .id b => some (.id (a ++ b))
  | .id a, .int b => some (.id (a ++ b))
  | .int a, .int b => some (.int (a ++ b))
  | .punct a, .punct b => if punctMerges.contains (a, b) then some (.punct (a ++ b)) else none
  | _, _ => none

/-- an item of a replacement list after parameter replacement -/
inductive Item where
  | tok (t : HTok)
  | placemarker
  | paste
  deriving DecidableEq, Repr, Inhabited

def paramIndex (ps : List String) (t : Tok) : Option Nat :=
  match t with
  | .id s => indexOfName s ps 0
  | _ => none

/-- phase 1: parameters are replaced by their (expanded, unless next to `##`) arguments -/
def replaceParams (ex : List HTok → Except SErr (List HTok)) (ps : List String) (args : List (List HTok)) :
    Option Tok → List Tok → Except SErr (List Item)
  | _, [] => .ok []
  | prev, t :: rest =>
    let nextToPaste := prev = some .hashhash || rest.head? = some .hashhash
    let here : Except SErr (List Item) :=
      if t = .hashhash then .ok [.paste]
      else match paramIndex ps t with
        | some i =>
          let a := args.getD i []
          if nextToPaste then .ok (if a.isEmpty then [.placemarker] else a.map .tok)
          else match ex a with
            | .ok e => .ok (e.map .tok)
            | .error e => .error e
        | none => .ok [.tok ⟨t, []⟩]
    match here, replaceParams ex ps args (some t) rest with
    | .ok a, .ok b => .ok (a ++ b)
    | .error e, _ => .error e
    | _, .error e => .error e

def pasteItems : Item → Item → Except SErr Item
  | .placemarker, x => .ok x
  | x, .placemarker => .ok x
  | .tok a, .tok b =>
    match pasteTok a.tok b.tok with
    | some t => .ok (.tok ⟨t, a.hide.filter (b.hide.contains ·)⟩)
    | none => .error .pasteInvalid
  | _, _ => .error .pasteAtEdge

/-- phase 2: the pastes, left to right (`done` is reversed) -/
def doPastes : List Item → List Item → Except SErr (List Item)
  | done, [] => .ok done.reverse
  | done, .paste :: rest =>
    match done, rest with
    | l :: done', r :: rest' =>
      match pasteItems l r with
      | .ok m => doPastes done' (m :: rest')
      | .error e => .error e
    | _, _ => .error .pasteAtEdge
  | done, x :: rest => doPastes (x :: done) rest
termination_by _ rest => rest.length

/-- Prosser's `subst` -/
def subst (ex : List HTok → Except SErr (List HTok)) (m : SMacro) (args : List (List HTok))
    (hs : List String) : Except SErr (List HTok) :=
  match replaceParams ex (m.params.getD []) args none m.body with
  | .error e => .error e
  | .ok items =>
    match doPastes [] items with
    | .error e => .error e
    | .ok items =>
      .ok (items.filterMap fun
        | .tok t => some ⟨t.tok, t.hide ++ hs⟩
        | _ => none)

/-- Prosser's `expand` -/
def expand (ms : List SMacro) : Nat → List HTok → Except SErr (List HTok)
  | 0, _ => .error .fuel
  | _ + 1, [] => .ok []
  | f + 1, t :: rest =>
    let keep : Except SErr (List HTok) :=
      match expand ms f rest with
      | .ok r => .ok (t :: r)
      | .error e => .error e
    match t.tok with
    | .id n =>
      if t.hide.contains n then keep
      else
        match find ms n with
        | none => keep
        | some m =>
          match m.params with
          | none =>
            match subst (expand ms f) m [] (n :: t.hide) with
            | .ok b => expand ms f (b ++ rest)
            | .error e => .error e
          | some ps =>
            match rest with
            | ⟨.lparen, _⟩ :: rest' =>
              match collectArgs rest' 0 [] [] with
              | none => .error .unterminated
              | some (args, hs', rest'') =>
                let args := if ps.isEmpty ∧ args = [[]] then [] else args
                if args.length ≠ ps.length then .error .arity
                else
                  match subst (expand ms f) m args (n :: t.hide.filter (hs'.contains ·)) with
                  | .ok b => expand ms f (b ++ rest'')
                  | .error e => .error e
            | _ => keep
    | _ => keep

/-- the pp-token view of a model token list: white space removed -/
def ppTokens (ts : List PTok) : List Tok :=
  (ts.filter (fun t => !t.tok.isWhitespace)).map (·.tok)

def plain (ts : List Tok) : List HTok := ts.map (⟨·, []⟩)

/-- the reference reading of a model macro: parameters are named by position (`$`, `$$`, `$$$`, …: spellings no
identifier has) -/
def paramName (i : Nat) : String := String.ofList (List.replicate (i + 1) '$')

def specBodyTok : Tok → Tok
  | .arg i => .id (paramName i)
  | .concat => .hashhash
  | t => t

def ofMacro (m : Macro) : SMacro :=
  { name := m.name,
    params := if m.isFunction then some ((List.range m.numParams).map paramName) else none,
    body := (ppTokens m.body).map specBodyTok }

end RsslVerif.Spec.CPreMacro

import RsslVerif.Model.ConstEval
/-!
# Hypotheses of the C13 theorems, as executable checks (also run by the driver on every tree the real type
checker produced, so that the hypotheses are themselves tested against the implementation)
-/
namespace RsslVerif.Model.ConstEval
open RsslVerif.Gen.EvalTable

/-- range invariant of a constant: payloads fit their Rust type, enums are not nested -/
def wf : Constant → Bool
  | .intLit v => i128.inRange v
  | .int32 v => i32.inRange v
  | .uint32 v => u32.inRange v
  | .int64 v => i64.inRange v
  | .uint64 v => u64.inRange v
  | .enum _ c => wf c && c.kind != .Enum
  | _ => true

/-- a well-formed constant that is not an enum (what operators and casts work on after unwrapping) -/
def plain (c : Constant) : Bool := wf c && c.kind != .Enum

/-- the number of operands the arm of `evaluate_operator` for `o` looks at -/
def arityOk (o : Op) (n : Nat) : Bool :=
  match opTable o with
  | none => true
  | some e => match e.shape with | .unary => n == 1 | _ => n == 2

def argsLen : Args → Nat
  | .nil => 0
  | .cons _ r => argsLen r + 1

mutual
/-- well-formed expression: every constant is in range (and enums are not nested), every operator node
    has the number of operands its arm of `evaluate_operator` looks at, `sizeof` of an enum has a sized
    underlying type -/
def wfE : Expr → Bool
  | .lit c => wf c
  | .var v | .global v => (match v with | some c => wf c | none => true)
  | .enumValue _ v => plain v
  | .cast _ e => wfE e
  | .sizeOf t => (match t with | .enum u => (scalarSize u).isSome | _ => true)
  | .op o args => arityOk o (argsLen args) && wfArgs args
  | .other => true
def wfArgs : Args → Bool
  | .nil => true
  | .cons e r => wfE e && wfArgs r
end

def intKind (k : Kind) : Bool := k == .IntLiteral || k == .Int32 || k == .UInt32

def enumIdOf : Constant → Option Nat
  | .enum id _ => some id
  | _ => none

/-- values of the longest prefix of the operand list that evaluates (operands are evaluated left to right
    and evaluation stops at the first failure) -/
def prefixVals : Args → List Constant
  | .nil => []
  | .cons e r => match eval e with | .ok v => v :: prefixVals r | .error _ => []

/-- all operands are of one enum type, or none is an enum -/
def uniformEnums (vs : List Constant) : Bool :=
  match vs with
  | [] => true
  | v :: r => r.all fun w => enumIdOf w == enumIdOf v

/-- the evaluated operands are admissible for the operator: enum operands are not mixed with operands of
    another type, and `~` is applied to an integer -/
def operandsOk (o : Op) (vs : List Constant) : Bool :=
  uniformEnums vs && (o != .BitwiseNot || vs.all fun v => intKind (stripEnum v).kind)

mutual
/-- *well-typed operand kinds*: at every operator node the operands that evaluate are admissible -/
def kindsOk : Expr → Bool
  | .cast _ e => kindsOk e
  | .op o args => kindsOkArgs args && operandsOk o (prefixVals args)
  | _ => true
def kindsOkArgs : Args → Bool
  | .nil => true
  | .cons e r => kindsOk e && kindsOkArgs r
end

end RsslVerif.Model.ConstEval

"""Inventory of the *implicit* panic sites (no syntactic marker such as `unwrap`) inside the preprocessor / lexer core:
unchecked `+ - *` (and `+= -= *=`), `as` casts, indexing `x[i]` and slicing `x[a..b]`, for every non-test function of
preprocess.rs, lexer.rs, condition_parser.rs (crate rssl-preprocess) and location.rs (crate rssl-text).

Not a Rust parser: operators are recognised on the comment-stripped text with string/char literals masked; a `-`/`*`
is binary when the previous significant token ends an operand (identifier, number, `)`, `]`, `?`).  Operands are the
maximal postfix chains on both sides (`a.b(c)[d]::e?`), so a site's text changes when its operands change.

Used by tools/gens/c08.py (generator `ArithSites`); run directly to print the inventory as TSV:
    python3 tools/gens/_c08_arith.py [repo]
"""
import os
import re
import sys

FILES = ["preprocess/src/preprocess.rs", "preprocess/src/lexer.rs", "preprocess/src/condition_parser.rs", "text/src/location.rs"]

KEYWORDS = {"let", "in", "return", "match", "if", "else", "mut", "ref", "for", "while", "loop", "break", "continue", "as", "move",
            "const", "static", "fn", "impl", "where", "dyn", "pub", "use", "mod", "struct", "enum", "type", "unsafe", "yield"}
INT_TYPES = {"u8", "u16", "u32", "u64", "u128", "usize", "i8", "i16", "i32", "i64", "i128", "isize", "f32", "f64", "char"}


def mask_literals(s):
    """same length; the inside of string / char literals becomes `S` (quotes stay) so operators in them are not seen"""
    out = list(s)
    i, n = 0, len(s)
    while i < n:
        c = s[i]
        if c == '"':
            j = i + 1
            while j < n and s[j] != '"':
                j += 2 if s[j] == '\\' else 1
            for k in range(i + 1, min(j, n)):
                if out[k] != '\n':
                    out[k] = 'S'
            i = j + 1
        elif c == 'r' and re.match(r'r#*"', s[i:i + 6]) and (i == 0 or not (s[i - 1].isalnum() or s[i - 1] == '_')):
            m = re.match(r'r(#*)"', s[i:])
            close = '"' + m.group(1)
            j = s.index(close, i + len(m.group(0)))
            for k in range(i + len(m.group(0)), j):
                if out[k] != '\n':
                    out[k] = 'S'
            i = j + len(close)
        elif c == "'":
            m = re.match(r"'(\\.[^']*|[^'\\])'", s[i:])
            if m:
                for k in range(i + 1, i + len(m.group(0)) - 1):
                    out[k] = 'S'
                i += len(m.group(0))
            else:
                i += 1
        else:
            i += 1
    return ''.join(out)


PAIR = {')': '(', ']': '[', '}': '{'}
OPEN = {'(': ')', '[': ']', '{': '}'}


def back_match(m, i):
    """index of the bracket that opens the one closing at m[i]"""
    want = PAIR[m[i]]
    depth = 0
    while i >= 0:
        c = m[i]
        if c in PAIR:
            depth += 1
        elif c in OPEN:
            depth -= 1
            if depth == 0:
                return i if c == want else -1
        i -= 1
    return -1


def fwd_match(m, i):
    depth = 0
    n = len(m)
    while i < n:
        c = m[i]
        if c in OPEN:
            depth += 1
        elif c in PAIR:
            depth -= 1
            if depth == 0:
                return i
        i += 1
    return n - 1


def is_ident(c):
    return c.isalnum() or c == '_'


def operand_left(m, i):
    """start index of the postfix chain that ends just before m[i] (spaces skipped)"""
    j = i - 1
    while j >= 0 and m[j] in ' \n\t':
        j -= 1
    end = j + 1
    while j >= 0:
        c = m[j]
        if c == '.' and ((j > 0 and m[j - 1] == '.') or (j + 1 < len(m) and m[j + 1] == '.')):
            break
        if is_ident(c) or c in '.?"\'':
            j -= 1
        elif c == ':' and j > 0 and m[j - 1] == ':':
            j -= 2
        elif c in ')]':
            o = back_match(m, j)
            if o < 0:
                break
            j = o - 1
        elif c in ' \n\t':
            # allow `foo .bar` / method chains broken over lines: only if what precedes the blank is a `.`-continued chain
            k = j
            while k >= 0 and m[k] in ' \n\t':
                k -= 1
            if k >= 0 and j + 1 < len(m) and m[j + 1] == '.':
                j = k
            else:
                break
        else:
            break
    start = j + 1
    # unary prefixes belong to the operand
    k = start - 1
    while k >= 0 and m[k] in '&*!-' and (k == 0 or not (is_ident(m[k - 1]) or m[k - 1] in ')]')):
        start = k
        k -= 1
    return start, end


def operand_right(m, i):
    """end index (exclusive) of the operand that starts at or after m[i]"""
    n = len(m)
    j = i
    while j < n and m[j] in ' \n\t':
        j += 1
    while j < n and m[j] in '&*!-':
        j += 1
    while j < n:
        c = m[j]
        if is_ident(c) or c in '?"\'':
            j += 1
        elif c == '.' and not (j + 1 < n and m[j + 1] == '.'):
            j += 1
        elif c == ':' and j + 1 < n and m[j + 1] == ':':
            j += 2
        elif c in '([':
            j = fwd_match(m, j) + 1
        elif c in ' \n\t':
            k = j
            while k < n and m[k] in ' \n\t':
                k += 1
            if k < n and m[k] == '.' and not (k + 1 < n and m[k + 1] == '.'):
                j = k
            else:
                break
        else:
            break
    return j


def prev_sig(m, i):
    j = i - 1
    while j >= 0 and m[j] in ' \n\t':
        j -= 1
    return j


def prev_word(m, j):
    k = j
    while k >= 0 and is_ident(m[k]):
        k -= 1
    return m[k + 1:j + 1]


def normws(s):
    return re.sub(r'\s+', ' ', s).strip()


def sites_of(text, spans):
    """text: comment-stripped, tests blanked.  spans: (start, end, fn name).  -> [(pos, fn, kind, site text)]"""
    m = mask_literals(text)
    n = len(m)

    def fn_at(pos):
        best = None
        for a, b, name in spans:
            if a <= pos <= b and (best is None or a > best[0]):
                best = (a, name)
        return best[1] if best else None

    out = []
    i = 0
    while i < n:
        c = m[i]
        fn = None
        if c in '+-*':
            nxt = m[i + 1] if i + 1 < n else ''
            if c == '-' and nxt == '>':
                i += 2
                continue
            p = prev_sig(m, i)
            binary = p >= 0 and (is_ident(m[p]) or m[p] in ')]?"\'') and prev_word(m, p) not in KEYWORDS
            if binary:
                fn = fn_at(i)
                if fn is not None:
                    op = c + '=' if nxt == '=' else c
                    ls, le = operand_left(m, i)
                    re_ = operand_right(m, i + len(op))
                    out.append((i, fn, op, normws(text[ls:le]) + ' ' + op + ' ' + normws(text[i + len(op):re_])))
            i += 1
            continue
        if c == 'a' and m[i:i + 2] == 'as' and (i == 0 or not is_ident(m[i - 1])) and i + 2 < n and m[i + 2] in ' \n\t':
            mm = re.match(r'as\s+([A-Za-z0-9_]+)', m[i:])
            if mm and mm.group(1) in INT_TYPES:
                fn = fn_at(i)
                if fn is not None:
                    ls, le = operand_left(m, i)
                    out.append((i, fn, 'as ' + mm.group(1), normws(text[ls:le]) + ' as ' + mm.group(1)))
            i += 2
            continue
        if c == '[':
            p = prev_sig(m, i)
            if p >= 0 and p == i - 1 and (is_ident(m[p]) or m[p] in ')]?') and prev_word(m, p) not in KEYWORDS:
                fn = fn_at(i)
                if fn is not None:
                    close = fwd_match(m, i)
                    inner = m[i + 1:close]
                    # `..` at bracket depth 0 makes it a slice
                    depth = 0
                    rng = False
                    for k, ch in enumerate(inner):
                        if ch in OPEN:
                            depth += 1
                        elif ch in PAIR:
                            depth -= 1
                        elif ch == '.' and depth == 0 and inner[k:k + 2] == '..':
                            rng = True
                    ls, le = operand_left(m, i)
                    out.append((i, fn, 'slice' if rng else 'index', normws(text[ls:le]) + '[' + normws(text[i + 1:close]) + ']'))
            i += 1
            continue
        i += 1
    return out


def inventory(repo, strip_tests, fn_spans, matching, src):
    sites = []
    lines = {}
    for f in FILES:
        text = strip_tests(src(f), matching)
        spans = fn_spans(text, matching)
        seen = {}
        for pos, fn, kind, txt in sorted(sites_of(text, spans)):
            txt = txt[:110]
            key = (f, fn, kind, txt)
            k = seen.get(key, 0) + 1
            seen[key] = k
            site = (f, fn, kind, txt if k == 1 else f"{txt} #{k}")
            sites.append(site)
            lines[site] = text.count("\n", 0, pos) + 1
    sites.sort()
    return sites, lines


if __name__ == "__main__":
    here = os.path.dirname(os.path.abspath(__file__))
    sys.path.insert(0, os.path.dirname(here))
    sys.path.insert(0, here)
    import rustsrc
    import c08 as c08gen
    repo = sys.argv[1] if len(sys.argv) > 1 else os.environ.get("VERIF_REPO", "/repo")
    sites, lines = inventory(repo, c08gen.strip_tests, c08gen.fn_spans, rustsrc.matching,
                             lambda rel: rustsrc.strip_comments(rustsrc.read(os.path.join(repo, rel))))
    for s in sites:
        print("\t".join(s) + "\t" + str(lines[s]))

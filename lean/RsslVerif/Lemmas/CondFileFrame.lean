import RsslVerif.Lemmas.CondFile
/-!
# Lemmas for C11, part 5: an `#include` is processed every time it is met

The composed model threads one `FState` through all files.  Of its fields only `out` grows with the history
of the run; this file proves that `out` is *write-only*: every step of the model, run after an arbitrary
output `o`, does exactly what it does after the empty output, with `o` in front (`Framed`).  Hence what an
`#include` contributes — the tokens it appends, the macro table, the pragma-once set it leaves, or the error —
is a function of the file's token stream and of `(chain, base, macros, once, depth)` at that point, and of
nothing else: no memory of earlier visits of the same file except the pragma-once set.
-/
namespace RsslVerif.Lemmas.CondFileFrame
set_option linter.unusedSimpArgs false
open RsslVerif.Gen.CondTables RsslVerif.Model.CondExpr RsslVerif.Model.Macro RsslVerif.Model.CondFile
open RsslVerif.Lemmas.CondFile

abbrev E := RsslVerif.Model.CondFile.Err

/-- put `o` in front of the output of a result -/
def reout (o : List PTok) : Except E FState → Except E FState
  | .error e => .error e
  | .ok r => .ok { r with out := o ++ r.out }

def reout2 (o : List PTok) : Except E (FState × List PTok) → Except E (FState × List PTok)
  | .error e => .error e
  | .ok (r, a) => .ok ({ r with out := o ++ r.out }, a)

/-- forget the output produced so far -/
def clr (st : FState) : FState := { st with out := [] }

/-- `f` after any output = `f` after the empty output, with that output in front -/
def Framed (f : FState → Except E FState) : Prop := ∀ st, f st = reout st.out (f (clr st))

@[simp] theorem clr_chain (st : FState) : (clr st).chain = st.chain := rfl
@[simp] theorem clr_base (st : FState) : (clr st).base = st.base := rfl
@[simp] theorem clr_macros (st : FState) : (clr st).macros = st.macros := rfl
@[simp] theorem clr_once (st : FState) : (clr st).once = st.once := rfl
@[simp] theorem clr_depth (st : FState) : (clr st).depth = st.depth := rfl
@[simp] theorem clr_out (st : FState) : (clr st).out = [] := rfl

theorem reout_clr_ok (st : FState) : reout st.out (.ok (clr st)) = .ok st := by
  cases st; simp [reout, clr]

theorem reout_reout (a b : List PTok) (r : Except E FState) : reout a (reout b r) = reout (a ++ b) r := by
  cases r <;> simp [reout]

theorem flush_framed (act : List PTok) : Framed (fun st => flush st act) := by
  intro st
  obtain ⟨chain, base, macros, out, once, depth⟩ := st
  by_cases ha : active chain = true
  · cases hm : applyMacros macros act <;> simp [flush, clr, reout, ha, hm]
  · simp [flush, clr, reout, ha]

theorem exec_framed (inc : String → FState → Except E FState) (hinc : ∀ n, Framed (inc n)) (cur name : String)
    (cmd : List PTok) : Framed (fun st => exec inc cur st name cmd) := by
  intro st
  obtain ⟨chain, base, macros, out, once, depth⟩ := st
  simp only [clr]
  unfold exec
  by_cases n1 : name = "include"
  · simp only [if_pos n1]
    split
    · split
      · simp [reout]
      · split
        · simp [reout]
        · rename_i file _ _
          have hf := hinc file ⟨chain, base, macros, out, once, depth + 1⟩
          simp only [clr] at hf
          rw [hf]
          cases inc file ⟨chain, base, macros, [], once, depth + 1⟩ <;> simp [reout]
    · simp [reout]
  simp only [if_neg n1]
  by_cases n2 : name = "ifdef" ∨ name = "ifndef"
  · simp only [if_pos n2]
    split <;> simp [reout]
  simp only [if_neg n2]
  by_cases n3 : name = "if"
  · simp only [if_pos n3]
    split <;> simp [reout]
  simp only [if_neg n3]
  by_cases n4 : name = "elif"
  · simp only [if_pos n4]
    split
    · simp [reout]
    · split <;> simp [reout]
  simp only [if_neg n4]
  by_cases n5 : name = "else"
  · simp only [if_pos n5]
    split
    · split <;> simp [reout]
    · simp [reout]
  simp only [if_neg n5]
  by_cases n6 : name = "endif"
  · simp only [if_pos n6]
    split
    · split <;> simp [reout]
    · simp [reout]
  simp only [if_neg n6]
  by_cases n7 : name = "define"
  · simp only [if_pos n7]
    split <;> simp [reout]
  simp only [if_neg n7]
  by_cases n8 : name = "undef"
  · simp only [if_pos n8]
    split <;> simp [reout]
  simp only [if_neg n8]
  by_cases n9 : name = "pragma"
  · simp only [if_pos n9]
    split
    · split
      · simp [reout]
      · split <;> simp [reout]
    · simp [reout]
  simp only [if_neg n9]
  simp [reout]

theorem command_framed (inc : String → FState → Except E FState) (hinc : ∀ n, Framed (inc n)) (cur : String)
    (cmd : List PTok) : Framed (fun st => command inc cur st cmd) := by
  intro st
  have hok := reout_clr_ok st
  have hpush : ∀ c, (Except.ok { st with chain := newBlock c :: st.chain } : Except E FState) =
      reout st.out (.ok { clr st with chain := newBlock c :: st.chain }) := by
    intro c
    obtain ⟨chain, base, macros, out, once, depth⟩ := st
    simp [reout, clr]
  simp only [command]
  cases hcn : commandName cmd with
  | none =>
    by_cases ha : active st.chain = true
    · simp [gated, ha, reout]
    · simp only [gated, clr_chain, ha, if_false]
      cases nonNameGate with
      | skipNoEffect => exact hok.symm
      | skipPushes c => exact hpush c
      | notGated => simp [reout]
  | some p =>
    obtain ⟨name, rest⟩ := p
    by_cases ha : active st.chain = true
    · simp only [gated, clr_chain, ha, if_true]
      exact exec_framed inc hinc cur name rest st
    · simp only [gated, clr_chain, ha, if_false]
      cases gate name with
      | skipNoEffect => exact hok.symm
      | skipPushes c => exact hpush c
      | notGated => exact exec_framed inc hinc cur name rest st

theorem fileLoop_framed (inc : String → FState → Except E FState) (hinc : ∀ n, Framed (inc n)) (cur : String) :
    ∀ (items : List SItem) (st : FState) (ps : PState) (act : List PTok),
      fileLoop inc cur st ps act items = reout2 st.out (fileLoop inc cur (clr st) ps act items)
  | [], st, ps, act => by
    obtain ⟨chain, base, macros, out, once, depth⟩ := st
    simp [fileLoop, reout2, clr]
  | .lexError :: _, st, ps, act => by simp [fileLoop, reout2]
  | .tok t :: rest, st, ps, act => by
    rw [fileLoop, fileLoop]
    split
    · split
      · have hc := command_framed inc hinc cur act st
        simp only at hc
        rw [hc]
        cases hcl : command inc cur (clr st) act with
        | error e => simp [reout, reout2]
        | ok s1 =>
          simp only [reout]
          rw [fileLoop_framed inc hinc cur rest { s1 with out := st.out ++ s1.out },
            fileLoop_framed inc hinc cur rest s1]
          have : clr { s1 with out := st.out ++ s1.out } = clr s1 := rfl
          rw [this]
          cases fileLoop inc cur (clr s1) .startOfLine [] rest with
          | error e => simp [reout2]
          | ok p => obtain ⟨r, a⟩ := p; simp [reout2, List.append_assoc]
      · exact fileLoop_framed inc hinc cur rest st _ _
    · split
      · have hc := flush_framed (dropTrailingBlanks act) st
        simp only at hc
        rw [hc]
        cases hcl : flush (clr st) (dropTrailingBlanks act) with
        | error e => simp [reout, reout2]
        | ok s1 =>
          simp only [reout]
          rw [fileLoop_framed inc hinc cur rest { s1 with out := st.out ++ s1.out },
            fileLoop_framed inc hinc cur rest s1]
          have : clr { s1 with out := st.out ++ s1.out } = clr s1 := rfl
          rw [this]
          cases fileLoop inc cur (clr s1) .commandStart [] rest with
          | error e => simp [reout2]
          | ok p => obtain ⟨r, a⟩ := p; simp [reout2, List.append_assoc]
      · split
        · exact fileLoop_framed inc hinc cur rest st _ _
        · split
          · exact fileLoop_framed inc hinc cur rest st _ _
          · exact fileLoop_framed inc hinc cur rest st _ _

theorem runStream_framed (inc : String → FState → Except E FState) (hinc : ∀ n, Framed (inc n)) (cur : String)
    (items : List SItem) : Framed (fun st => runStream inc cur st items) := by
  intro st
  have hl := fileLoop_framed inc hinc cur items { st with base := st.chain.length } .startOfLine []
  have hc : clr { st with base := st.chain.length } = { clr st with base := (clr st).chain.length } := rfl
  simp only []
  unfold runStream
  rw [hl, hc]
  cases hfl : fileLoop inc cur { clr st with base := (clr st).chain.length } .startOfLine [] items with
  | error e => simp [reout, reout2]
  | ok p =>
    obtain ⟨s1, a⟩ := p
    simp only [reout2]
    have hf := flush_framed a { s1 with out := st.out ++ s1.out }
    have hf1 := flush_framed a s1
    simp only at hf hf1
    have hc2 : clr { s1 with out := st.out ++ s1.out } = clr s1 := rfl
    rw [hf, hc2, hf1]
    cases flush (clr s1) a with
    | error e => simp [reout]
    | ok s2 =>
      simp only [reout]
      by_cases hlen : s2.chain.length = s2.base <;> simp [reout, hlen, List.append_assoc]

theorem includeFile_framed (h : Handler) : ∀ (fuel : Nat) (name : String), Framed (includeFile h fuel name)
  | 0, name => by intro st; simp [includeFile, reout]
  | fuel + 1, name => by
    intro st
    have ih := includeFile_framed h fuel
    simp only [includeFile, clr_once]
    cases h name with
    | none => simp [reout]
    | some items =>
      by_cases ho : st.once.contains name = true
      · simp only [ho, if_true]
        exact runStream_framed _ ih name [] st
      · simp only [ho, if_false]
        exact runStream_framed _ ih name items st

/-! ### a guarded header with an `#else` group -/

/-- `#ifndef X⏎1⏎#else⏎2⏎#endif⏎` -/
def hdrGuardElse : List SItem :=
  [T (.punct "#"), T (.id "ifndef"), T .ws, T (.id "X"), T .endline, T (.int "1"), T .endline,
   T (.punct "#"), T (.punct "else"), T .endline, T (.int "2"), T .endline,
   T (.punct "#"), T (.id "endif"), T .endline]

/-- **A guard block with an `#else` group, visited in any state.**  Whatever the handler, the fuel, the includer's
    state (chain active, file not marked by `#pragma once`): the file `#ifndef X⏎1⏎#else⏎2⏎#endif⏎` delivers `1`
    when no macro is called `X` and `2` when one is — on the first visit and on every later one. -/
theorem include_guard_else (h : Handler) (fuel : Nat) (name : String) (st : FState)
    (hf : h name = some hdrGuardElse) (ho : st.once.contains name = false)
    (hact : active st.chain = true) :
    includeFile h (fuel + 1) name st =
      .ok { st with out := st.out ++ [⟨.int (if st.macros.any (fun m => m.name == "X") then "2" else "1"), true⟩,
                                      ⟨.endline, true⟩] } := by
  obtain ⟨chain, base, macros, out, once, depth⟩ := st
  simp only at hact ho
  have ho' : name ∉ once := by simpa using ho
  have hA : ∀ s e, active (⟨s, e⟩ :: chain) = decide (s = CS.Enabled) := by
    intro s e
    simp only [active, List.all_cons, activeState] at hact ⊢
    rw [hact]; cases s <;> decide
  have h1 : ¬ (chain.length + 1 < chain.length) := by omega
  have h2 : ¬ (chain.length + 1 = chain.length) := by omega
  have h3 : chain.length < chain.length + 1 := by omega
  by_cases hx : macros.any (fun m => m.name == "X") = true
  · simp [includeFile, hf, ho', runStream, hdrGuardElse, T, fileLoop, isHash, dropTrailingBlanks,
      command, commandName, gated, exec, gate_ifndef, gate_else, gate_endif, trim, trimStart, trimEnd, flush_nil,
      Tok.isWhitespace, Tok.isBlank, List.dropWhile, hact, hx, hA, h1, h2, h3, pushState, flush_noIds, noIds, chainSwitch,
      chainPop, newBlock, Block.switch, CS.switch, elseSwitchArg, elseIsElse]
  · simp [includeFile, hf, ho', runStream, hdrGuardElse, T, fileLoop, isHash, dropTrailingBlanks,
      command, commandName, gated, exec, gate_ifndef, gate_else, gate_endif, trim, trimStart, trimEnd, flush_nil,
      Tok.isWhitespace, Tok.isBlank, List.dropWhile, hact, hx, hA, h1, h2, h3, pushState, flush_noIds, noIds, chainSwitch,
      chainPop, newBlock, Block.switch, CS.switch, elseSwitchArg, elseIsElse]

end RsslVerif.Lemmas.CondFileFrame

import RsslVerif.Lemmas.OverloadT
/-!
# The call after the resolution: `apply_casts` and `check_output_arguments` (`callT`)

* an `out` / `inout` argument passes the check iff it is a non-const lvalue of *exactly* the parameter's type
  (`checkOutputs_none_iff`): every conversion `find` can build for an lvalue destination other than the identity
  (scalar ↔ 1-vector, an added modifier) turns the argument into an rvalue cast;
* the verdict on the whole call is independent of the declaration order (`callT_perm`);
* an accepted call names the overload `find_function_type` selected (`callT_accepted`).
-/
namespace RsslVerif.Lemmas.OverloadCall
open RsslVerif.Gen.RankTable RsslVerif.Model.Conv RsslVerif.Model.Overload RsslVerif.Spec.Overload
open RsslVerif.Lemmas.Overload RsslVerif.Lemmas.Conv RsslVerif.Lemmas.OverloadLazy RsslVerif.Lemmas.OverloadT

/-- what `find` puts into a conversion -/
theorem find_fields {a d : ETy} {c : Conversion} (h : find a d = .ok (some c)) :
    ∃ dc pc mc, dimensionCast a.ty.layer d.ty.layer (decide (d.vt = .lvalue)) = some dc ∧
      primaryCast a.ty.layer d.ty.layer = .ok (some pc) ∧
      modifierCast a.ty.mod d.ty.mod (decide (d.vt = .lvalue)) = some mc ∧
      c = ⟨a, decide (a.vt = .lvalue ∧ d.vt = .rvalue), dc, pc, sharedModifierCast pc d.ty.mod mc⟩ := by
  unfold find at h
  split at h
  · simp at h
  · simp only at h
    split at h
    · simp at h
    · rename_i dc hdc
      split at h
      · simp at h
      · simp at h
      · rename_i pc hpc
        split at h
        · simp at h
        · rename_i mc hmc
          simp only [Except.ok.injEq, Option.some.injEq] at h
          exact ⟨dc, pc, mc, hdc, hpc, hmc, h.symm⟩

theorem dimensionCast_lvalue_none {sl dl : Layer} (h : dimensionCast sl dl true = some none) : sl = dl := by
  unfold dimensionCast at h
  split at h
  · assumption
  · cases dl <;> cases sl <;> simp at h <;> (try (split at h <;> simp at h)) <;> (try (split at h <;> simp at h))

theorem modifierCast_none {ms md : Modifier} {lv : Bool} (h : modifierCast ms md lv = some none) : ms = md := by
  unfold modifierCast at h
  split at h
  · split at h <;> simp at h
  · rename_i hne
    simpa using hne

/-- for an lvalue destination `ImplicitConversion::apply` keeps the argument expression iff the argument has exactly
    the destination type -/
theorem find_lvalue_keeps_iff {a : ETy} {t : Ty} {c : Conversion} (h : find a ⟨t, .lvalue⟩ = .ok (some c)) :
    applyKeepsExpr c = true ↔ a.ty = t := by
  obtain ⟨dc, pc, mc, hdc, hpc, hmc, rfl⟩ := find_fields h
  simp only [decide_true] at hdc hmc
  simp only [applyKeepsExpr, Bool.and_eq_true, Option.isNone_iff_eq_none]
  constructor
  · rintro ⟨⟨h1, h2⟩, h3⟩
    subst h1 h2
    have hl := dimensionCast_lvalue_none hdc
    have hm : mc = none := by
      cases mc with
      | none => rfl
      | some m => simp [sharedModifierCast] at h3
    subst hm
    have hmm := modifierCast_none hmc
    cases a with
    | mk ty vt =>
      cases ty with
      | mk m l =>
        cases t with
        | mk m' l' =>
          simp only at hl hmm
          subst hl hmm; rfl
  · intro he
    subst he
    have h1 : dc = none := by
      unfold dimensionCast at hdc
      simpa using hdc.symm
    have h2 : pc = none := by
      unfold primaryCast at hpc
      simpa using hpc.symm
    have h3 : mc = none := by
      unfold modifierCast at hmc
      simpa using hmc.symm
    subst h1 h2 h3
    simp [sharedModifierCast]

theorem find_source {a d : ETy} {c : Conversion} (h : find a d = .ok (some c)) : c.source = a := by
  obtain ⟨_, _, _, _, _, _, rfl⟩ := find_fields h
  rfl

/-- the parameters that `check_output_arguments` looks at are the ones `find_overload_casts` gives an lvalue
    destination (`impl From<InputModifier> for ValueType`, re-extracted) -/
theorem ety_of_output {p : Param} (h : p.io = .out ∨ p.io = .inOut) : p.ety = ⟨p.ty, .lvalue⟩ := by
  unfold Param.ety
  rcases h with h | h <;> rw [h] <;> rfl

/-- the arguments of `out` / `inout` parameters are mutable lvalues of exactly the parameter's type -/
def OutputsExact : List Param → List ETy → Prop
  | p :: ps, a :: as => ((p.io = .out ∨ p.io = .inOut) → a = ⟨p.ty, .lvalue⟩ ∧ a.ty.mod.isConst = false) ∧ OutputsExact ps as
  | _, _ => True

theorem checkPlace_none_iff {a : ETy} {t : Ty} {c : Conversion} (h : find a ⟨t, .lvalue⟩ = .ok (some c)) :
    checkPlace c = none ↔ a = ⟨t, .lvalue⟩ ∧ a.ty.mod.isConst = false := by
  have hs := find_source h
  have hk := find_lvalue_keeps_iff h
  unfold checkPlace appliedVT
  rw [hs]
  by_cases hkeep : applyKeepsExpr c = true
  · have hty := hk.mp hkeep
    simp only [hkeep, if_true]
    cases a with
    | mk ty vt =>
      simp only at hty
      subst hty
      cases vt <;> cases hc : ty.mod.isConst <;> simp
  · have hty : ¬ a.ty = t := fun e => hkeep (hk.mpr e)
    simp only [hkeep]
    simp only [Bool.false_eq_true, if_false, ne_eq, reduceCtorEq, not_false_eq_true, if_true, false_iff, not_and]
    intro e
    exact absurd (by rw [e]) hty

/-- **An out or inout argument can not be the result of a conversion.**  Whatever the selected signature and the
    arguments: the casts that `find_overload_casts` found pass `check_output_arguments` iff every argument given for an
    `out` / `inout` parameter is a non-const lvalue whose type *is* the parameter's type (no scalar ↔ 1-vector
    reshaping, no added qualifier). -/
theorem checkOutputs_none_iff : ∀ (ps : List Param) (as : List ETy) (cs : List Conversion),
    zipFind ps as = .ok (some cs) → (checkOutputs ps cs = none ↔ OutputsExact ps as)
  | [], _, cs, h => by
    simp only [zipFind, Except.ok.injEq, Option.some.injEq] at h
    subst h
    simp [checkOutputs, OutputsExact]
  | _ :: _, [], cs, h => by
    simp only [zipFind, Except.ok.injEq, Option.some.injEq] at h
    subst h
    simp [checkOutputs, OutputsExact]
  | p :: ps, a :: as, cs, h => by
    simp only [zipFind] at h
    split at h
    · simp at h
    · simp at h
    · rename_i c hc
      split at h
      · simp at h
      · simp at h
      · rename_i rest hrest
        simp only [Except.ok.injEq, Option.some.injEq] at h
        subst h
        have ih := checkOutputs_none_iff ps as rest hrest
        simp only [checkOutputs, OutputsExact]
        by_cases hio : p.io = .out ∨ p.io = .inOut
        · rw [ety_of_output hio] at hc
          have hp := checkPlace_none_iff hc
          simp only [hio, if_true, true_imp_iff]
          cases hcp : checkPlace c with
          | some e =>
            simp only [reduceCtorEq, false_iff, not_and]
            intro hx
            rw [hp.mpr hx] at hcp
            exact absurd hcp (by simp)
          | none =>
            simp only [ih]
            exact ⟨fun h' => ⟨hp.mp hcp, h'⟩, fun h' => h'.2⟩
        · simp only [hio, if_false, false_imp_iff, true_and]
          exact ih

/-! ## order independence of the verdict on the call -/

theorem find?_id_perm {cands cands' : List TCand} (h : List.Perm cands cands') (hid : (cands.map (·.id)).Nodup) (i : Nat) :
    cands.find? (·.id == i) = cands'.find? (·.id == i) := by
  induction h with
  | nil => rfl
  | cons x _ ih =>
    simp only [List.map_cons, List.nodup_cons] at hid
    simp only [List.find?_cons]
    rw [ih hid.2]
  | swap x y l =>
    simp only [List.map_cons, List.nodup_cons, List.mem_cons, not_or] at hid
    simp only [List.find?_cons]
    by_cases hx : x.id = i <;> by_cases hy : y.id = i
    · exact absurd (hy.trans hx.symm) hid.1.1
    · have hxb : (x.id == i) = true := by simpa using hx
      have hyb : (y.id == i) = false := by simpa using hy
      simp only [hxb, hyb]
    · have hxb : (x.id == i) = false := by simpa using hx
      have hyb : (y.id == i) = true := by simpa using hy
      simp only [hxb, hyb]
    · have hxb : (x.id == i) = false := by simpa using hx
      have hyb : (y.id == i) = false := by simpa using hy
      simp only [hxb, hyb]
  | trans h1 _ ih1 ih2 =>
    rw [ih1 hid, ih2 ((h1.map (·.id)).nodup_iff.mp hid)]

theorem selectedCasts_perm {cands cands' : List TCand} (h : List.Perm cands cands') (hid : (cands.map (·.id)).Nodup)
    (explicit : List TArg) (args : List ETy) (i : Nat) :
    selectedCasts cands explicit args i = selectedCasts cands' explicit args i := by
  unfold selectedCasts
  rw [find?_id_perm h hid i]

theorem finishCall_perm {cands cands' : List TCand} (h : List.Perm cands cands') (hid : (cands.map (·.id)).Nodup)
    (explicit : List TArg) (args : List ETy) {o o' : Outcome} (ho : o.normalize = o'.normalize) :
    (finishCall cands explicit args o).normalize = (finishCall cands' explicit args o').normalize := by
  cases o <;> cases o' <;> simp only [Outcome.normalize, Outcome.selected.injEq, Outcome.ambiguous.injEq, reduceCtorEq] at ho
  · subst ho
    simp only [finishCall, selectedCasts_perm h hid explicit args]
  · simp only [finishCall, CallOutcome.normalize, ho]
  · rfl
  · rfl

theorem callT_eq_finish_resolveT (cands : List TCand) (explicit : List TArg) (args : List ETy)
    (hid : (cands.map (·.id)).Nodup) :
    callT cands explicit args = finishCall cands explicit args (resolveT cands explicit args) := by
  unfold callT
  have : resolveTLazy cands explicit args = resolveT cands explicit args := by
    apply resolveGLazy_eq
    · intro g hg
      obtain ⟨c, _, rfl⟩ := List.mem_map.mp hg
      exact tcand_wf explicit c
    · simpa [List.map_map, Function.comp_def, TCand.toG] using hid
  rw [this]

end RsslVerif.Lemmas.OverloadCall

import RsslVerif.Model.FixpointProto
/-! Lemmas about the pairing of prototypes and definitions (`Model.FixpointProto`). -/
namespace RsslVerif.Lemmas.FixpointProto
open RsslVerif.Model.FixpointProto

theorem find_isDef_map (ps : List (Option String)) (ds : List FDecl) :
    (ds.map fun d => ({ d with defaults := ps } : FDecl)).find? (·.isDef) =
      (ds.find? (·.isDef)).map fun d => { d with defaults := ps } := by
  induction ds with
  | nil => rfl
  | cons d ds ih =>
    simp only [List.map_cons, List.find?_cons]
    cases h : d.isDef <;> simp [h, ih]

theorem implParams_export {ds : List FDecl} {ps : List (Option String)} (h : implParams ds = some ps) :
    implParams (ds.map fun d => ({ d with defaults := ps } : FDecl)) = some ps := by
  unfold implParams at h ⊢
  rw [find_isDef_map]
  cases hf : ds.find? (·.isDef) with
  | none => simp [hf] at h
  | some d => simp

/-- every printed declaration carries the parameter list of the definition -/
theorem export_carries_def {ds ds' : List FDecl} {ps : List (Option String)} (hp : implParams ds = some ps)
    (h : exportDecls ds = some ds') : ∀ d' ∈ ds', d'.defaults = ps := by
  unfold exportDecls at h
  rw [hp] at h
  simp only [Option.some.injEq] at h
  subst h
  intro d' hd'
  simp only [List.mem_map] at hd'
  obtain ⟨d, _, rfl⟩ := hd'
  rfl

theorem export_idempotent {ds ds' : List FDecl} (h : exportDecls ds = some ds') : exportDecls ds' = some ds' := by
  unfold exportDecls at h
  cases hp : implParams ds with
  | none => simp [hp] at h
  | some ps =>
    rw [hp] at h
    simp only [Option.some.injEq] at h
    subst h
    unfold exportDecls
    rw [implParams_export hp]
    simp [List.map_map, Function.comp_def]

theorem sig_export {ds ds' : List FDecl} {ps : List (Option String)} (hp : implParams ds = some ps)
    (h : exportDecls ds = some ds') : sigNonDefault ds' = some (nonDefault ps) := by
  unfold exportDecls at h
  rw [hp] at h
  simp only [Option.some.injEq] at h
  subst h
  cases ds with
  | nil => simp [implParams] at hp
  | cons d ds => rfl

end RsslVerif.Lemmas.FixpointProto

import RsslVerif.Model.GenMsl
import RsslVerif.Spec.Sem
/-!
# C02, semantic half — the Metal exporter preserves the meaning of the scalar subset

Theorems about `Model.GenMsl` (the expression / statement / function half of `msl/src/generator.rs`).
-/
namespace RsslVerif.Thm.C02Sem
open RsslVerif.Gen.HlslGenTables RsslVerif.Gen.MslGenTables RsslVerif.Model RsslVerif.Model.GenMsl RsslVerif.Spec.Sem

/-- the textual shape of every arm of `generate_expression` / `generate_intrinsic_op` / `generate_statement` /
`generate_scope_block` / `generate_for_init` / `generate_variable_definition` / `generate_user_call` /
`generate_function_inner` / `generate_function_and_trampoline` / `generate_function_out_trampoline_body` that
`Model.GenMsl` mirrors is the one in the source (facts re-extracted on every run; an edit of any of these functions makes
the corresponding fact `false` and this theorem stops checking). -/
theorem msl_exporter_shape_as_modelled :
    mslUnaryFormAsModelled = true ∧ mslBinaryFormAsModelled = true ∧ invokeSimpleAsModelled = true ∧
    invocationArgsInOrder = true ∧ mslSequenceAsModelled = true ∧ mslCastAsModelled = true ∧ mslTernaryInOrder = true ∧
    mslVariableIsLeafName = true ∧ mslGlobalIsName = true ∧ mslCallDispatch = true ∧ mslLiteralArm = true ∧
    mslUserCallAsModelled = true ∧ mslScopeBlockAsModelled = true ∧ mslStatementArmsAsModelled = true ∧
    mslVariableDefinitionAsModelled = true ∧ mslForInitAsModelled = true ∧ outParamsAreThreadReferences = true ∧
    trampolineBodyAsModelled = true ∧ targetThenTrampoline = true ∧ functionBodyAsModelled = true ∧
    tagParameterAsModelled = true ∧ metalLibPrefix = "metal" ∧ trampolineResultName = "out" ∧ trampolineLocalPrefix = "__" := by
  decide

/-- `generate_intrinsic_op`'s table for Metal (re-extracted on every run): every typed operator is mapped to the syntax
operator whose C meaning is the RSSL meaning of the typed operator; `%` alone looks at its operand type and becomes
`metal::fmod` for floating-point operands; the helper / mesh forms have no meaning in the scalar subset. -/
theorem msl_op_table_is_identity :
    (∀ o u, mslOpForm o = .unary u → astUnSem u = irOpSem o) ∧
    (∀ o b, mslOpForm o = .binary b → astBinSem b = irOpSem o) ∧
    (∀ o n s b, mslOpForm o = .floatCall n s b → o = .Modulus ∧ n = "fmod" ∧ astBinSem b = irOpSem o ∧
        s = ["Float16", "Float32", "Float64", "FloatLiteral"]) ∧
    (∀ o, (mslOpForm o = .special ∨ mslOpForm o = .meshMethod ∨ mslOpForm o = .meshHelper) → irOpSem o = .unsupported) := by
  refine ⟨?_, ?_, ?_, ?_⟩
  · intro o u h; cases o <;> simp [mslOpForm] at h <;> subst h <;> rfl
  · intro o b h; cases o <;> simp [mslOpForm] at h <;> subst h <;> rfl
  · intro o n s b h; cases o <;> simp [mslOpForm] at h
    obtain ⟨rfl, rfl, rfl⟩ := h
    exact ⟨rfl, rfl, rfl, rfl⟩
  · intro o h; cases o <;> simp [mslOpForm] at h <;> rfl

/-- the Metal literal function has the same arms, in the same order, as the HLSL one (`Gen.HlslGenTables.literalArms`):
what C01 proves about the tree of a constant holds for the Metal tree as well -/
theorem msl_literal_arms_same_as_hlsl : mslLiteralArms = literalArms := by decide

theorem msl_findArm_eq (k : ConstKind) (v : Int) : GenMsl.findArm k v = GenHlsl.findArm k v := by
  simp [GenMsl.findArm, GenHlsl.findArm, msl_literal_arms_same_as_hlsl]

theorem msl_genLiteral_eq (c : Ir.Const) : GenMsl.genLiteral c = GenHlsl.genLiteral c := by
  unfold GenMsl.genLiteral GenHlsl.genLiteral
  rw [msl_findArm_eq]
  cases GenHlsl.findArm c.kind (GenHlsl.Const.intValue c) with
  | none => rfl
  | some arm =>
    cases arm with
    | negMinus k => cases k <;> cases GenHlsl.negMagnitude true c <;> rfl
    | negMinusAbs k => cases k <;> cases GenHlsl.negMagnitude false c <;> rfl
    | _ => rfl

end RsslVerif.Thm.C02Sem

import RsslVerif.Model.Ty
import RsslVerif.Model.Overload
import RsslVerif.Gen.TypingTables
/-!
# The IR's own typing rules (ir/src/ir_expressions.rs `Expression::get_type`,
# ir/src/intrinsics.rs `IntrinsicOp::get_return_type`)

* `IExpr` is the fragment of `ir::Expression` the modelled elaboration produces: `Literal` (only the kind of
  the constant matters for typing), `Variable`, `TernaryConditional`, `Sequence` (always two elements),
  `Call`, `Cast`, `IntrinsicOp`.
* `typeOf` is `Expression::get_type` as an executable function; every `assert!`/`panic!`/index on the path is an
  explicit `.error site`.  Like the Rust function it does **not** look into call arguments, cast operands, the
  condition of `?:` or the first element of a sequence.
* `opReturn` is `IntrinsicOp::get_return_type`; the asserts and the result shape of each arm are not written here but
  come from `Gen.TypingTables.IOp.rule`, re-extracted from intrinsics.rs on every run.
* `HasType Γ e τ` is the typing judgment: the rule of `get_type` for the node **with its asserts as premises**,
  and every sub-expression (also the ones `get_type` skips) is required to have a type.
-/
namespace RsslVerif.Model.IrTyping
open RsslVerif.Gen.RankTable RsslVerif.Gen.TypingTables RsslVerif.Model.Conv RsslVerif.Model.Overload

mutual
/-- fragment of `ir::Expression` -/
inductive IExpr where
  /-- `Literal(Constant::<kind>(_))` -/
  | lit (k : Scalar)
  /-- `Variable(VariableId(i))` -/
  | var (i : Nat)
  | tern (c a b : IExpr)
  /-- `Sequence([a, b])` -/
  | seq (a b : IExpr)
  /-- `Call(FunctionId, _, args)` -/
  | call (f : Nat) (args : IArgs)
  | cast (t : Ty) (e : IExpr)
  | op (o : IOp) (args : IArgs)
  deriving Repr, Inhabited
inductive IArgs where
  | nil
  | cons (e : IExpr) (r : IArgs)
  deriving Repr, Inhabited
end

def IArgs.toList : IArgs → List IExpr
  | .nil => []
  | .cons e r => e :: r.toList

def IArgs.ofList : List IExpr → IArgs
  | [] => .nil
  | e :: r => .cons e (IArgs.ofList r)

/-- `ir::FunctionSignature` (+ the name the overload set is looked up by) -/
structure FuncSig where
  name : Nat
  params : List Param
  nonDefault : Nat
  ret : Ty
  deriving DecidableEq, Repr

/-- what the typing rules read from the module and the scope -/
structure Env where
  /-- `variable_registry`: type of `VariableId(i)` -/
  vars : List Ty
  /-- `function_registry`: signature of `FunctionId(i)` -/
  funcs : List FuncSig
  /-- return type of the function being checked, `none` = `void` -/
  ret : Option Ty := none
  deriving Repr

/-- the `transform_scalar(param_types[0].0, ScalarType::Bool)` of the comparison operators: keeps the modifier -/
def boolOf (t : Ty) : Option Ty := (t.layer.transformScalar .bool).map fun l => ⟨t.mod, l⟩

/-- `IntrinsicOp::get_return_type(param_types)`; `.error` = an assert / panic / out-of-bounds index fires -/
def opReturn (o : IOp) (ts : List ETy) : Except String ETy :=
  let r := o.rule
  if (match r.arity with | some n => decide (ts.length ≠ n) | none => false) then
    .error "intrinsics.rs: assert_eq!(param_types.len(), n)" else
  match ts with
  | [] => .error "intrinsics.rs: param_types[0] out of bounds"
  | a :: rest =>
    if r.sameTypes && (match rest with | b :: _ => decide (a.ty ≠ b.ty) | [] => true) then
      .error "intrinsics.rs: assert_eq!(param_types[0].0, param_types[1].0)" else
    if r.lhsLvalue && decide (a.vt ≠ .lvalue) then
      .error "intrinsics.rs: assert_eq!(param_types[0].1, ValueType::Lvalue)" else
    match r.result with
    | .arg0 => .ok a
    | .unmodR => .ok a.ty.unmod.r
    | .arg0R => .ok a.ty.r
    | .boolOf =>
      match boolOf a.ty with
      | some t => .ok t.r
      | none => .error "ir_types.rs: non-numeric type in transform_scalar"
    | .logicalNot =>
      match a.ty.layer with
      | .scalar _ => .ok (scalarTy .bool).r
      | .vector _ x => .ok (Ty.r ⟨{}, .vector .bool x⟩)
      | .matrix _ x y =>
        if logicalNotHasMatrixArm then .ok (Ty.r ⟨{}, .matrix .bool x y⟩)
        else .error "intrinsics.rs: invalid logical not intrinsic"
      | _ => .error "intrinsics.rs: invalid logical not intrinsic"
    | .other => .error "unmodelled intrinsic operator"

mutual
/-- `Expression::get_type` -/
def typeOf (Γ : Env) : IExpr → Except String ETy
  | .lit k => .ok (scalarTy k).r
  | .var i =>
    match Γ.vars[i]? with
    | some t => .ok t.l
    | none => .error "ir_variables.rs: variable id out of range"
  | .tern _ a b =>
    match typeOf Γ a with
    | .error e => .error e
    | .ok ta =>
      match typeOf Γ b with
      | .error e => .error e
      | .ok tb =>
        if ta.ty.layer = tb.ty.layer then .ok ta.ty.r
        else .error "ir_expressions.rs: assert_eq!(ty_left, ty_right)"
  | .seq _ b => typeOf Γ b
  | .call f _ =>
    match Γ.funcs[f]? with
    | some s => .ok s.ret.r
    | none => .error "ir_functions.rs: function id out of range"
  | .cast t _ => .ok t.r
  | .op o args =>
    match typesOf Γ args with
    | .error e => .error e
    | .ok ts => opReturn o ts
/-- the `for arg in args { arg_types.push(arg.get_type(module)?) }` loop -/
def typesOf (Γ : Env) : IArgs → Except String (List ETy)
  | .nil => .ok []
  | .cons e r =>
    match typeOf Γ e with
    | .error m => .error m
    | .ok t =>
      match typesOf Γ r with
      | .error m => .error m
      | .ok ts => .ok (t :: ts)
end

mutual
/-- **The IR typing judgment.**  One rule per node kind, written from `Expression::get_type`; the asserts of
    `get_type` / `get_return_type` and the range checks of the registries are premises. -/
inductive HasType (Γ : Env) : IExpr → ETy → Prop where
  | lit (k : Scalar) : HasType Γ (.lit k) (scalarTy k).r
  | var {i : Nat} {t : Ty} : Γ.vars[i]? = some t → HasType Γ (.var i) t.l
  | tern {c a b : IExpr} {tc ta tb : ETy} :
      HasType Γ c tc → HasType Γ a ta → HasType Γ b tb → ta.ty.layer = tb.ty.layer →
      HasType Γ (.tern c a b) ta.ty.r
  | seq {a b : IExpr} {ta tb : ETy} : HasType Γ a ta → HasType Γ b tb → HasType Γ (.seq a b) tb
  | call {f : Nat} {s : FuncSig} {args : IArgs} {ts : List ETy} :
      Γ.funcs[f]? = some s → HasArgs Γ args ts → HasType Γ (.call f args) s.ret.r
  | cast {t : Ty} {e : IExpr} {te : ETy} : HasType Γ e te → HasType Γ (.cast t e) t.r
  | op {o : IOp} {args : IArgs} {ts : List ETy} {τ : ETy} :
      HasArgs Γ args ts → opReturn o ts = .ok τ → HasType Γ (.op o args) τ
inductive HasArgs (Γ : Env) : IArgs → List ETy → Prop where
  | nil : HasArgs Γ .nil []
  | cons {e : IExpr} {r : IArgs} {t : ETy} {ts : List ETy} :
      HasType Γ e t → HasArgs Γ r ts → HasArgs Γ (.cons e r) (t :: ts)
end

end RsslVerif.Model.IrTyping

import RsslVerif.Spec.Layout
/-! Helper lemmas for C19 (core Lean only): `roundUp` arithmetic, the pinned form of the op programs,
    and the inductions behind `Thm/C19.lean`. -/
namespace RsslVerif.Lemmas.Layout
open RsslVerif.Gen.LayoutTables RsslVerif.Model.Layout RsslVerif.Spec.Layout

theorem roundUp_of_mod_zero {x a : Nat} (ha : 0 < a) (h : x % a = 0) : roundUp x a = x := by
  unfold roundUp
  have hdm := Nat.div_add_mod x a
  generalize hq : x / a = q at hdm
  have e : x + a - 1 = a * q + (a - 1) := by omega
  rw [e, Nat.mul_add_div ha, Nat.div_eq_of_lt (by omega), Nat.add_zero, Nat.mul_comm]
  omega

theorem roundUp_of_mod_pos {x a : Nat} (ha : 0 < a) (h : x % a ≠ 0) :
    roundUp x a = x + (a - x % a) := by
  unfold roundUp
  have hdm := Nat.div_add_mod x a
  have hlt := Nat.mod_lt x ha
  generalize hq : x / a = q at hdm
  generalize hr : x % a = r at *
  have e : x + a - 1 = a * (q + 1) + (r - 1) := by rw [Nat.mul_add]; omega
  rw [e, Nat.mul_add_div ha, Nat.div_eq_of_lt (by omega), Nat.add_zero, Nat.mul_comm, Nat.mul_add]
  omega

theorem roundUp_mod {x a : Nat} : roundUp x a % a = 0 := by
  unfold roundUp; exact Nat.mul_mod_left _ _

theorem le_roundUp {x a : Nat} (ha : 0 < a) : x ≤ roundUp x a := by
  by_cases h : x % a = 0
  · rw [roundUp_of_mod_zero ha h]; exact Nat.le_refl _
  · rw [roundUp_of_mod_pos ha h]; omega

theorem roundUp_eq_self_iff {x a : Nat} (ha : 0 < a) : roundUp x a = x ↔ x % a = 0 := by
  constructor
  · intro h; rw [← h]; exact roundUp_mod
  · exact roundUp_of_mod_zero ha

theorem nextMultipleOf_ok {a b c : Nat} (hb : 0 < b) (h : nextMultipleOf a b = .ok c) :
    c = roundUp a b := by
  unfold nextMultipleOf at h
  have hb' : b ≠ 0 := by omega
  simp only [hb', if_false] at h
  split at h
  · rename_i h0; cases h; exact (roundUp_of_mod_zero hb h0).symm
  · rename_i h0
    unfold addU32 at h
    split at h
    · cases h; exact (roundUp_of_mod_pos hb h0).symm
    · cases h

/-- the member loop body of the pinned source -/
def memberStep (acc ml : Layout) : Except Err Layout :=
  match nextMultipleOf acc.size ml.align with
  | .error e => .error e
  | .ok z =>
    match addU32 z ml.size with
    | .error e => .error e
    | .ok z' => .ok ⟨z', max acc.align ml.align⟩

theorem member_ops_pinned (m : Mode) (acc ml : Layout) :
    runLay (structMemberOps m) ⟨acc, 0, ml, 0⟩ = memberStep acc ml := by
  cases m <;>
  · simp only [structMemberOps, runLay, runOps, step, memberStep]
    cases nextMultipleOf acc.size ml.align with
    | error e => rfl
    | ok z =>
      simp only []
      cases addU32 z ml.size with
      | error e => rfl
      | ok z' => rfl

theorem final_ops_pinned (m : Mode) (l : Layout) :
    runLay (structFinalOps m) ⟨l, 0, l, 0⟩ = .ok l := by
  cases m <;> rfl

theorem array_ops_pinned (m : Mode) (l : Layout) (n : Nat) :
    runLay (arrayOps m) ⟨l, 0, l, n⟩ =
      if n ≤ u32Max then
        match mulU32 l.size n with
        | .ok z => .ok ⟨z, l.align⟩
        | .error e => .error e
      else .error (.panic "called `Result::unwrap()` on an `Err` value: TryFromIntError(())") := by
  cases m <;>
  · simp only [arrayOps, runLay, runOps, step]
    by_cases hn : n ≤ u32Max
    · simp only [hn, if_true]; cases mulU32 l.size n <;> rfl
    · simp only [hn, if_false]

theorem top_ops_pinned (m : Mode) (l : Layout) :
    runLay (checkTopOps m) ⟨l, 0, l, 0⟩ =
      match nextMultipleOf l.size l.align with
      | .ok z => .ok ⟨z, l.align⟩
      | .error e => .error e := by
  cases m <;>
  · simp only [checkTopOps, runLay, runOps, step]
    cases nextMultipleOf l.size l.align <;> rfl

theorem memberStep_ok {acc ml l : Layout} (ha : 0 < ml.align) (h : memberStep acc ml = .ok l) :
    l.size = roundUp acc.size ml.align + ml.size ∧ l.align = max acc.align ml.align := by
  unfold memberStep at h
  split at h
  · cases h
  · rename_i z hz
    have := nextMultipleOf_ok ha hz
    unfold addU32 at h
    split at h
    · cases h
    · rename_i z' hz'
      split at hz'
      · cases hz'; cases h; subst this; exact ⟨rfl, rfl⟩
      · cases hz'

/-- vectors of the grid never panic and get exactly the reference size and alignment -/
theorem get_vec (m : Mode) (s : Scalar) (n : Nat) (hs : sized s = true) (hn : 1 ≤ n ∧ n ≤ 4) :
    get m (.vec s n) = .ok ⟨vecSize m s n, vecAlign m s n⟩ := by
  have : n = 1 ∨ n = 2 ∨ n = 3 ∨ n = 4 := by omega
  rcases this with rfl | rfl | rfl | rfl <;> cases m <;> cases s <;> first | (exact absurd hs (by decide)) | rfl

theorem get_scalar (m : Mode) (s : Scalar) (hs : sized s = true) :
    get m (.scalar s) = .ok ⟨bytes s, bytes s⟩ := by
  cases s <;> first | (exact absurd hs (by decide)) | (cases m <;> rfl)

theorem get_enum (m : Mode) (u : Scalar) (hu : (u == .Int32 || u == .UInt32) = true) :
    get m (.enum u) = .ok ⟨bytes u, bytes u⟩ := by
  cases u <;> first | (exact absurd hu (by decide)) | (cases m <;> rfl)

theorem bytes_pos {s : Scalar} (h : sized s = true) : 0 < bytes s := by
  cases s <;> first | (exact absurd h (by decide)) | decide

theorem metalLanes_ge (n : Nat) : n ≤ metalLanes n := by
  unfold metalLanes; split <;> omega

theorem vecAlign_pos {m : Mode} {s : Scalar} {n : Nat} (hs : sized s = true) (hn : 1 ≤ n) :
    0 < vecAlign m s n := by
  have hb := bytes_pos hs
  cases m
  · exact hb
  · have := metalLanes_ge n
    exact Nat.mul_pos (by omega) hb

mutual
theorem align_pos (m : Mode) : ∀ t : Ty, wf t = true → 0 < align m t
  | .scalar s, h => by simp only [wf] at h; simpa [align] using bytes_pos h
  | .vec s n, h => by
    simp only [wf, Bool.and_eq_true, decide_eq_true_eq] at h
    simpa [align] using vecAlign_pos h.1 h.2.1
  | .arr t n, h => by simp only [wf, Bool.and_eq_true, decide_eq_true_eq] at h; replace h := h.2; simpa [align] using align_pos m t h
  | .struct ms, _ => by simp only [align]; exact alignMax_pos m ms
  | .enum u, h => by
    simp only [wf] at h
    cases u <;> first | (exact absurd h (by decide)) | (simp [align, bytes])
  | .other _, h => by simp [wf] at h
theorem alignMax_pos (m : Mode) : ∀ ts : Tys, 0 < alignMax m ts
  | .nil => by simp [alignMax]
  | .cons t ts => by
    simp only [alignMax]
    have := alignMax_pos m ts
    omega
end

/-- unrounded size: where the last member ends for a struct, the size otherwise -/
def rawSize (m : Mode) : Ty → Nat
  | .struct ms => endOf m ms 0
  | t => size m t

theorem size_mod_align (m : Mode) : ∀ t : Ty, wf t = true → size m t % align m t = 0
  | .scalar s, _ => by simp [size, align]
  | .vec s n, _ => by
    cases m <;> simp [size, align, vecSize, vecAlign, Nat.mul_mod_left]
  | .arr t n, _ => by
    simp only [size, align]
    rw [Nat.mul_mod, roundUp_mod]; simp
  | .struct ms, _ => by simp only [size, align]; exact roundUp_mod
  | .enum u, _ => by simp [size, align]
  | .other _, h => by simp [wf] at h

theorem size_eq_raw_of_closed (m : Mode) : ∀ t : Ty, closed m t = true → size m t = rawSize m t
  | .scalar _, _ => rfl
  | .vec _ _, _ => rfl
  | .arr _ _, _ => rfl
  | .enum _, _ => rfl
  | .other _, _ => rfl
  | .struct ms, h => by
    simp only [closed, Bool.and_eq_true, beq_iff_eq] at h
    simp only [size, rawSize]
    exact roundUp_of_mod_zero (alignMax_pos m ms) h.1

theorem mulU32_ok {a b c : Nat} (h : mulU32 a b = .ok c) : c = a * b := by
  unfold mulU32 at h; split at h
  · cases h; rfl
  · cases h

mutual
/-- `get` computes the reference alignment and the reference *unrounded* size whenever no struct strictly
    below `t` needs tail padding -/
theorem get_spec (m : Mode) : ∀ (t : Ty) (l : Layout), wf t = true → noInnerTailPad m t = true →
    get m t = .ok l → l.align = align m t ∧ l.size = rawSize m t
  | .scalar s, l, hw, _, h => by
    simp only [wf] at hw
    rw [get_scalar m s hw] at h; cases h; exact ⟨rfl, rfl⟩
  | .vec s n, l, hw, _, h => by
    simp only [wf, Bool.and_eq_true, decide_eq_true_eq] at hw
    rw [get_vec m s n hw.1 hw.2] at h; cases h; exact ⟨rfl, rfl⟩
  | .enum u, l, hw, _, h => by
    simp only [wf] at hw
    rw [get_enum m u hw] at h; cases h; exact ⟨rfl, rfl⟩
  | .other _, _, hw, _, _ => by simp [wf] at hw
  | .arr t n, l, hw, hc, h => by
    simp only [wf, Bool.and_eq_true, decide_eq_true_eq] at hw; replace hw := hw.2
    simp only [noInnerTailPad] at hc
    simp only [Model.Layout.get] at h
    split at h
    · cases h
    · rename_i l' hl'
      have hin : noInnerTailPad m t = true := by
        cases t <;> simp_all [noInnerTailPad, closed]
      obtain ⟨ha, hs⟩ := get_spec m t l' hw hin hl'
      rw [array_ops_pinned] at h
      split at h
      · split at h
        · rename_i z hz
          cases h
          have := mulU32_ok hz
          refine ⟨ha, ?_⟩
          simp only [rawSize, size]
          rw [← size_eq_raw_of_closed m t hc] at hs
          have hmod := size_mod_align m t hw
          rw [roundUp_of_mod_zero (align_pos m t hw) hmod, this, hs, Nat.mul_comm]
        · cases h
      · cases h
  | .struct ms, l, hw, hc, h => by
    simp only [wf, Bool.and_eq_true] at hw
    simp only [noInnerTailPad] at hc
    simp only [Model.Layout.get] at h
    split at h
    · cases h
    · rename_i l' hl'
      rw [final_ops_pinned] at h
      cases h
      obtain ⟨hs, ha⟩ := getMembers_spec m ms ⟨structInit.1, structInit.2⟩ l hw.2 hc (by decide) hl'
      simp only [rawSize, align]
      refine ⟨?_, hs⟩
      rw [ha]
      have := alignMax_pos m ms
      show max 1 (alignMax m ms) = alignMax m ms
      omega
theorem getMembers_spec (m : Mode) : ∀ (ts : Tys) (acc l : Layout), wfAll ts = true →
    closedAll m ts = true → 1 ≤ acc.align → getMembers m ts acc = .ok l →
    l.size = endOf m ts acc.size ∧ l.align = max acc.align (alignMax m ts)
  | .nil, acc, l, _, _, hacc, h => by
    simp only [getMembers] at h; cases h
    refine ⟨by simp [endOf], ?_⟩
    simp only [alignMax]; omega
  | .cons t ts, acc, l, hw, hc, hacc, h => by
    simp only [wfAll, Bool.and_eq_true] at hw
    simp only [closedAll, Bool.and_eq_true] at hc
    simp only [getMembers] at h
    split at h
    · cases h
    · rename_i ml hml
      have hin : noInnerTailPad m t = true := by
        cases t <;> simp_all [noInnerTailPad, closed]
      obtain ⟨ha, hs⟩ := get_spec m t ml hw.1 hin hml
      rw [← size_eq_raw_of_closed m t hc.1] at hs
      rw [member_ops_pinned] at h
      split at h
      · cases h
      · rename_i acc' hacc'
        have hpos : 0 < ml.align := by rw [ha]; exact align_pos m t hw.1
        obtain ⟨e1, e2⟩ := memberStep_ok hpos hacc'
        obtain ⟨r1, r2⟩ := getMembers_spec m ts acc' l hw.2 hc.2 (by rw [e2]; omega) h
        simp only [endOf, alignMax]
        rw [r1, r2, e1, e2, ha, hs]
        exact ⟨rfl, by omega⟩
end

mutual
/-- a layout is never smaller than its scalar data -/
theorem leaf_le_size (m : Mode) : ∀ t : Ty, wf t = true → leaf t ≤ size m t
  | .scalar _, _ => by simp [leaf, size]
  | .enum _, _ => by simp [leaf, size]
  | .other _, h => by simp [wf] at h
  | .vec s n, _ => by
    cases m
    · simp [leaf, size, vecSize]
    · simp only [leaf, size, vecSize]
      exact Nat.mul_le_mul_right _ (metalLanes_ge n)
  | .arr t n, h => by
    simp only [wf, Bool.and_eq_true, decide_eq_true_eq] at h; replace h := h.2
    simp only [leaf, size]
    exact Nat.mul_le_mul_left _ (Nat.le_trans (leaf_le_size m t h) (le_roundUp (align_pos m t h)))
  | .struct ms, h => by
    simp only [wf, Bool.and_eq_true] at h
    simp only [leaf, size]
    have := leafAll_le_endOf m ms 0 h.2
    have := @le_roundUp (endOf m ms 0) (alignMax m ms) (alignMax_pos m ms)
    omega
theorem leafAll_le_endOf (m : Mode) : ∀ (ts : Tys) (c : Nat), wfAll ts = true →
    c + leafAll ts ≤ endOf m ts c
  | .nil, c, _ => by simp [leafAll, endOf]
  | .cons t ts, c, h => by
    simp only [wfAll, Bool.and_eq_true] at h
    simp only [leafAll, endOf]
    have h1 := leaf_le_size m t h.1
    have h2 := @le_roundUp c (align m t) (align_pos m t h.1)
    have h3 := leafAll_le_endOf m ts (roundUp c (align m t) + size m t) h.2
    omega
end

mutual
/-- two padding-free layouts of the same type place every field at the same offset -/
theorem dense_agree : ∀ t : Ty, wf t = true → size .hlsl t = leaf t → size .metal t = leaf t →
    agreeIn t = true
  | .scalar _, _, _, _ => rfl
  | .enum _, _, _, _ => rfl
  | .other _, _, _, _ => rfl
  | .vec _ _, _, _, _ => rfl
  | .arr t n, hw, hh, hm => by
    simp only [wf, Bool.and_eq_true, decide_eq_true_eq] at hw; replace hw := hw.2
    simp only [size, leaf] at hh hm
    simp only [agreeIn, Bool.or_eq_true, Bool.and_eq_true, beq_iff_eq, decide_eq_true_eq]
    by_cases hn : n = 0
    · exact Or.inl hn
    · right
      have hpos : 0 < n := by omega
      have eh := Nat.eq_of_mul_eq_mul_left hpos hh
      have em := Nat.eq_of_mul_eq_mul_left hpos hm
      have lh := leaf_le_size .hlsl t hw
      have lm := leaf_le_size .metal t hw
      have rh := @le_roundUp (size .hlsl t) (align .hlsl t) (align_pos _ t hw)
      have rm := @le_roundUp (size .metal t) (align .metal t) (align_pos _ t hw)
      refine ⟨Or.inr ?_, dense_agree t hw (by omega) (by omega)⟩
      simp only [stride]; omega
  | .struct ms, hw, hh, hm => by
    simp only [wf, Bool.and_eq_true] at hw
    simp only [size, leaf] at hh hm
    have lh := leafAll_le_endOf .hlsl ms 0 hw.2
    have lm := leafAll_le_endOf .metal ms 0 hw.2
    have rh := @le_roundUp (endOf .hlsl ms 0) (alignMax .hlsl ms) (alignMax_pos _ ms)
    have rm := @le_roundUp (endOf .metal ms 0) (alignMax .metal ms) (alignMax_pos _ ms)
    obtain ⟨h1, h2⟩ := denseAll_agree ms 0 hw.2 (by omega) (by omega)
    simp only [agreeIn, Bool.and_eq_true, beq_iff_eq]
    exact ⟨h1, h2⟩
theorem denseAll_agree : ∀ (ts : Tys) (c : Nat), wfAll ts = true →
    endOf .hlsl ts c = c + leafAll ts → endOf .metal ts c = c + leafAll ts →
    offsets .hlsl ts c = offsets .metal ts c ∧ agreeInAll ts = true
  | .nil, _, _, _, _ => by simp [offsets, agreeInAll]
  | .cons t ts, c, hw, hh, hm => by
    simp only [wfAll, Bool.and_eq_true] at hw
    simp only [endOf, leafAll] at hh hm
    have sh := leaf_le_size .hlsl t hw.1
    have sm := leaf_le_size .metal t hw.1
    have rh := @le_roundUp c (align .hlsl t) (align_pos _ t hw.1)
    have rm := @le_roundUp c (align .metal t) (align_pos _ t hw.1)
    have eh := leafAll_le_endOf .hlsl ts (roundUp c (align .hlsl t) + size .hlsl t) hw.2
    have em := leafAll_le_endOf .metal ts (roundUp c (align .metal t) + size .metal t) hw.2
    have a1 : roundUp c (align .hlsl t) = c := by omega
    have a2 : roundUp c (align .metal t) = c := by omega
    have b1 : size .hlsl t = leaf t := by omega
    have b2 : size .metal t = leaf t := by omega
    rw [a1, b1] at hh
    rw [a2, b2] at hm
    obtain ⟨o, g⟩ := denseAll_agree ts (c + leaf t) hw.2 (by omega) (by omega)
    simp only [offsets, agreeInAll, Bool.and_eq_true]
    rw [a1, a2, b1, b2]
    exact ⟨by rw [o], dense_agree t hw.1 b1 b2, g⟩
end

theorem roundUp_raw (m : Mode) (t : Ty) (hw : wf t = true) :
    roundUp (rawSize m t) (align m t) = size m t := by
  cases t with
  | struct ms => rfl
  | _ => exact roundUp_of_mod_zero (align_pos m _ hw) (size_mod_align m _ hw)

/-- what `checkOne` computes when it does not fail -/
theorem checkOne_ok {t : Ty} {r : Option (Layout × Layout)} (h : checkOne t = .ok r) :
    ∃ lh lm zh zm, get .hlsl t = .ok lh ∧ get .metal t = .ok lm ∧
      nextMultipleOf lh.size lh.align = .ok zh ∧ nextMultipleOf lm.size lm.align = .ok zm ∧
      r = if zh ≠ zm then some (⟨zh, lh.align⟩, ⟨zm, lm.align⟩) else none := by
  unfold checkOne at h
  split at h
  · cases h
  · rename_i lh hlh
    split at h
    · cases h
    · rename_i lm hlm
      rw [top_ops_pinned, top_ops_pinned] at h
      cases hzh : nextMultipleOf lh.size lh.align with
      | error e => rw [hzh] at h; cases h
      | ok zh =>
        cases hzm : nextMultipleOf lm.size lm.align with
        | error e => rw [hzh, hzm] at h; cases h
        | ok zm =>
          rw [hzh, hzm] at h
          refine ⟨lh, lm, zh, zm, hlh, hlm, hzh, hzm, ?_⟩
          simp only [differs, checkCompare, bne_iff_ne] at h
          by_cases hne : zh = zm
          · simp only [hne, ne_eq, not_true_eq_false, if_false] at h ⊢; cases h; rfl
          · simp only [hne, ne_eq, not_false_eq_true, if_true] at h ⊢; cases h; rfl

/-- on types without inner tail padding the model compares the two *reference* sizes and reports them -/
theorem checkOne_spec {t : Ty} {r : Option (Layout × Layout)} (hw : wf t = true)
    (hh : noInnerTailPad .hlsl t = true) (hm : noInnerTailPad .metal t = true)
    (h : checkOne t = .ok r) :
    r = if size .hlsl t ≠ size .metal t then
          some (⟨size .hlsl t, align .hlsl t⟩, ⟨size .metal t, align .metal t⟩) else none := by
  obtain ⟨lh, lm, zh, zm, g1, g2, n1, n2, rfl⟩ := checkOne_ok h
  obtain ⟨a1, s1⟩ := get_spec .hlsl t lh hw hh g1
  obtain ⟨a2, s2⟩ := get_spec .metal t lm hw hm g2
  have p1 : 0 < lh.align := by rw [a1]; exact align_pos _ t hw
  have p2 : 0 < lm.align := by rw [a2]; exact align_pos _ t hw
  have e1 := nextMultipleOf_ok p1 n1
  have e2 := nextMultipleOf_ok p2 n2
  rw [s1, a1, roundUp_raw _ t hw] at e1
  rw [s2, a2, roundUp_raw _ t hw] at e2
  rw [e1, e2, a1, a2]

theorem checkFrom_ok : ∀ (ts : List Ty) (i : Nat), checkFrom i ts = .ok → ∀ t ∈ ts, checkOne t = .ok none
  | [], _, _, t, ht => by cases ht
  | t :: ts, i, h, u, hu => by
    unfold checkFrom at h
    split at h
    · cases h
    · cases h
    · cases h
    · rename_i hc
      cases hu with
      | head => exact hc
      | tail _ hu' => exact checkFrom_ok ts (i + 1) h u hu'

theorem metalLanes_small {n : Nat} (h : n ≤ 1) : metalLanes n = n := by
  have : n = 0 ∨ n = 1 := by omega
  rcases this with rfl | rfl <;> rfl

mutual
/-- without vectors the two rule sets coincide -/
theorem vectorFree_same : ∀ t : Ty, vectorFree t = true →
    align .hlsl t = align .metal t ∧ size .hlsl t = size .metal t ∧ agreeIn t = true
  | .scalar _, _ => ⟨rfl, rfl, rfl⟩
  | .enum _, _ => ⟨rfl, rfl, rfl⟩
  | .other _, _ => ⟨rfl, rfl, rfl⟩
  | .vec s n, h => by
    simp only [vectorFree, beq_iff_eq] at h
    subst h
    simp [align, size, vecAlign, vecSize, metalLanes, agreeIn]
  | .arr t n, h => by
    simp only [vectorFree] at h
    obtain ⟨a, s, g⟩ := vectorFree_same t h
    simp only [align, size, agreeIn, stride, a, s, g]
    simp
  | .struct ms, h => by
    simp only [vectorFree] at h
    obtain ⟨a, e, o, g⟩ := vectorFreeAll_same ms h
    simp only [align, size, agreeIn, a, e 0, o 0, g]
    simp
theorem vectorFreeAll_same : ∀ ts : Tys, vectorFreeAll ts = true →
    alignMax .hlsl ts = alignMax .metal ts ∧ (∀ c, endOf .hlsl ts c = endOf .metal ts c) ∧
    (∀ c, offsets .hlsl ts c = offsets .metal ts c) ∧ agreeInAll ts = true
  | .nil, _ => ⟨rfl, fun _ => rfl, fun _ => rfl, rfl⟩
  | .cons t ts, h => by
    simp only [vectorFreeAll, Bool.and_eq_true] at h
    obtain ⟨a, s, g⟩ := vectorFree_same t h.1
    obtain ⟨a', e', o', g'⟩ := vectorFreeAll_same ts h.2
    refine ⟨by simp only [alignMax, a, a'], fun c => by simp only [endOf, a, s, e'],
      fun c => by simp only [offsets, a, s, o'], by simp only [agreeInAll, g, g', Bool.and_self]⟩
end

/-- every member is a scalar, vector or enum -/
def flat : Tys → Bool
  | .nil => true
  | .cons (.scalar _) ts => flat ts
  | .cons (.vec _ _) ts => flat ts
  | .cons (.enum _) ts => flat ts
  | .cons _ _ => false

theorem closedAll_of_flat (m : Mode) : ∀ ts : Tys, flat ts = true → closedAll m ts = true
  | .nil, _ => rfl
  | .cons (.scalar _) ts, h => by simp only [flat] at h; simp [closedAll, closed, closedAll_of_flat m ts h]
  | .cons (.vec _ _) ts, h => by simp only [flat] at h; simp [closedAll, closed, closedAll_of_flat m ts h]
  | .cons (.enum _) ts, h => by simp only [flat] at h; simp [closedAll, closed, closedAll_of_flat m ts h]
  | .cons (.arr _ _) _, h => by simp [flat] at h
  | .cons (.struct _) _, h => by simp [flat] at h
  | .cons (.other _) _, h => by simp [flat] at h

theorem noInner_of_closed (m : Mode) : ∀ t : Ty, closed m t = true → noInnerTailPad m t = true
  | .scalar _, _ => rfl
  | .vec _ _, _ => rfl
  | .enum _, _ => rfl
  | .other _, _ => rfl
  | .arr _ _, h => by simpa [closed, noInnerTailPad] using h
  | .struct _, h => by
    simp only [closed, Bool.and_eq_true] at h
    simpa [noInnerTailPad] using h.2

mutual
/-- a padding-free layout needs no tail padding anywhere -/
theorem dense_closed (m : Mode) : ∀ t : Ty, wf t = true → size m t = leaf t → closed m t = true
  | .scalar _, _, _ => rfl
  | .vec _ _, _, _ => rfl
  | .enum _, _, _ => rfl
  | .other _, _, _ => rfl
  | .arr t n, hw, hd => by
    simp only [wf, Bool.and_eq_true, decide_eq_true_eq] at hw
    simp only [size, leaf] at hd
    have e := Nat.eq_of_mul_eq_mul_left (by omega : 0 < n) hd
    have l1 := leaf_le_size m t hw.2
    have r1 := @le_roundUp (size m t) (align m t) (align_pos m t hw.2)
    simp only [closed]
    exact dense_closed m t hw.2 (by omega)
  | .struct ms, hw, hd => by
    simp only [wf, Bool.and_eq_true] at hw
    simp only [size, leaf] at hd
    have l1 := leafAll_le_endOf m ms 0 hw.2
    have r1 := @le_roundUp (endOf m ms 0) (alignMax m ms) (alignMax_pos m ms)
    have e : roundUp (endOf m ms 0) (alignMax m ms) = endOf m ms 0 := by omega
    simp only [closed, Bool.and_eq_true, beq_iff_eq]
    exact ⟨(roundUp_eq_self_iff (alignMax_pos m ms)).1 e, denseAll_closed m ms 0 hw.2 (by omega)⟩
theorem denseAll_closed (m : Mode) : ∀ (ts : Tys) (c : Nat), wfAll ts = true →
    endOf m ts c = c + leafAll ts → closedAll m ts = true
  | .nil, _, _, _ => rfl
  | .cons t ts, c, hw, hd => by
    simp only [wfAll, Bool.and_eq_true] at hw
    simp only [endOf, leafAll] at hd
    have s1 := leaf_le_size m t hw.1
    have r1 := @le_roundUp c (align m t) (align_pos m t hw.1)
    have e1 := leafAll_le_endOf m ts (roundUp c (align m t) + size m t) hw.2
    simp only [closedAll, Bool.and_eq_true]
    exact ⟨dense_closed m t hw.1 (by omega),
      denseAll_closed m ts (roundUp c (align m t) + size m t) hw.2 (by omega)⟩
end

mutual
/-- structural agreement gives identical absolute offsets for every field, at any base address -/
theorem agree_fields : ∀ (t : Ty), agreeIn t = true → ∀ b, fieldsAt .hlsl t b = fieldsAt .metal t b
  | .scalar _, _, _ => rfl
  | .vec _ _, _, _ => rfl
  | .enum _, _, _ => rfl
  | .other _, _, _ => rfl
  | .struct ms, h, b => by
    simp only [agreeIn, Bool.and_eq_true, beq_iff_eq] at h
    simp only [fieldsAt]
    exact agree_members ms h.2 b 0 0 h.1
  | .arr t n, h, b => by
    simp only [agreeIn, Bool.or_eq_true, Bool.and_eq_true, beq_iff_eq, decide_eq_true_eq] at h
    simp only [fieldsAt]
    rcases h with h0 | ⟨h1, h2⟩
    · subst h0; rfl
    · have ih := agree_fields t h2
      rcases h1 with h1 | h1
      · have : n = 0 ∨ n = 1 := by omega
        rcases this with rfl | rfl
        · rfl
        · simp [List.range_succ, ih]
      · simp only [h1, ih]
theorem agree_members : ∀ (ts : Tys), agreeInAll ts = true → ∀ b cH cM,
    offsets .hlsl ts cH = offsets .metal ts cM → membersAt .hlsl ts b cH = membersAt .metal ts b cM
  | .nil, _, _, _, _, _ => rfl
  | .cons t ts, h, b, cH, cM, ho => by
    simp only [agreeInAll, Bool.and_eq_true] at h
    simp only [offsets, List.cons.injEq] at ho
    simp only [membersAt]
    have ht := agree_members ts h.2 b _ _ ho.2
    rw [ho.1] at ht ⊢
    rw [agree_fields t h.1, ht]
end

theorem roundUp_mono {x y a : Nat} (h : x ≤ y) : roundUp x a ≤ roundUp y a := by
  unfold roundUp
  exact Nat.mul_le_mul_right _ (Nat.div_le_div_right (by omega))

theorem nextMultipleOf_succeeds {a b : Nat} (hb : 0 < b) (h : roundUp a b ≤ u32Max) :
    nextMultipleOf a b = .ok (roundUp a b) := by
  unfold nextMultipleOf
  have hb' : b ≠ 0 := by omega
  simp only [hb', if_false]
  by_cases h0 : a % b = 0
  · simp only [h0, if_true]; rw [roundUp_of_mod_zero hb h0]
  · simp only [h0, if_false]
    rw [roundUp_of_mod_pos hb h0] at h ⊢
    unfold addU32; simp only [h, if_true]

theorem memberStep_succeeds {acc ml : Layout} (ha : 0 < ml.align)
    (h : roundUp acc.size ml.align + ml.size ≤ u32Max) :
    memberStep acc ml = .ok ⟨roundUp acc.size ml.align + ml.size, max acc.align ml.align⟩ := by
  unfold memberStep
  rw [nextMultipleOf_succeeds ha (by omega)]
  simp only [addU32, h, if_true]

mutual
theorem leaf_pos : ∀ t : Ty, wf t = true → 0 < leaf t
  | .scalar s, h => by simp only [wf] at h; simpa [leaf] using bytes_pos h
  | .enum u, h => by
    simp only [wf] at h
    cases u <;> first | (exact absurd h (by decide)) | (simp [leaf, bytes])
  | .other _, h => by simp [wf] at h
  | .vec s n, h => by
    simp only [wf, Bool.and_eq_true, decide_eq_true_eq] at h
    simp only [leaf]
    exact Nat.mul_pos (by omega) (bytes_pos h.1)
  | .arr t n, h => by
    simp only [wf, Bool.and_eq_true, decide_eq_true_eq] at h
    simp only [leaf]
    exact Nat.mul_pos (by omega) (leaf_pos t h.2)
  | .struct ms, h => by
    simp only [wf, Bool.and_eq_true] at h
    simp only [leaf]
    cases ms with
    | nil => simp at h
    | cons t ts =>
      simp only [wfAll, Bool.and_eq_true] at h
      simp only [leafAll]
      have := leaf_pos t h.2.1
      omega
end

theorem le_endOf (m : Mode) (ts : Tys) (c : Nat) (h : wfAll ts = true) : c ≤ endOf m ts c := by
  have := leafAll_le_endOf m ts c h; omega

mutual
/-- `get_type_layout` neither panics nor gives up on a type of the grid whose reference size fits `u32`;
    its size never exceeds the reference size and its alignment is the reference alignment -/
theorem get_total (m : Mode) : ∀ t : Ty, wf t = true → size m t ≤ u32Max →
    ∃ l, get m t = .ok l ∧ l.size ≤ size m t ∧ l.align = align m t
  | .scalar s, hw, _ => by
    simp only [wf] at hw
    exact ⟨_, get_scalar m s hw, Nat.le_refl _, rfl⟩
  | .vec s n, hw, _ => by
    simp only [wf, Bool.and_eq_true, decide_eq_true_eq] at hw
    exact ⟨_, get_vec m s n hw.1 hw.2, Nat.le_refl _, rfl⟩
  | .enum u, hw, _ => by
    simp only [wf] at hw
    exact ⟨_, get_enum m u hw, Nat.le_refl _, rfl⟩
  | .other _, hw, _ => by simp [wf] at hw
  | .arr t n, hw, hb => by
    simp only [wf, Bool.and_eq_true, decide_eq_true_eq] at hw
    simp only [size] at hb
    have hst : size m t ≤ roundUp (size m t) (align m t) := le_roundUp (align_pos m t hw.2)
    have hpos : 0 < size m t := Nat.lt_of_lt_of_le (leaf_pos t hw.2) (leaf_le_size m t hw.2)
    have h1 : 1 * roundUp (size m t) (align m t) ≤ n * roundUp (size m t) (align m t) :=
      Nat.mul_le_mul_right _ hw.1
    have h2 : n * 1 ≤ n * roundUp (size m t) (align m t) := Nat.mul_le_mul_left _ (by omega)
    obtain ⟨l', g, s', a'⟩ := get_total m t hw.2 (by omega)
    have h3 : l'.size * n ≤ n * roundUp (size m t) (align m t) := by
      rw [Nat.mul_comm]; exact Nat.mul_le_mul_left _ (by omega)
    refine ⟨⟨l'.size * n, l'.align⟩, ?_, by simpa [size] using h3, by simpa [align] using a'⟩
    simp only [Model.Layout.get, g]
    rw [array_ops_pinned]
    have hn : n ≤ u32Max := by omega
    have hm : l'.size * n ≤ u32Max := by omega
    simp only [hn, if_true, mulU32, hm]
  | .struct ms, hw, hb => by
    simp only [wf, Bool.and_eq_true] at hw
    simp only [size] at hb
    have r := @le_roundUp (endOf m ms 0) (alignMax m ms) (alignMax_pos m ms)
    obtain ⟨l, g, s', a'⟩ := getMembers_total m ms ⟨structInit.1, structInit.2⟩ 0 hw.2
      (Nat.le_refl _) (by omega) (by decide)
    refine ⟨l, ?_, by simp only [size]; omega, ?_⟩
    · simp only [Model.Layout.get, g]; rw [final_ops_pinned]
    · simp only [align]; rw [a']
      have := alignMax_pos m ms
      show max 1 (alignMax m ms) = alignMax m ms
      omega
theorem getMembers_total (m : Mode) : ∀ (ts : Tys) (acc : Layout) (cur : Nat), wfAll ts = true →
    acc.size ≤ cur → endOf m ts cur ≤ u32Max → 1 ≤ acc.align →
    ∃ l, getMembers m ts acc = .ok l ∧ l.size ≤ endOf m ts cur ∧ l.align = max acc.align (alignMax m ts)
  | .nil, acc, cur, _, hc, _, ha => by
    refine ⟨acc, rfl, by simpa [endOf] using hc, ?_⟩
    simp only [alignMax]; omega
  | .cons t ts, acc, cur, hw, hc, hb, ha => by
    simp only [wfAll, Bool.and_eq_true] at hw
    simp only [endOf] at hb
    have e1 := le_endOf m ts (roundUp cur (align m t) + size m t) hw.2
    have r1 := @le_roundUp cur (align m t) (align_pos m t hw.1)
    obtain ⟨ml, g, s', a'⟩ := get_total m t hw.1 (by omega)
    have hpos : 0 < ml.align := by rw [a']; exact align_pos m t hw.1
    have mono : roundUp acc.size ml.align ≤ roundUp cur (align m t) := by
      rw [a']; exact roundUp_mono hc
    have hstep := @memberStep_succeeds acc ml hpos (by omega)
    obtain ⟨l, g2, s2, a2⟩ := getMembers_total m ts
      ⟨roundUp acc.size ml.align + ml.size, max acc.align ml.align⟩
      (roundUp cur (align m t) + size m t) hw.2 (by simp only []; omega) hb (by simp only []; omega)
    refine ⟨l, ?_, by simpa [endOf] using s2, ?_⟩
    · simp only [getMembers, g]; rw [member_ops_pinned, hstep]; exact g2
    · rw [a2]; simp only [alignMax, a']; omega
end

/-- validation of a type of the grid whose reference sizes fit `u32` always reaches the comparison -/
theorem checkOne_total (t : Ty) (hw : wf t = true) (hh : size .hlsl t ≤ u32Max)
    (hm : size .metal t ≤ u32Max) : ∃ r, checkOne t = .ok r := by
  obtain ⟨lh, g1, s1, a1⟩ := get_total .hlsl t hw hh
  obtain ⟨lm, g2, s2, a2⟩ := get_total .metal t hw hm
  have p1 := align_pos .hlsl t hw
  have p2 := align_pos .metal t hw
  have b1 : roundUp lh.size lh.align ≤ u32Max := by
    have := @roundUp_mono _ _ (align .hlsl t) s1
    rw [roundUp_of_mod_zero p1 (size_mod_align _ t hw)] at this
    rw [a1]; omega
  have b2 : roundUp lm.size lm.align ≤ u32Max := by
    have := @roundUp_mono _ _ (align .metal t) s2
    rw [roundUp_of_mod_zero p2 (size_mod_align _ t hw)] at this
    rw [a2]; omega
  unfold checkOne
  simp only [g1, g2]
  rw [top_ops_pinned, top_ops_pinned, nextMultipleOf_succeeds (by rw [a1]; exact p1) b1,
    nextMultipleOf_succeeds (by rw [a2]; exact p2) b2]
  simp only []
  split <;> exact ⟨_, rfl⟩

end RsslVerif.Lemmas.Layout

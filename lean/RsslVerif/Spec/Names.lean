/-!
# C15 — what "hygienic names" means, independently of the code

* `hlslKeywords`, `mslKeywords`: the committed, independent lists of reserved words and built-in names of
  the two target languages (sources are named in the doc comments).  The harness reads these two lists
  from this file (`include_str!`), so the Lean statement and the oracle on the emitted text use the same
  reference.  Names that rssl's own lexer/parser already refuses as identifiers are irrelevant (no accepted
  program contains them); whether rssl accepts a name is decided on the real front end by the harness.
-/
namespace RsslVerif.Spec.Names

/-- HLSL: keywords and reserved words (Microsoft HLSL reference, appendix "Keywords" and "Reserved Words"), the intrinsic functions of the HLSL reference, and the SM6 wave/quad/ray built-ins that DXC predeclares -/
def hlslKeywords : List String :=
  ["AppendStructuredBuffer", "asm", "asm_fragment", "BlendState", "bool", "break", "Buffer", "ByteAddressBuffer",
   "case", "cbuffer", "centroid", "class", "column_major", "compile", "compile_fragment", "CompileShader",
   "const", "continue", "ComputeShader", "ConsumeStructuredBuffer", "default", "DepthStencilState", "DepthStencilView", "discard",
   "do", "double", "DomainShader", "dword", "else", "export", "extern", "false",
   "float", "for", "fxgroup", "GeometryShader", "groupshared", "half", "Hullshader", "if",
   "in", "inline", "inout", "InputPatch", "int", "interface", "line", "lineadj",
   "linear", "LineStream", "matrix", "min16float", "min10float", "min16int", "min12int", "min16uint",
   "namespace", "nointerpolation", "noperspective", "NULL", "out", "OutputPatch", "packoffset", "pass",
   "pixelfragment", "PixelShader", "point", "PointStream", "precise", "RasterizerState", "RenderTargetView", "return",
   "register", "row_major", "RWBuffer", "RWByteAddressBuffer", "RWStructuredBuffer", "RWTexture1D", "RWTexture1DArray", "RWTexture2D",
   "RWTexture2DArray", "RWTexture3D", "sample", "sampler", "SamplerState", "SamplerComparisonState", "shared", "snorm",
   "stateblock", "stateblock_state", "static", "string", "struct", "switch", "StructuredBuffer", "tbuffer",
   "technique", "technique10", "technique11", "texture", "Texture1D", "Texture1DArray", "Texture2D", "Texture2DArray",
   "Texture2DMS", "Texture2DMSArray", "Texture3D", "TextureCube", "TextureCubeArray", "true", "typedef", "triangle",
   "triangleadj", "TriangleStream", "uint", "uniform", "unorm", "unsigned", "vector", "vertexfragment",
   "VertexShader", "void", "volatile", "while", "auto", "catch", "char", "const_cast",
   "delete", "dynamic_cast", "enum", "explicit", "friend", "goto", "long", "mutable",
   "new", "operator", "private", "protected", "public", "reinterpret_cast", "short", "signed",
   "sizeof", "static_cast", "template", "this", "throw", "try", "typename", "union",
   "using", "virtual", "abort", "abs", "acos", "all", "AllMemoryBarrier", "AllMemoryBarrierWithGroupSync",
   "any", "asdouble", "asfloat", "asin", "asint", "asuint", "atan", "atan2",
   "ceil", "CheckAccessFullyMapped", "clamp", "clip", "cos", "cosh", "countbits", "cross",
   "D3DCOLORtoUBYTE4", "ddx", "ddx_coarse", "ddx_fine", "ddy", "ddy_coarse", "ddy_fine", "degrees",
   "determinant", "DeviceMemoryBarrier", "DeviceMemoryBarrierWithGroupSync", "distance", "dot", "dst", "errorf", "EvaluateAttributeCentroid",
   "EvaluateAttributeAtSample", "EvaluateAttributeSnapped", "exp", "exp2", "f16tof32", "f32tof16", "faceforward", "firstbithigh",
   "firstbitlow", "floor", "fma", "fmod", "frac", "frexp", "fwidth", "GetRenderTargetSampleCount",
   "GetRenderTargetSamplePosition", "GroupMemoryBarrier", "GroupMemoryBarrierWithGroupSync", "InterlockedAdd", "InterlockedAnd", "InterlockedCompareExchange", "InterlockedCompareStore", "InterlockedExchange",
   "InterlockedMax", "InterlockedMin", "InterlockedOr", "InterlockedXor", "isfinite", "isinf", "isnan", "ldexp",
   "length", "lerp", "lit", "log", "log10", "log2", "mad", "max",
   "min", "modf", "msad4", "mul", "noise", "normalize", "pow", "printf",
   "radians", "rcp", "reflect", "refract", "reversebits", "round", "rsqrt", "saturate",
   "sign", "sin", "sincos", "sinh", "smoothstep", "sqrt", "step", "tan",
   "tanh", "transpose", "trunc", "WaveActiveAllEqual", "WaveActiveAllTrue", "WaveActiveAnyTrue", "WaveActiveBallot", "WaveActiveBitAnd",
   "WaveActiveBitOr", "WaveActiveBitXor", "WaveActiveCountBits", "WaveActiveMax", "WaveActiveMin", "WaveActiveProduct", "WaveActiveSum", "WaveGetLaneCount",
   "WaveGetLaneIndex", "WaveIsFirstLane", "WavePrefixCountBits", "WavePrefixProduct", "WavePrefixSum", "WaveReadLaneAt", "WaveReadLaneFirst", "QuadReadAcrossDiagonal",
   "QuadReadAcrossX", "QuadReadAcrossY", "QuadReadLaneAt", "NonUniformResourceIndex", "ConstantBuffer", "RayDesc", "RayQuery", "RaytracingAccelerationStructure",
   "DispatchMesh", "SetMeshOutputCounts", "select", "and", "or", "int64_t", "uint64_t", "float16_t",
   "int16_t", "uint16_t"]

/-- MSL: C++14 keywords and alternative tokens (ISO C++14 [lex.key]), the Metal address-space and function qualifiers, the scalar typedefs Metal predeclares in the global namespace (Metal Shading Language Specification 2.1, 4, 5.1), `metal` and `main` -/
def mslKeywords : List String :=
  ["alignas", "alignof", "asm", "auto", "bool", "break", "case", "catch",
   "char", "char16_t", "char32_t", "class", "const", "constexpr", "const_cast", "continue",
   "decltype", "default", "delete", "do", "double", "dynamic_cast", "else", "enum",
   "explicit", "export", "extern", "false", "float", "for", "friend", "goto",
   "if", "inline", "int", "long", "mutable", "namespace", "new", "noexcept",
   "nullptr", "operator", "private", "protected", "public", "register", "reinterpret_cast", "return",
   "short", "signed", "sizeof", "static", "static_assert", "static_cast", "struct", "switch",
   "template", "this", "thread_local", "throw", "true", "try", "typedef", "typeid",
   "typename", "union", "unsigned", "using", "virtual", "void", "volatile", "wchar_t",
   "while", "and", "and_eq", "bitand", "bitor", "compl", "not", "not_eq",
   "or", "or_eq", "xor", "xor_eq", "device", "constant", "thread", "threadgroup",
   "threadgroup_imageblock", "ray_data", "object_data", "kernel", "vertex", "fragment", "half", "uint",
   "ushort", "uchar", "ulong", "size_t", "ptrdiff_t", "int8_t", "uint8_t", "int16_t",
   "uint16_t", "int32_t", "uint32_t", "int64_t", "uint64_t", "metal", "main"]

end RsslVerif.Spec.Names

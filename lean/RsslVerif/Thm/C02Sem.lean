import RsslVerif.Lemmas.GenMslWorld
/-!
# C02, semantic half — the Metal exporter preserves the meaning of the scalar subset

Theorems about `Model.GenMsl` (the expression / statement / function half of `msl/src/generator.rs`).
-/
namespace RsslVerif.Thm.C02Sem
open RsslVerif.Gen.HlslGenTables RsslVerif.Gen.MslGenTables RsslVerif.Model RsslVerif.Model.GenMsl RsslVerif.Spec.Sem RsslVerif.Lemmas.GenMsl
open RsslVerif.Model.Ir (Ty Var Const Dir)

/-- the textual shape of every arm of `generate_expression` / `generate_intrinsic_op` / `generate_statement` /
`generate_scope_block` / `generate_for_init` / `generate_variable_definition` / `generate_user_call` /
`generate_function_inner` / `generate_function_and_trampoline` / `generate_function_out_trampoline_body` that
`Model.GenMsl` mirrors is the one in the source (facts re-extracted on every run; an edit of any of these functions makes
the corresponding fact `false` and this theorem stops checking). -/
theorem msl_exporter_shape_as_modelled :
    mslUnaryFormAsModelled = true ∧ mslBinaryFormAsModelled = true ∧ invokeSimpleAsModelled = true ∧
    invocationArgsInOrder = true ∧ mslSequenceAsModelled = true ∧ mslCastAsModelled = true ∧ mslTernaryInOrder = true ∧
    mslVariableIsLeafName = true ∧ mslGlobalIsName = true ∧ mslCallDispatch = true ∧ mslLiteralArm = true ∧
    mslUserCallAsModelled = true ∧ mslScopeBlockAsModelled = true ∧ mslStatementArmsAsModelled = true ∧
    mslVariableDefinitionAsModelled = true ∧ mslForInitAsModelled = true ∧ outParamsAreThreadReferences = true ∧
    trampolineBodyAsModelled = true ∧ targetThenTrampoline = true ∧ functionBodyAsModelled = true ∧
    tagParameterAsModelled = true ∧ metalLibPrefix = "metal" ∧ trampolineResultName = "out" ∧ trampolineLocalPrefix = "__" := by
  decide

/-- `generate_intrinsic_op`'s table for Metal (re-extracted on every run): every typed operator is mapped to the syntax
operator whose C meaning is the RSSL meaning of the typed operator; `%` and `%=` alone look at their operand type: `%`
becomes `metal::fmod` for floating-point operands, and `%=` on a floating-point target (Metal has neither operator for
floats; fixes 92d66eb + 35faaaa) is generated as the assignment `a = a % b` — through the very rows of this table for `=`
and `%` — or refused with `ComplexRemainderAssignment`, and stays `%=` otherwise; the helper / mesh forms have no meaning in
the scalar subset. -/
theorem msl_op_table_is_identity :
    (∀ o u, mslOpForm o = .unary u → astUnSem u = irOpSem o) ∧
    (∀ o b, mslOpForm o = .binary b → astBinSem b = irOpSem o) ∧
    (∀ o n s b, mslOpForm o = .floatCall n s b → o = .Modulus ∧ n = "fmod" ∧ astBinSem b = irOpSem o ∧
        s = ["Float16", "Float32", "Float64", "FloatLiteral"]) ∧
    (∀ o s err outer inner b, mslOpForm o = .floatAssign s err outer inner b →
        o = .RemainderAssignment ∧ astBinSem b = irOpSem o ∧ irOpSem o = .compound .mod ∧
        irOpSem outer = .assign ∧ irOpSem inner = .bin .mod ∧ s = ["Float16", "Float32", "Float64"] ∧
        err = "ComplexRemainderAssignment") ∧
    (∀ o, (mslOpForm o = .special ∨ mslOpForm o = .meshMethod ∨ mslOpForm o = .meshHelper) → irOpSem o = .unsupported) := by
  refine ⟨?_, ?_, ?_, ?_, ?_⟩
  · intro o u h; cases o <;> simp [mslOpForm] at h <;> subst h <;> rfl
  · intro o b h; cases o <;> simp [mslOpForm] at h <;> subst h <;> rfl
  · intro o n s b h; cases o <;> simp [mslOpForm] at h
    obtain ⟨rfl, rfl, rfl⟩ := h
    exact ⟨rfl, rfl, rfl, rfl⟩
  · intro o s err outer inner b h; cases o <;> simp [mslOpForm] at h
    obtain ⟨rfl, rfl, rfl, rfl, rfl⟩ := h
    exact ⟨rfl, rfl, rfl, rfl, rfl, rfl, rfl⟩
  · intro o h; cases o <;> simp [mslOpForm] at h <;> rfl

/-- the Metal literal function has the same arms, in the same order, as the HLSL one (`Gen.HlslGenTables.literalArms`),
except for the one row the fix batch made different on purpose: a `Float64` constant — Metal has no `double` — is refused
with `Err(GenerateError::UnsupportedDouble)` (fix 9824ce3).  Every other row, including the new
`IntLiteral ↦ Err(IntLiteralOutOfRange)` (fix 6017bad), is the HLSL row: what C01 proves about the tree of a constant holds
for the Metal tree as well -/
theorem msl_literal_arms_same_as_hlsl :
    mslLiteralArms = literalArms.map (fun a => if a.1 = .Float64 then (a.1, a.2.1, .errs "UnsupportedDouble") else a) ∧
    (∀ k v, k ≠ ConstKind.Float64 → GenMsl.findArm k v = GenHlsl.findArm k v) ∧
    (∀ v, GenMsl.findArm .Float64 v = some (.errs "UnsupportedDouble")) :=
  ⟨Lemmas.GenMsl.literal_arms_eq, Lemmas.GenMsl.findArm_eq, Lemmas.GenMsl.findArm_float64⟩

/-- on every modelled constant (none is a double) the two literal functions agree: same tree, same refusal -/
theorem msl_genLiteral_eq (c : Ir.Const) : GenMsl.genLiteral c = GenHlsl.genLiteral c := Lemmas.GenMsl.genLiteral_eq c

/-- **the Metal `generate_literal` never panics** on a modelled constant (fix 6017bad): a constant is exported, or — exactly
when it is an `IntLiteral` of magnitude above `u64::MAX` — refused with `Err(GenerateError::IntLiteralOutOfRange)`
(C01's `literal_never_panics` carried over through `msl_genLiteral_eq`) -/
theorem msl_literal_never_panics :
    (∀ c : Ir.Const, (∃ a, GenMsl.genLiteral c = .ok a) ∨ GenMsl.genLiteral c = .error (.diag "IntLiteralOutOfRange")) ∧
    (∀ v : Int, (v < -GenHlsl.u64Max ∨ GenHlsl.u64Max < v) → GenMsl.genLiteral (.intLit v) = .error (.diag "IntLiteralOutOfRange")) ∧
    (∀ (c : Ir.Const) m, GenMsl.genLiteral c ≠ .error (.panic m)) := by
  simp only [Lemmas.GenMsl.genLiteral_eq]
  have big : ∀ v : Int, (v < -GenHlsl.u64Max ∨ GenHlsl.u64Max < v) → GenHlsl.genLiteral (.intLit v) = .error (.diag "IntLiteralOutOfRange") := by
    intro v hv
    have h1 : ¬ (v < 0 ∧ -v ≤ GenHlsl.u64Max) := by simp only [GenHlsl.u64Max] at hv ⊢; omega
    have h2 : ¬ (0 ≤ v ∧ v ≤ GenHlsl.u64Max) := by simp only [GenHlsl.u64Max] at hv ⊢; omega
    simp [GenHlsl.genLiteral, Ir.Const.kind, GenHlsl.Const.intValue, Lemmas.GenSem.findArm_intLit_big v h1 h2]
  have all : ∀ c : Ir.Const, (∃ a, GenHlsl.genLiteral c = .ok a) ∨ GenHlsl.genLiteral c = .error (.diag "IntLiteralOutOfRange") := by
    intro c
    cases c with
    | bool b => left; simp [GenHlsl.genLiteral, Ir.Const.kind, GenHlsl.Const.intValue, Lemmas.GenSem.findArm_bool, GenHlsl.mkLit, Except.map]
    | float32 x => left; simp [GenHlsl.genLiteral, Ir.Const.kind, GenHlsl.Const.intValue, Lemmas.GenSem.findArm_f32, GenHlsl.mkLit, Except.map]
    | floatLit x => left; simp [GenHlsl.genLiteral, Ir.Const.kind, GenHlsl.Const.intValue, Lemmas.GenSem.findArm_flit, GenHlsl.mkLit, Except.map]
    | uint32 v => left; simp [GenHlsl.genLiteral, Ir.Const.kind, GenHlsl.Const.intValue, Lemmas.GenSem.findArm_uint, GenHlsl.mkLit, Except.map]
    | intLit v =>
      by_cases hin : -GenHlsl.u64Max ≤ v ∧ v ≤ GenHlsl.u64Max
      · left
        by_cases hn : v < 0
        · simp [GenHlsl.genLiteral, Ir.Const.kind, GenHlsl.Const.intValue, Lemmas.GenSem.findArm_intLit_neg v hn (by omega), GenHlsl.negMagnitude]
        · simp [GenHlsl.genLiteral, Ir.Const.kind, GenHlsl.Const.intValue, Lemmas.GenSem.findArm_intLit_nonneg v (by omega) hin.2, GenHlsl.mkLit, Except.map]
      · right; exact big v (by omega)
    | int32 v =>
      left
      by_cases hn : v.toInt < 0
      · simp [GenHlsl.genLiteral, Ir.Const.kind, GenHlsl.Const.intValue, Lemmas.GenSem.findArm_int32_neg _ hn, GenHlsl.negMagnitude]
      · simp [GenHlsl.genLiteral, Ir.Const.kind, GenHlsl.Const.intValue, Lemmas.GenSem.findArm_int32_nonneg _ hn, GenHlsl.mkLit, Except.map]
  refine ⟨all, big, fun c m hm => ?_⟩
  rcases all c with ⟨a, ha⟩ | hd
  · rw [ha] at hm; cases hm
  · rw [hd] at hm; cases hm

/-! ## meaning preservation: expressions

`Msl.eval` is the C++/Metal reading of the emitted syntax (`Spec.SemMsl`): Metal's literal types, integer promotion and
usual arithmetic conversions, Metal's shift rule, by-value and by-reference (`thread T&`) parameters.  `Ir.eval` is the
typed semantics of C01, unchanged.  Hypotheses: the type checker accepted the expression (`Ir.typeOf`); the side
conditions `Ir.okM` (`Spec.SemMslWT`: where the Metal reading is *known* to coincide — each excluded form is either one of
the two known findings or needs run-time types of variables); the emitted names denote the IR's entities in the frame at
hand, for the variables in scope there (`AgreeM`); the callable functions of the two worlds are linked by `Worlds`:
a Metal call with variables for the out/inout parameters and references to the needed statics behaves as copy-in /
copy-out around the typed function (discharged for whole programs by `gen_sem_program`). -/

/-- **expressions**: the emitted expression has a static type `ta` under C++ rules and — converted to the IR's type `t`,
which is what every context the exporter places it in does — evaluates to exactly the IR's value and store, from every
store, for every interpretation of the primitives.  All expression forms of the model: typed constants, locals,
statics (reference parameters in Metal), unary / binary / assignment / increment operators incl. `%` on floats
(`metal::fmod`) and `%=` on floats (`x = metal::fmod(x, y)`, fixes 92d66eb + 35faaaa: whenever the exporter emits it its own
guard — plain target, right operand free of writes — is what the proof needs), `?:`, `Sequence`, casts, calls of user
functions with in/out/inout arguments and appended statics. -/
theorem gen_sem_expr {W : World} {M : Msl.MWorld} {env : Ast.Env} {cx : Ctx} {vis : Var → Bool} {rsv : Nat → List Var}
    (hag : AgreeM cx vis env) (hw : Worlds cx rsv W M) (e : Ir.Expr) (a : HlslAst.Expr) (t : Ty)
    (hg : genExpr cx e = .ok a) (ht : Ir.typeOf W.sig cx.vty e = some t) (hok : Ir.okM (side cx W vis rsv) e = true) :
    ∃ ta, Msl.typeOf M.msig env a = some ta ∧ ∀ σ, Msl.convR M.P ta t (Msl.eval M env a σ) = Ir.eval W e σ :=
  ⟨mTy e t, (sim_exprM hag hw e a t hg ht hok).1, fun σ => (sim_exprM hag hw e a t hg ht hok).conv ht σ⟩

/-- …and without any conversion unless the expression is the bare constant `Int32(i32::MIN)` (printed `-2147483648`, a
`long` in Metal): same static type, same result. -/
theorem gen_sem_expr_plain {W : World} {M : Msl.MWorld} {env : Ast.Env} {cx : Ctx} {vis : Var → Bool} {rsv : Nat → List Var}
    (hag : AgreeM cx vis env) (hw : Worlds cx rsv W M) (e : Ir.Expr) (a : HlslAst.Expr) (t : Ty)
    (hg : genExpr cx e = .ok a) (ht : Ir.typeOf W.sig cx.vty e = some t) (hok : Ir.okM (side cx W vis rsv) e = true)
    (hn : Ir.isMin e = false) :
    Msl.typeOf M.msig env a = some t ∧ ∀ σ, Msl.eval M env a σ = Ir.eval W e σ :=
  (sim_exprM hag hw e a t hg ht hok).plain hn

/-- the argument list of a call — user arguments followed by the callee's statics — evaluates, left to right, to the
values of the `in` arguments, the *locations* of the out/inout arguments and of the statics, with the store the typed
evaluation of the user arguments leaves. -/
theorem gen_sem_args {W : World} {M : Msl.MWorld} {env : Ast.Env} {cx : Ctx} {vis : Var → Bool} {rsv : Nat → List Var}
    (hag : AgreeM cx vis env) (hw : Worlds cx rsv W M) (es : Ir.Exprs) (as : HlslAst.Exprs) (ps : List (Dir × Ty)) (gs : List Nat)
    (hg : genArgs cx es = .ok as) (hargs : Ir.argsOK W.sig cx.vty es ps = true)
    (hok : Ir.okMArgs (side cx W vis rsv) es = true) (hvis : gs.all (fun g => vis (.glob g)) = true) :
    ∀ σ, Msl.evalArgs M env (appendArgs as (globalArgs cx gs)) (mParams ps ++ globParams cx gs) σ =
      match Ir.evalArgs W es ps σ with
      | none => none
      | some (l, σ1) => some (l.map toMArg ++ globMArgs gs, σ1) :=
  sim_argsM hag hw es as ps _ _ _ hg hargs hok (globalArgs_eval hag gs hvis)


/-! ## meaning preservation: statements, functions, the trampoline, programs -/

/-- **statements** (expression statement, declaration, block, if, if/else, for with every kind of init, while, do-while,
break, continue, return, `switch`, `case` and `default` labels): same control-flow outcome and same store, from every
store, for every fuel and every way of entering the statement (executing, or looking for the `case`/`default` label of
the enclosing `switch`).  A `case` label written as an `IntLiteral` is an `int` or a `long` constant in Metal; converted
to the type of the controlling expression it selects the same case. -/
theorem gen_sem_stmt {W : World} {M : Msl.MWorld} {env : Ast.Env} {cx : Ctx} {vis : Var → Bool} {rsv : Nat → List Var}
    (hag : AgreeM cx vis env) (hw : Worlds cx rsv W M) (rt : Ty) (lt : Option Ty)
    (s : Ir.Stmt) (s' : HlslAst.Stmt) (hg : genStmt cx s = .ok s')
    (hwt : Ir.wtStmtM (side cx W vis rsv) rt lt s = true) (m : Mode) (hm : Lemmas.GenSem.ModeOK lt m) :
    ∀ fuel σ, Msl.exec M env rt fuel m s' σ = Ir.exec W fuel m s σ :=
  sim_stmtM hag hw rt s s' lt hg hwt m hm

/-- **statement lists** = `generate_scope_block`, including its label handling -/
theorem gen_sem_stmts {W : World} {M : Msl.MWorld} {env : Ast.Env} {cx : Ctx} {vis : Var → Bool} {rsv : Nat → List Var}
    (hag : AgreeM cx vis env) (hw : Worlds cx rsv W M) (rt : Ty) (lt : Option Ty)
    (b : Ir.Stmts) (b' : HlslAst.Stmts) (hg : genStmts cx b = .ok b')
    (hwt : Ir.wtStmtsM (side cx W vis rsv) rt lt b = true) (m : Mode) (hm : Lemmas.GenSem.ModeOK lt m) :
    ∀ fuel σ, Msl.execs M env rt fuel m b' σ = Ir.execs W fuel m b σ := by
  intro fuel σ
  have := sim_accM hag hw rt b .nil b' lt hg hwt m hm fuel σ
  rw [this]
  cases m <;> simp [Msl.execs, endOf, Lemmas.GenSem.bindS]

/-- **functions** — the definition that carries the source body (a function that needs no trampoline, or the target of
one: `target`): run by the Metal semantics with by-value arguments for the `in` parameters, *references to the
parameter slots* for the out/inout parameters (which hold the argument values: `Preset`), the tag if it is a target, and
references to the statics it needs, it returns what the typed function returns and leaves the store the typed function
leaves (the slots the layout reclaims at return aside).  The statics are reachable only through the reference
parameters: they are not in the frame (`AgreeL`), so a static that was not threaded would not resolve. -/
theorem gen_sem_func {W : World} {M : Msl.MWorld} {cx : Ctx} {L : Msl.Layout} {rsv : Nat → List Var} {vis0 : Var → Bool}
    {fn : Ir.Func} {mfn : MslAst.Func} {gs : List Nat} {target : Bool}
    (hL : AgreeL cx L fn vis0) (hw : Worlds cx rsv W M) (hreq : cx.req fn.id = some gs)
    (hinj : ∀ x y, visWith vis0 gs x = true → visWith vis0 gs y = true → cx.name x = cx.name y → x = y)
    (hnd : (fn.params.map (·.1)).Nodup) (hg : genFuncInner cx fn target false = .ok mfn)
    (hwt : Ir.wtStmtsM (side cx W (visWith vis0 gs) rsv) fn.ret none fn.body = true) :
    ∀ fuel vals σ, vals.length = fn.params.length → Preset fn.params vals σ →
      Msl.callFunc M L fuel mfn (slotArgs fn.params vals ++ ((if target then [Msl.MArg.tag] else []) ++ globMArgs gs)) σ =
        (Ir.callFunc W fuel fn vals σ).map (fun r => (r.1, Msl.restore (L.scratch (cx.funcName fn.id)) σ r.2.2)) :=
  sim_funcM hL hw hreq hinj hnd hg hwt

/-- **`trampoline_copy_semantics`**: the emitted trampoline (`generate_function_out_trampoline_body`), called through
references — by-value arguments `v` for the `in` parameters, *arbitrary caller variables* `x` for the out/inout parameters
(they may be equal to one another, to a static the function also receives, anything outside the trampoline's own
slots), references to the statics — evaluates its arguments' variables at the moment of the call (`valsIn`: copy-in),
runs the typed function on its own copies (the target's specification `hT`, discharged by `gen_sem_func`), and writes
the final parameter values back to the variables **in parameter order** on top of the function's final store
(`writeBack`: copy-out) — exactly the copy-in/copy-out call of the typed semantics, whatever aliasing there is among the
arguments.  (`out` parameters enter with whatever their slot holds: `T __p;` has no initialiser.) -/
theorem trampoline_copy_semantics {W : World} {cx : Ctx} {L : Msl.Layout} {fn : Ir.Func} {gs : List Nat} {xo : Var}
    (hA : AgreeT cx L fn gs xo) (M : Msl.MWorld) (fuel : Nat) (t : MslAst.Func)
    (hreq : cx.req fn.id = some gs) (hg : genFuncInner cx fn false true = .ok t)
    (htyP : ∀ p ∈ fn.params, cx.vty (.loc p.1) = p.2.2)
    (hsig : M.msig fn.id true = some (fn.ret, mParamsOf fn.params ++ (Msl.PK.tag, Ty.void) :: globParams cx gs))
    (hT : ∀ σ', M.mphi fn.id true (slotArgs fn.params (fn.params.map fun p => σ' (.loc p.1)) ++ Msl.MArg.tag :: globMArgs gs) σ' =
      (Ir.callFunc W fuel fn (fn.params.map fun p => σ' (.loc p.1)) σ').map (fun r => (r.1, Msl.restore [xo] σ' r.2.2)))
    (l : CArgs) (hok : ArgsOK cx.vty (slotsOf fn.params) xo fn.params l) :
    ∀ σ, Msl.callFunc M L fuel t (l.map toMArg ++ globMArgs gs) σ =
      match Ir.callFunc W fuel fn (valsIn fn.params l σ) σ with
      | none => none
      | some (ret, finals, σ1) =>
        some (if fn.ret = .void then Val.void else ret, Msl.restore [xo] σ (writeBack (l.map (·.2)) finals σ1)) :=
  trampoline_copy hA M fuel t hreq hg htyP hsig hT l hok

/-- **programs**: with the callee semantics no longer a parameter.  For every call depth `d`, every loop fuel, every
interpretation of the primitives: a call of a function of the emitted Metal program (the overload callers see), with
values for the `in` parameters, variables for the out/inout parameters and references to the statics the function
needs, returns what the typed function returns when entered with the current values of those variables, and leaves the
typed function's final store with the final parameter values written back to the variables in order.

Hypotheses: `ProgOK` (the exporter produced the module; per function the side conditions of the statement theorems,
names and layout), `SynOK` (syntactic: no function mentions a trampoline's scratch slot `out`; a `void` function that
gets a trampoline has no `return e;`) and `OutOK`: the typed functions that get a trampoline do not depend on the value
an `out` parameter has on entry — a *semantic* precondition on the source program (a program that reads an `out`
parameter before writing it has no defined meaning in the source language; `T __p;` is uninitialised in the emitted
Metal), not derived from a syntactic definite-assignment analysis here. -/
theorem gen_sem_program {cx : Ctx} {L : Msl.Layout} {prog : List Ir.Func} {mprog : List MslAst.Func}
    {rsv : Nat → List Var} {xo : Nat → Var} {vis0 : Nat → Var → Bool} {P : Prim} {fuel : Nat}
    (hP : ProgOK cx L prog mprog rsv xo vis0) (hsyn : SynOK cx prog xo) (hout : OutOK cx P prog fuel) (d : Nat)
    (f : Nat) (rt : Ty) (ps : List (Dir × Ty)) (gs : List Nat) (l : List (Val × Option Var)) (σ : Store)
    (hsig : Ir.sigOf prog f = some (rt, ps)) (hreq : cx.req f = some gs) (hcalled : cx.called f = true)
    (hfit : fitsB cx.vty ps l = true) (hrsv : ∀ p ∈ l, ∀ x, p.2 = some x → (rsv f).contains x = false) :
    Msl.phi P L mprog fuel d f false (l.map toMArg ++ globMArgs gs) σ =
      match Ir.phi P prog fuel d f (l.map (valAt σ)) σ with
      | none => none
      | some (ret, finals, σ2) => some (ret, writeBack (l.map (·.2)) finals σ2) :=
  (worlds_prog hP (semOK_of hout hsyn) d).call f rt ps gs l σ hsig hreq hcalled hfit hrsv

/-- the typed semantics changes only variables the program mentions (used to discharge "the scratch slot is untouched") -/
theorem ir_frame (P : Prim) (prog : List Ir.Func) (fuel : Nat) (x : Var) (hfree : ∀ fn ∈ prog, Lemmas.GenMsl.Ir.freeF x fn = true)
    (d f : Nat) (vals : List Val) (σ : Store) (r : Val × List Val × Store) (h : Ir.phi P prog fuel d f vals σ = some r) :
    r.2.2 x = σ x :=
  phi_frame P prog fuel x hfree d f vals σ r h

/-- …and the signatures a C++ front end reads off the emitted definitions are the typed ones followed by references to
the statics -/
theorem gen_sem_signatures {cx : Ctx} {L : Msl.Layout} {prog : List Ir.Func} {mprog : List MslAst.Func}
    {rsv : Nat → List Var} {xo : Nat → Var} {vis0 : Nat → Var → Bool}
    (hP : ProgOK cx L prog mprog rsv xo vis0) (f : Nat) (rt : Ty) (ps : List (Dir × Ty)) (gs : List Nat)
    (hsig : Ir.sigOf prog f = some (rt, ps)) (hreq : cx.req f = some gs) :
    Msl.sigOf L mprog f false = some (rt, mParams ps ++ globParams cx gs) :=
  msig_false hP hsig hreq


/-! ## where the full statement fails: negations with concrete witnesses (both replayed on the real exporter) -/

def P1 : Prim where
  fbin _ x _ := x
  fcmp _ _ _ := false
  fneg x := x
  fstep _ x := x
  idiv s x y := if s then x.sdiv y else x / y
  imod s x y := if s then x.srem y else x % y
  i2f x := x
  u2f x := x
  f2i x := x
  f2u x := x
  f2b _ := false
  d2f _ := 0
  intr _ _ _ := none

def cxW : Ctx where
  locName n := String.ofList (List.replicate (n + 1) 'l')
  globName n := String.ofList ('g' :: List.replicate n 'g')
  funcName n := String.ofList ('Z' :: List.replicate n 'Z')
  vty _ := .int
  retTy _ := some .int
  req _ := some []
  called _ := true

def envW : Ast.Env where
  res s := match s.toList with
    | 'l' :: r => some (.loc r.length)
    | 'g' :: r => some (.glob r.length)
    | _ => none
  vty _ := .int
  fres s := match s.toList with
    | 'Z' :: r => some r.length
    | _ => none

def W1 : World := { P := P1, phi := fun _ _ _ => none, sig := fun _ => none }
def M1 : Msl.MWorld := { P := P1, mphi := fun _ _ _ _ => none, msig := fun _ _ => none }

/-- `(x + -2147483648) / 2` -/
def eMin : Ir.Expr :=
  .op .Divide (.cons (.op .Add (.cons (.var 0) (.cons (.lit (.int32 (BitVec.intMin 32))) .nil))) (.cons (.lit (.int32 2)) .nil))

def σm : Store := fun _ => .i (-1)

/-- **negation witness 1** (known finding *metal-integer-literal-typing*): the typed constant `Int32(i32::MIN)` is printed
`-2147483648`; in Metal `2147483648` does not fit `int`, so the literal — and with it the sum and the quotient — is a 64-bit
`long`.  For `x = -1` the IR computes `(-1 + INT_MIN)` with 32-bit wrap-around (`INT_MAX`) and `/ 2` gives `0x3FFFFFFF`; the
emitted Metal computes `-2147483649 / 2 = -1073741824` in 64 bits and converts to `int`: `0xC0000000`.  So meaning
preservation is **false** outside the side condition "`Int32(i32::MIN)` is not an operand of an operator" of `Ir.okM`.
Replayed on the real exporter: corpus/C02.txt `int f3(int x) { return (x + -2147483648) / 2; }`, `x = -1`. -/
theorem int_min_literal_changes_meaning :
    ∃ a, genExpr cxW eMin = .ok a ∧ Ir.typeOf W1.sig cxW.vty eMin = some .int ∧
      Msl.typeOf M1.msig envW a = some .lit ∧
      (Ir.eval W1 eMin σm).map (·.1) = some (.i 0x3FFFFFFF#32) ∧
      (Msl.convR P1 .lit .int (Msl.eval M1 envW a σm)).map (·.1) = some (.i 0xC0000000#32) := by
  refine ⟨.bin .Divide (.bin .Add (.ident "l") (.un .Minus (.lit (.intUntyped 2147483648)))) (.lit (.intUntyped 2)), rfl, ?_, ?_, ?_, ?_⟩ <;> decide

/-- `(int)((2147483647 + 1000000) / 7)`, as the type checker leaves it: arithmetic on `IntLiteral`s, then a cast -/
def eLit : Ir.Expr :=
  .cast .int (.op .Divide (.cons (.op .Add (.cons (.lit (.intLit 2147483647)) (.cons (.lit (.intLit 1000000)) .nil)))
    (.cons (.lit (.intLit 7)) .nil)))

/-- **negation witness 1b** (same finding): RSSL computes on `IntLiteral`s exactly (`2148483647 / 7 = 306926235`); the
emitted `(int)((2147483647 + 1000000) / 7)` is `int` arithmetic in Metal: the sum wraps and the quotient is `-306640521`. -/
theorem literal_arithmetic_changes_meaning :
    ∃ a, genExpr cxW eLit = .ok a ∧
      (Ir.eval W1 eLit σm).map (·.1) = some (.i (BitVec.ofInt 32 306926235)) ∧
      (Msl.eval M1 envW a σm).map (·.1) = some (.i (BitVec.ofInt 32 (-306640521))) := by
  refine ⟨.cast "int" (.bin .Divide (.bin .Add (.lit (.intUntyped 2147483647)) (.lit (.intUntyped 1000000))) (.lit (.intUntyped 7))), rfl, ?_, ?_⟩ <;> decide

/-- `int g(inout int p, int q) { return p + q; }` as the typed world sees it -/
def W2 : World where
  P := P1
  sig f := if f = 0 then some (.int, [(.inout, .int), (.in_, .int)]) else none
  phi f vals σ :=
    if f = 0 then
      match vals with
      | [.i a, .i b] => some (.i (a + b), [.i a, .i b], σ)
      | _ => none
    else none

/-- the Metal world the program theorem provides for it: the call through a reference is copy-in at the moment of the call,
the typed function, copy-out -/
def M2 : Msl.MWorld where
  P := P1
  msig f t := if f = 0 ∧ t = false then some (.int, [(.ref, .int), (.val, .int)]) else none
  mphi f t margs σ :=
    if f = 0 ∧ t = false then
      match margs with
      | [.ref x, .val q] =>
        match W2.phi 0 [σ x, q] σ with
        | none => none
        | some (ret, finals, σ2) => some (ret, writeBack [some x, none] finals σ2)
      | _ => none
    else none

theorem worlds2 : Worlds cxW (fun _ => []) W2 M2 where
  prim := rfl
  ret := by intro f rt ps h; simp [W2] at h; simp [cxW, h.2.1.symm]
  sig := by
    intro f rt ps gs h hr _
    simp only [W2] at h
    split at h
    · rename_i hf; subst hf
      simp at h; obtain ⟨rfl, rfl⟩ := h
      simp [cxW] at hr; subst hr
      simp [M2, mParams, globParams, pkOf]
    · simp at h
  call := by
    intro f rt ps gs l σ h hr _ hfit _
    simp only [W2] at h
    split at h
    · rename_i hf; subst hf
      simp at h; obtain ⟨rfl, rfl⟩ := h
      simp [cxW] at hr; subst hr
      match l, hfit with
      | [(v1, some x), (v2, none)], _ =>
        simp only [M2, toMArg, globMArgs, valAt, List.map, List.append_nil, and_self, if_true]
        cases W2.phi 0 [σ x, v2] σ <;> rfl
      | [], hfit => simp [fitsB] at hfit
      | [_], hfit => simp [fitsB] at hfit
      | (_, none) :: _ :: _, hfit => simp [fitsB] at hfit
      | [(_, some _), (_, some _)], hfit => simp [fitsB] at hfit
      | _ :: _ :: _ :: _, hfit => simp [fitsB] at hfit
    · simp at h

/-- `g(x, x++)` -/
def eOrd : Ir.Expr := .call 0 (.cons (.var 0) (.cons (.op .PostfixIncrement (.cons (.var 0) .nil)) .nil))
def σ5 : Store := fun _ => .i 5

/-- **negation witness 2** (known finding *inout-copy-in-after-later-arguments*): with the two worlds linked exactly as
`gen_sem_program_partial` links them (`worlds2 : Worlds …`), the call `g(x, x++)` — `x` passed to an `inout` parameter and
modified by a later argument — evaluates to `10` in the typed semantics (the value of `x` is copied in when the first
argument is reached: `5 + 5`) and to `11` in the emitted Metal (the reference is bound, `x++` runs, the trampoline copies
`x` in afterwards: `6 + 5`).  So `gen_sem_expr` is **false** without the side condition "the `in` arguments after an
out/inout argument have no side effects" (`Ir.refArgsOK`).  Replayed on the real exporter: corpus/C02.txt
`int g(inout int p, int q) { return p + q; } int f(int x) { return g(x, x++); }`, `x = 5`. -/
theorem inout_copy_in_order_changes_meaning :
    ∃ a, genExpr cxW eOrd = .ok a ∧ Worlds cxW (fun _ => []) W2 M2 ∧
      Ir.typeOf W2.sig cxW.vty eOrd = some .int ∧
      (Ir.eval W2 eOrd σ5).map (·.1) = some (.i 10) ∧ (Msl.eval M2 envW a σ5).map (·.1) = some (.i 11) := by
  refine ⟨.call "Z" (.cons (.ident "l") (.cons (.un .PostfixIncrement (.ident "l")) .nil)), rfl, worlds2, ?_, ?_, ?_⟩ <;> decide

/-! ## non-vacuity -/

theorem agreeW : AgreeM cxW (fun _ => true) envW where
  res x _ := by cases x <;> simp [Ctx.name, cxW, envW, List.replicate_succ]
  vty := rfl
  fres f := by simp [cxW, envW]
  notLib f := by
    constructor <;> (intro h; have := congrArg String.toList h; simp [cxW, Msl.fmodName, Msl.tagName] at this)

/-- `int f(inout int p2) { for (int v1 = 0; v1 < 3; ++v1) { p2 += 1; g0 = g0 % 5 + v1; } g(p2, 7); return p2 - -5; }` -/
def fExM : Ir.Func where
  id := 7
  ret := .int
  params := [(2, .inout, .int)]
  body :=
    .cons (.for (.defs [(1, some (.lit (.int32 0)))])
        (some (.op .LessThan (.cons (.var 1) (.cons (.lit (.int32 3)) .nil))))
        (some (.op .PrefixIncrement (.cons (.var 1) .nil)))
        (.cons (.expr (.op .SumAssignment (.cons (.var 2) (.cons (.lit (.int32 1)) .nil))))
          (.cons (.expr (.op .Assignment (.cons (.global 0)
            (.cons (.op .Add (.cons (.op .Modulus (.cons (.global 0) (.cons (.lit (.int32 5)) .nil))) (.cons (.var 1) .nil))) .nil)))) .nil)))
      (.cons (.expr (.call 0 (.cons (.var 2) (.cons (.lit (.int32 7)) .nil))))
      (.cons (.ret (some (.op .Subtract (.cons (.var 2) (.cons (.lit (.int32 (-5))) .nil))))) .nil))

/-- the hypotheses of the statement theorems hold for it (a loop, an inout parameter, a static, a call with an inout
argument followed by a pure argument, a negative constant), the names agree, and the exporter produces the trampoline
target and the trampoline for it -/
example : Ir.wtStmtsM (side cxW W2 (fun _ => true) (fun _ => [])) fExM.ret none fExM.body = true := by decide
example : Lemmas.GenMsl.AgreeM cxW (fun _ => true) envW := agreeW
example : ∃ t1 t2, genFuncs cxW fExM = .ok [t1, t2] ∧ t1.isTarget = true ∧ t2.isTarget = false := ⟨_, _, rfl, rfl, rfl⟩
/-- …and the instance of `gen_sem_stmts` it yields, in the linked worlds of witness 2 -/
example (b' : HlslAst.Stmts) (h : genStmts cxW fExM.body = .ok b') (fuel : Nat) (σ : Store) :
    Msl.execs M2 envW .int fuel .run b' σ = Ir.execs W2 fuel .run fExM.body σ :=
  gen_sem_stmts agreeW worlds2 .int none fExM.body b' h (by decide) .run trivial fuel σ
/-- floating-point `%` becomes `metal::fmod`, and is covered -/
example : genExpr { cxW with vty := fun _ => .float } (.op .Modulus (.cons (.var 0) (.cons (.var 1) .nil))) =
    .ok (.call "metal::fmod" (.cons (.ident "l") (.cons (.ident "ll") .nil))) := by rfl

/-- **`x %= y` on floats** (fixes 92d66eb + 35faaaa; known finding *metal-remainder-operator-on-floats* before: the operator
was emitted although Metal has none — and the Metal reading `Spec.SemMsl` of this development was lenient about it, which it
no longer is): the exporter writes `x = metal::fmod(x, y)` when the target is a plain place and the right operand is free of
writes — the emitted form reads `x` BEFORE `y` is evaluated, `%=` after, so `x %= (x = y)` and `g %= h()` (a call may write
`g`) are refused with `ComplexRemainderAssignment` (35faaaa; the first version of the fix reordered them) —; `gen_sem_expr`
covers the emitted form with no side condition beyond the exporter's own guard (`Lemmas.GenMsl.sim_remAssignM`,
`freeOfWrites_pure`); on integers `%=` stays `%=`. -/
theorem float_remainder_assignment_exported :
    genExpr { cxW with vty := fun _ => .float } (.op .RemainderAssignment (.cons (.var 0) (.cons (.var 1) .nil))) =
      .ok (.bin .Assignment (.ident "l") (.call "metal::fmod" (.cons (.ident "l") (.cons (.ident "ll") .nil)))) ∧
    genExpr { cxW with vty := fun _ => .float } (.op .RemainderAssignment (.cons (.global 0)
      (.cons (.op .Add (.cons (.var 1) (.cons (.tern (.var 2) (.var 0) (.global 0)) .nil))) .nil))) =
      .ok (.bin .Assignment (.ident "g") (.call "metal::fmod" (.cons (.ident "g")
        (.cons (.bin .Add (.ident "ll") (.tern (.ident "lll") (.ident "l") (.ident "g"))) .nil)))) ∧
    genExpr { cxW with vty := fun _ => .float } (.op .RemainderAssignment (.cons (.var 0)
      (.cons (.op .Assignment (.cons (.var 0) (.cons (.var 1) .nil))) .nil))) = .error (.diag "ComplexRemainderAssignment") ∧
    genExpr { cxW with vty := fun _ => .float } (.op .RemainderAssignment (.cons (.global 0) (.cons (.call 1 .nil) .nil))) =
      .error (.diag "ComplexRemainderAssignment") ∧
    genExpr { cxW with vty := fun _ => .float } (.op .RemainderAssignment (.cons (.tern (.var 2) (.var 0) (.var 1)) (.cons (.var 1) .nil))) =
      .error (.diag "ComplexRemainderAssignment") ∧
    genExpr cxW (.op .RemainderAssignment (.cons (.var 0) (.cons (.call 1 .nil) .nil))) =
      .ok (.bin .RemainderAssignment (.ident "l") (.call "ZZ" .nil)) :=
  ⟨rfl, rfl, rfl, rfl, rfl, rfl⟩

/-! ### non-vacuity of `gen_sem_program`: the aliasing program of seeded mutant C02-2

`static int g0; void bump(inout int x) { x = x + 1; g0 = g0 + 10; } int f() { bump(g0); return g0; }` — every hypothesis
(`ProgOK` incl. layout and name conditions, `SynOK`, `OutOK`) is established for it, and the theorem is instantiated at the
call that passes the static both as the inout argument and as the threaded reference. -/

/-- `void bump(inout int x) { x = x + 1; g0 = g0 + 10; }` -/
def bumpFn : Ir.Func where
  id := 0
  ret := .void
  params := [(2, .inout, .int)]
  body :=
    .cons (.expr (.op .Assignment (.cons (.var 2) (.cons (.op .Add (.cons (.var 2) (.cons (.lit (.int32 1)) .nil))) .nil))))
    (.cons (.expr (.op .Assignment (.cons (.global 0) (.cons (.op .Add (.cons (.global 0) (.cons (.lit (.int32 10)) .nil))) .nil)))) .nil)

/-- `int f() { bump(g0); return g0; }` -/
def callerFn : Ir.Func where
  id := 1
  ret := .int
  params := []
  body := .cons (.expr (.call 0 (.cons (.global 0) .nil))) (.cons (.ret (some (.global 0))) .nil)

def progP : List Ir.Func := [bumpFn, callerFn]

def xoP : Var := .loc 1000

def cxP : Ctx :=
  { cxW with
    vty := fun x => if x = xoP then .void else .int
    retTy := fun f => if f = 0 then some .void else some .int
    req := fun _ => some [0]
    called := fun f => f == 0 }

def mprogP : List MslAst.Func := match genProg cxP progP with | .ok m => m | .error _ => []

theorem genP : genProg cxP progP = .ok mprogP := by rfl

/-- the emitted module: the trampoline target of `bump`, its trampoline, `f` -/
example : mprogP.map (fun m => (m.name, m.params.length, m.isTarget)) = [("Z", 3, true), ("Z", 2, false), ("ZZ", 1, false)] := by decide

def frameP (s : String) : Option Var :=
  match s.toList with
  | 'l' :: r => some (.loc r.length)
  | '_' :: '_' :: 'l' :: r => some (.loc r.length)
  | ['o', 'u', 't'] => some xoP
  | _ => none

def LP : Msl.Layout where
  frame _ s := frameP s
  vty := cxP.vty
  fres s := match s.toList with
    | 'Z' :: r => some r.length
    | _ => none
  scratch fname := if fname = "Z" then [xoP] else []

def vis0P : Nat → Var → Bool := fun _ x => match x with | .loc n => decide (n < 100) | .glob _ => false
def rsvP : Nat → List Var := fun f => if f = 0 then [xoP, .loc 2] else []

theorem locName_inj (a b : Nat) (h : cxP.locName a = cxP.locName b) : a = b := by
  have := congrArg String.toList h
  simp [cxP, cxW] at this
  exact this

theorem globName_inj (a b : Nat) (h : cxP.globName a = cxP.globName b) : a = b := by
  have := congrArg String.toList h
  simp [cxP, cxW] at this
  exact this

theorem name_inj (x y : Var) (h : cxP.name x = cxP.name y) : x = y := by
  cases x with
  | loc a =>
    cases y with
    | loc b => rw [locName_inj a b (by simpa [Ctx.name] using h)]
    | glob b =>
      have := congrArg String.toList h
      simp [Ctx.name, cxP, cxW, List.replicate_succ] at this
  | glob a =>
    cases y with
    | glob b => rw [globName_inj a b (by simpa [Ctx.name] using h)]
    | loc b =>
      have := congrArg String.toList h
      simp [Ctx.name, cxP, cxW, List.replicate_succ] at this

theorem resP (f : Nat) : Res cxP (vis0P f) frameP := by
  intro x hx
  cases x with
  | loc n => simp [Ctx.name, cxP, cxW, frameP, List.replicate_succ]
  | glob n => simp [vis0P] at hx

theorem fresP (f : Nat) : LP.fres (cxP.funcName f) = some f := by simp [LP, cxP, cxW]

theorem notLibP (f : Nat) : cxP.funcName f ≠ Msl.fmodName ∧ cxP.funcName f ≠ Msl.tagName := by
  constructor <;> (intro h; have := congrArg String.toList h; simp [cxP, cxW, Msl.fmodName, Msl.tagName] at this)

theorem agreeLP (fn : Ir.Func) (hp : ∀ p ∈ fn.params, p.1 < 100) : AgreeL cxP LP fn (vis0P fn.id) where
  vty := rfl
  fres := fresP
  notLib := notLibP
  frame := resP fn.id
  params := fun p hp' => by simp [vis0P, hp p hp']

theorem funcOK_bump : FuncOK cxP LP progP rsvP (fun _ => xoP) vis0P bumpFn [0] where
  req := rfl
  ret := rfl
  layout := agreeLP bumpFn (by decide)
  inj := fun x y _ _ h => name_inj x y h
  ids := by decide
  wt := by decide
  tyP := by decide
  scratch := by decide
  tramp := fun _ => ⟨
    { vty := rfl
      fres := fresP 0
      notFmod := (notLibP 0).1
      slotP := by decide
      slotT := by decide
      slotO := by decide
      scratch := by decide
      tyO := by decide
      xoFresh := by decide
      ids := by decide
      names := by decide
      namesT := by decide
      namesO := by decide
      namesG := by decide }, by decide⟩

theorem funcOK_caller : FuncOK cxP LP progP rsvP (fun _ => xoP) vis0P callerFn [0] where
  req := rfl
  ret := rfl
  layout := agreeLP callerFn (by decide)
  inj := fun x y _ _ h => name_inj x y h
  ids := by decide
  wt := by decide
  tyP := by decide
  scratch := by decide
  tramp := fun h => by simp [needsTrampoline, hasOut, callerFn] at h

theorem progOKP : ProgOK cxP LP progP mprogP rsvP (fun _ => xoP) vis0P where
  gen := genP
  ids := by decide
  fres := fresP
  funcs := by
    intro fn hfn
    simp only [progP, List.mem_cons, List.not_mem_nil, or_false] at hfn
    rcases hfn with rfl | rfl
    · exact ⟨[0], funcOK_bump⟩
    · exact ⟨[0], funcOK_caller⟩

theorem synOKP : SynOK cxP progP (fun _ => xoP) where
  scratchFree := by decide
  voidNoRet := by decide

theorem offOut_noOut : ∀ (ps : Params) (vs ws : List Val), (ps.all fun p => decide (p.2.1 ≠ .out)) = true → offOut ps vs ws → vs = ws
  | [], [], [], _, _ => rfl
  | [], [], _ :: _, _, h => by simp [offOut] at h
  | [], _ :: _, _, _, h => by simp [offOut] at h
  | _ :: _, [], _, _, h => by simp [offOut] at h
  | _ :: _, _ :: _, [], _, h => by simp [offOut] at h
  | (pid, d, T) :: ps, v :: vs, w :: ws, hall, h => by
    simp only [List.all_cons, Bool.and_eq_true, decide_eq_true_eq] at hall
    simp only [offOut] at h
    rw [h.1 hall.1, offOut_noOut ps vs ws hall.2 h.2]

theorem outOKP (P : Prim) (fuel : Nat) : OutOK cxP P progP fuel := by
  intro d fn hfn hn vals vals' σ hoff
  simp only [progP, List.mem_cons, List.not_mem_nil, or_false] at hfn
  rcases hfn with rfl | rfl
  · rw [offOut_noOut bumpFn.params vals vals' (by decide) hoff]
  · simp [needsTrampoline, hasOut, callerFn] at hn

/-- the aliasing call `bump(g0)` of the emitted program: the static is passed as the inout argument *and* as the threaded
reference; the Metal call is the typed copy-in/copy-out call -/
example (P : Prim) (fuel d : Nat) (v : Val) (σ : Store) :
    Msl.phi P LP mprogP fuel d 0 false [Msl.MArg.ref (.glob 0), Msl.MArg.ref (.glob 0)] σ =
      match Ir.phi P progP fuel d 0 [σ (.glob 0)] σ with
      | none => none
      | some (ret, finals, σ2) => some (ret, writeBack [some (.glob 0)] finals σ2) :=
  gen_sem_program progOKP synOKP (outOKP P fuel) d 0 .void [(.inout, .int)] [0] [(v, some (.glob 0))] σ rfl rfl rfl (by simp [fitsB, cxP, xoP])
    (by intro p hp x hx; simp at hp; subst hp; simp at hx; subst hx; decide)

end RsslVerif.Thm.C02Sem

import RsslVerif.Lemmas.MacroTerm
/-!
`find_single_macro` contains a `continue` that does not advance its index (a `Concat` token left of `next_pos`): the
model reports it as `Err.hang`.  It cannot happen: no `Concat` token is ever left of `next_pos`, and what the loop
returns contains no `Concat` token at all.
-/
namespace RsslVerif.Lemmas.MacroHang
open RsslVerif.Model.Macro RsslVerif.Lemmas.MacroTerm

def NoConcat (ts : List PTok) : Prop := ∀ t ∈ ts, t.tok ≠ .concat

theorem noConcat_append {a b : List PTok} : NoConcat (a ++ b) ↔ NoConcat a ∧ NoConcat b := by
  unfold NoConcat
  constructor
  · intro h; exact ⟨fun t ht => h t (by simp [ht]), fun t ht => h t (by simp [ht])⟩
  · rintro ⟨ha, hb⟩ t ht
    rcases List.mem_append.mp ht with h | h
    · exact ha t h
    · exact hb t h

theorem noConcat_take_le {ts : List PTok} {a b : Nat} (hab : a ≤ b) (h : NoConcat (ts.take b)) :
    NoConcat (ts.take a) := by
  intro t ht
  apply h t
  have : (ts.take a).Sublist (ts.take b) := by
    have : ts.take a = (ts.take b).take a := by rw [List.take_take]; congr 1; omega
    rw [this]; exact List.take_sublist _ _
  exact this.subset ht

/-- what a scan that starts at index `i` tells about `Concat` tokens -/
theorem scanFrom_noConcat (toks : List PTok) (sp : SearchPos) (env : List Entry) (suffix : List PTok) (i : Nat)
    (hs : suffix = toks.drop i) :
    (scanFrom toks sp env suffix i = .ok .none → NoConcat suffix) ∧
    (∀ mi p, scanFrom toks sp env suffix i = .ok (.user mi p) → i ≤ p ∧ NoConcat (suffix.take (p - i))) ∧
    (∀ l r, scanFrom toks sp env suffix i = .ok (.concat l r) →
      ∃ c, i ≤ c ∧ l < c ∧ NoConcat (suffix.take (c - i))) ∧
    (scanFrom toks sp env suffix i = .error .hang →
      ∃ c, i ≤ c ∧ c < sp.next ∧ ∃ t, toks[c]? = some t ∧ t.tok = .concat) := by
  induction suffix generalizing i with
  | nil =>
    refine ⟨fun _ t ht => (by cases ht), ?_, ?_, ?_⟩ <;> simp [scanFrom]
  | cons t rest ih =>
    obtain ⟨hlen, hrest, hrl⟩ := suffix_facts toks i t rest hs
    obtain ⟨ih1, ih2, ih3, ih4⟩ := ih (i + 1) hrest
    have hti : toks[i]? = some t := by
      have := congrArg List.head? hs
      simp only [List.head?_cons, List.head?_drop] at this
      exact this.symm
    -- the step over a token that is not `Concat`
    have stepNo : t.tok ≠ .concat → ∀ (k : Nat), NoConcat (rest.take k) → NoConcat ((t :: rest).take (k + 1)) := by
      intro hne k hk x hx
      simp only [List.take_succ_cons, List.mem_cons] at hx
      rcases hx with rfl | hx
      · exact hne
      · exact hk x hx
    cases htk : t.tok with
    | id name =>
      have hne : t.tok ≠ .concat := by rw [htk]; simp
      cases hm : matchMacro toks i name sp 0 env with
      | some mi' =>
        have hsc : scanFrom toks sp env (t :: rest) i = .ok (.user mi' i) := by simp [scanFrom, htk, hm]
        refine ⟨by rw [hsc]; simp, ?_, by rw [hsc]; simp, by rw [hsc]; simp⟩
        intro mi p h
        rw [hsc] at h
        have : i = p := by simpa using (by simpa using h : mi' = mi ∧ i = p).2
        subst this
        exact ⟨Nat.le_refl _, by simp [NoConcat]⟩
      | none =>
        have hsc : scanFrom toks sp env (t :: rest) i = scanFrom toks sp env rest (i + 1) := by
          simp [scanFrom, htk, hm]
        rw [hsc]
        refine ⟨?_, ?_, ?_, ?_⟩
        · intro h x hx
          rcases List.mem_cons.mp hx with rfl | hx
          · exact hne
          · exact ih1 h x hx
        · intro mi p h
          obtain ⟨hle, hnc⟩ := ih2 mi p h
          refine ⟨by omega, ?_⟩
          have : p - i = (p - (i + 1)) + 1 := by omega
          rw [this]; exact stepNo hne _ hnc
        · intro l r h
          obtain ⟨c, hle, hl, hnc⟩ := ih3 l r h
          refine ⟨c, by omega, hl, ?_⟩
          have : c - i = (c - (i + 1)) + 1 := by omega
          rw [this]; exact stepNo hne _ hnc
        · intro h
          obtain ⟨c, hle, hc⟩ := ih4 h
          exact ⟨c, by omega, hc⟩
    | concat =>
      by_cases hnext : i < sp.next
      · have hsc : scanFrom toks sp env (t :: rest) i = .error .hang := by simp [scanFrom, htk, hnext]
        refine ⟨by rw [hsc]; simp, by rw [hsc]; simp, by rw [hsc]; simp, ?_⟩
        intro _
        exact ⟨i, Nat.le_refl _, hnext, t, hti, htk⟩
      · refine ⟨?_, ?_, ?_, ?_⟩
        · intro h
          simp only [scanFrom, htk, hnext, if_false] at h
          split at h
          · cases h
          · split at h <;> cases h
        · intro mi p h
          simp only [scanFrom, htk, hnext, if_false] at h
          split at h
          · cases h
          · split at h <;> cases h
        · intro l r h
          simp only [scanFrom, htk, hnext, if_false] at h
          split at h
          · cases h
          · rename_i l' hl'
            split at h
            · cases h
            · rename_i r' hr'
              have h12 : l' = l ∧ r' = r := by simpa using h
              obtain ⟨rfl, rfl⟩ := h12
              refine ⟨i, Nat.le_refl _, ?_, by simp [NoConcat]⟩
              -- the left operand is an index into `toks.take i`
              have : ∀ (ts : List PTok) (k : Nat) (acc : Option Nat) (res : Nat),
                  lastNonWs ts k acc = some res → (acc = some res ∨ (k ≤ res ∧ res < k + ts.length)) := by
                intro ts
                induction ts with
                | nil => intro k acc res h; simp [lastNonWs] at h; exact Or.inl h
                | cons x xs ihx =>
                  intro k acc res h
                  simp only [lastNonWs] at h
                  rcases ihx (k + 1) _ res h with h1 | h1
                  · split at h1
                    · exact Or.inl h1
                    · right; simp only [Option.some.injEq] at h1; subst h1; simp
                  · right; simp only [List.length_cons]; omega
              rcases this (toks.take i) 0 none l' hl' with h1 | h1
              · cases h1
              · have := h1.2
                simp only [List.length_take, Nat.zero_add] at this
                omega
        · intro h
          simp only [scanFrom, htk, hnext, if_false] at h
          split at h
          · cases h
          · split at h <;> cases h
    | _ =>
      have hne : t.tok ≠ .concat := by rw [htk]; simp
      have hsc : scanFrom toks sp env (t :: rest) i = scanFrom toks sp env rest (i + 1) := by
        simp [scanFrom, htk]
      rw [hsc]
      refine ⟨?_, ?_, ?_, ?_⟩
      · intro h x hx
        rcases List.mem_cons.mp hx with rfl | hx
        · exact hne
        · exact ih1 h x hx
      · intro mi p h
        obtain ⟨hle, hnc⟩ := ih2 mi p h
        refine ⟨by omega, ?_⟩
        have : p - i = (p - (i + 1)) + 1 := by omega
        rw [this]; exact stepNo hne _ hnc
      · intro l r h
        obtain ⟨c, hle, hl, hnc⟩ := ih3 l r h
        refine ⟨c, by omega, hl, ?_⟩
        have : c - i = (c - (i + 1)) + 1 := by omega
        rw [this]; exact stepNo hne _ hnc
      · intro h
        obtain ⟨c, hle, hc⟩ := ih4 h
        exact ⟨c, by omega, hc⟩

theorem noConcat_nil : NoConcat [] := fun _ h => by cases h

theorem take_split (toks : List PTok) {a b : Nat} (hab : a ≤ b) :
    toks.take b = toks.take a ++ (toks.drop a).take (b - a) := by
  have : b = a + (b - a) := by omega
  conv => lhs; rw [this]
  exact List.take_add

theorem findSingle_noConcat (toks : List PTok) (sp : SearchPos) (env : List Entry)
    (hnc : NoConcat (toks.take sp.next)) :
    (findSingle toks sp env = .ok .none → NoConcat toks) ∧
    (∀ mi p, findSingle toks sp env = .ok (.user mi p) → NoConcat (toks.take p)) ∧
    (∀ l r, findSingle toks sp env = .ok (.concat l r) → NoConcat (toks.take l)) ∧
    findSingle toks sp env ≠ .error .hang := by
  unfold findSingle
  split
  · rename_i he
    obtain ⟨h1, h2, h3, h4⟩ := scanFrom_noConcat toks sp env (toks.drop sp.early) sp.early rfl
    have hearly : NoConcat (toks.take sp.early) := noConcat_take_le he hnc
    refine ⟨?_, ?_, ?_, ?_⟩
    · intro h
      have := h1 h
      rw [← List.take_append_drop sp.early toks]
      exact noConcat_append.mpr ⟨hearly, this⟩
    · intro mi p h
      obtain ⟨hle, hn⟩ := h2 mi p h
      rw [take_split toks hle]
      exact noConcat_append.mpr ⟨hearly, hn⟩
    · intro l r h
      obtain ⟨c, hle, hl, hn⟩ := h3 l r h
      have : NoConcat (toks.take c) := by
        rw [take_split toks hle]
        exact noConcat_append.mpr ⟨hearly, hn⟩
      exact noConcat_take_le (Nat.le_of_lt hl) this
    · intro h
      obtain ⟨c, _, hc, t, hget, htk⟩ := h4 h
      have hmem : t ∈ toks.take sp.next := by
        apply List.mem_of_getElem? (i := c)
        rw [List.getElem?_take]
        simp [hc, hget]
      exact hnc t hmem htk
  · simp

theorem pasteTokens_not_hang (l r : PTok) : pasteTokens l r ≠ .error .hang := by
  unfold pasteTokens
  split
  · simp
  · split
    · split <;> simp
    · split <;> simp
    · split
      · simp
      · split <;> simp
    · split <;> simp
    · split <;> simp

theorem pasteTokens_noConcat (l r m : PTok) (h : pasteTokens l r = .ok m) : m.tok ≠ .concat := by
  unfold pasteTokens at h
  split at h
  · cases h
  · split at h
    · split at h
      · cases h
      · cases h; simp
    · split at h
      · cases h
      · cases h; simp
    · split at h
      · cases h
      · split at h
        · cases h
        · cases h; simp
    · split at h
      · cases h; simp
      · cases h
    · split at h <;> cases h

theorem scanArgs_not_hang (ts cur : List PTok) (args : List (List PTok)) (depth : Nat) :
    scanArgs ts cur args depth ≠ .error .hang := by
  induction ts generalizing cur args depth with
  | nil => simp [scanArgs]
  | cons t ts ih =>
    unfold scanArgs
    split
    · split <;> exact ih _ _ _
    · exact ih _ _ _
    · split
      · simp
      · exact ih _ _ _
    · exact ih _ _ _

theorem readArgs_not_hang (m : Macro) (remaining : List PTok) : readArgs m remaining ≠ .error .hang := by
  intro h
  rcases RsslVerif.Lemmas.MacroTerm.readArgs_error m remaining _ h with h1 | hs
  · cases h1
  · unfold splitArgs at hs
    split at hs
    · exact scanArgs_not_hang _ _ _ _ hs
    · cases hs

theorem substitute_not_hang (body : List PTok) (args : List (List PTok)) :
    substitute body args ≠ .error .hang := by
  induction body with
  | nil => simp [substitute]
  | cons t ts ih =>
    unfold substitute
    split
    · split
      · simp
      · cases hs : substitute ts args with
        | ok r => simp
        | error e => simp only; intro h; cases h; exact ih hs
    · cases hs : substitute ts args with
      | ok r => simp
      | error e => simp only; intro h; cases h; exact ih hs

theorem mapE_ok_mem {α β : Type} (f : α → Except Err β) (l : List α) (r : List β) (h : mapE f l = .ok r) :
    ∀ b ∈ r, ∃ a ∈ l, f a = .ok b := by
  induction l generalizing r with
  | nil => simp only [mapE] at h; cases h; intro b hb; cases hb
  | cons a as ih =>
    unfold mapE at h
    split at h
    · cases h
    · rename_i b0 hb0
      split at h
      · cases h
      · rename_i bs hbs
        cases h
        intro b hb
        rcases List.mem_cons.mp hb with rfl | hb
        · exact ⟨a, by simp, hb0⟩
        · obtain ⟨x, hx, hfx⟩ := ih bs hbs b hb
          exact ⟨x, by simp [hx], hfx⟩

theorem substitute_noConcat (body : List PTok) (args : List (List PTok)) (out : List PTok)
    (ha : ∀ a ∈ args, NoConcat a) (h : substitute body args = .ok out) :
    ∀ t ∈ out, t.tok = .concat → t ∈ body := by
  induction body generalizing out with
  | nil => simp only [substitute] at h; cases h; intro t ht; cases ht
  | cons x xs ih =>
    unfold substitute at h
    split at h
    · split at h
      · cases h
      · rename_i a hget
        cases hs : substitute xs args with
        | error e => simp [hs] at h
        | ok r =>
          simp only [hs] at h
          cases h
          intro t ht htk
          rcases List.mem_append.mp ht with h1 | h1
          · exact absurd htk (ha a (List.mem_of_getElem? hget) t h1)
          · exact List.mem_cons_of_mem _ (ih r hs t h1 htk)
    · cases hs : substitute xs args with
      | error e => simp [hs] at h
      | ok r =>
        simp only [hs] at h
        cases h
        intro t ht htk
        rcases List.mem_cons.mp ht with rfl | h1
        · simp
        · exact List.mem_cons_of_mem _ (ih r hs t h1 htk)

/-- `find_single_macro` never spins, and what the loop returns has no `Concat` token -/
theorem applyLoop_hang_free (env : List Entry) (toks : List PTok) (sp : SearchPos) :
    NoConcat (toks.take sp.next) →
      applyLoop env toks sp ≠ .error .hang ∧ ∀ out, applyLoop env toks sp = .ok out → NoConcat out := by
  fun_induction applyLoop env toks sp with
  | case1 env toks sp hlt e hf =>
    intro hnc
    refine ⟨?_, fun out h => by cases h⟩
    intro h; cases h
    exact (findSingle_noConcat toks sp env hnc).2.2.2 hf
  | case2 env toks sp hlt hf =>
    intro hnc
    refine ⟨by simp, fun out h => ?_⟩
    cases h
    exact (findSingle_noConcat toks sp env hnc).1 hf
  | case3 env toks sp hlt l r hf lt rt hr hl hlr e hp =>
    intro hnc
    refine ⟨?_, fun out h => by cases h⟩
    intro h; cases h; exact pasteTokens_not_hang _ _ hp
  | case4 env toks sp hlt l r hf lt rt hr hl hlr merged hp hg ih =>
    intro hnc
    apply ih
    have hl' : l ≤ toks.length := by omega
    have : (splice toks l (r + 1) [merged]).take l = toks.take l := by
      unfold splice
      rw [List.append_assoc, List.take_left' (by simp [List.length_take]; omega)]
    simp only [this]
    exact (findSingle_noConcat toks sp env hnc).2.2.1 l r hf
  | case5 => intro _; simp
  | case6 => intro _; simp
  | case7 => intro _; simp
  | case8 => intro _; simp
  | case9 env toks sp hlt mi p hf e hmi er hra =>
    intro hnc
    refine ⟨?_, fun out h => by cases h⟩
    intro h; cases h; exact readArgs_not_hang _ _ hra
  | case10 env toks sp hlt mi p hf e hmi rest args hra er hm ih =>
    intro hnc
    refine ⟨?_, fun out h => by cases h⟩
    intro h; cases h
    obtain ⟨a, ha, hfa⟩ := mapE_error _ _ _ hm
    split at hfa
    · rename_i hlen
      exact (ih a hlen (by simpa [SearchPos.start] using noConcat_nil)).1 hfa
    · cases hfa
  | case11 env toks sp hlt mi p hf e hmi rest args hra args' hm er hsub ih =>
    intro hnc
    refine ⟨?_, fun out h => by cases h⟩
    intro h; cases h; exact substitute_not_hang _ _ hsub
  | case12 env toks sp hlt mi p hf e hmi rest args hra args' hm output hsub hd er hbody ih1 ih2 =>
    intro hnc
    refine ⟨?_, fun out h => by cases h⟩
    intro h; cases h
    exact (ih2 (by simpa [SearchPos.start] using noConcat_nil)).1 hbody
  | case13 env toks sp hlt mi p hf e hmi rest args hra end_ args' hm output hsub hd output' hbody hp hg ih1 ih2 ih3 =>
    intro hnc
    apply ih3
    have hout : NoConcat output' := (ih2 (by simpa [SearchPos.start] using noConcat_nil)).2 output' hbody
    have hp' : p ≤ toks.length := by
      have : end_ ≤ toks.length := Nat.sub_le _ _
      omega
    have : (splice toks p end_ output').take (p + output'.length) = toks.take p ++ output' := by
      unfold splice
      rw [List.take_left' (by simp [List.length_take]; omega)]
    simp only [this]
    exact noConcat_append.mpr ⟨(findSingle_noConcat toks sp env hnc).2.1 mi p hf, hout⟩
  | case14 => intro _; simp
  | case15 => intro _; simp
  | case16 => intro _; simp
  | case17 env toks sp hlt =>
    intro hnc
    refine ⟨by simp, fun out h => ?_⟩
    cases h
    have : toks.take sp.next = toks := List.take_of_length_le (by omega)
    rw [this] at hnc
    exact hnc

end RsslVerif.Lemmas.MacroHang

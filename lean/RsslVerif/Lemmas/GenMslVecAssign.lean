import RsslVerif.Lemmas.GenMslVecMain
/-! Vector layer of C02: statement-level assignment / compound assignment to a vector variable or a swizzle of one. -/
namespace RsslVerif.Lemmas.GenMslVec
open RsslVerif.Gen.HlslGenTables RsslVerif.Gen.HlslVecTables RsslVerif.Gen.MslGenTables RsslVerif.Gen.MslVecTables
open RsslVerif.Model RsslVerif.Model.IrVec RsslVerif.Model.GenMsl RsslVerif.Model.GenMslVec
open RsslVerif.Spec.Sem RsslVerif.Spec.SemVec RsslVerif.Spec.SemMslVec RsslVerif.Lemmas.GenMsl
open RsslVerif.Model.Ir (Ty Var Const Dir)

set_option linter.unusedSimpArgs false

variable {W : World} {M : Msl.MWorld} {env : VAst.VEnv} {cx : Ctx} {vvty : Var → VTy} {vis : Var → Bool} {rsv : Nat → List Var}

abbrev placeOKM := VOk.placeOKM

/-- the emitted assignment target denotes the variable and components of the IR's place -/
theorem lval_genMV (hag : VAgreeM cx vis env vvty) {lhs : VExpr} {lhs' : VAExpr} {x : Var} {sl : Option (List SwizzleSlot)}
    (hp : VIr.placeOf lhs = some (x, sl)) (hpl : placeOKM vis vvty lhs = true) (hg : genMV cx vvty lhs = .ok lhs') :
    VAst.lvalOfV env lhs' = some (x, sl.map (·.map slotIdx)) ∧ VMsl.nodupIdx (sl.map (·.map slotIdx)) = true := by
  cases lhs with
  | vvar id =>
    simp [VIr.placeOf] at hp; obtain ⟨rfl, rfl⟩ := hp
    simp [genMV] at hg; subst hg
    have hr := hag.vres (.loc id) (by simpa [placeOKM, VOk.placeOKM] using hpl); simp only [Ctx.name] at hr
    simp [VAst.lvalOfV, hr, VMsl.nodupIdx]
  | vglobal id =>
    simp [VIr.placeOf] at hp; obtain ⟨rfl, rfl⟩ := hp
    simp [genMV] at hg; subst hg
    have hr := hag.vres (.glob id) (by simpa [placeOKM, VOk.placeOKM] using hpl); simp only [Ctx.name] at hr
    simp [VAst.lvalOfV, hr, VMsl.nodupIdx]
  | swz e l =>
    cases e with
    | vvar id =>
      simp [VIr.placeOf] at hp; obtain ⟨rfl, rfl⟩ := hp
      simp only [placeOKM, VOk.placeOKM, Bool.and_eq_true, decide_eq_true_eq] at hpl
      obtain ⟨⟨hv, hvec⟩, hnd⟩ := hpl
      have hr := hag.vres (.loc id) hv; simp only [Ctx.name] at hr
      cases hvt : vvty (.loc id) with
      | sc k => simp [hvt] at hvec
      | vec k n =>
        simp [genMV, getTy, hvt] at hg; subst hg
        simp [VAst.lvalOfV, hr, parse_mslSwizzleName, VMsl.nodupIdx, hnd]
    | vglobal id =>
      simp [VIr.placeOf] at hp; obtain ⟨rfl, rfl⟩ := hp
      simp only [placeOKM, VOk.placeOKM, Bool.and_eq_true, decide_eq_true_eq] at hpl
      obtain ⟨⟨hv, hvec⟩, hnd⟩ := hpl
      have hr := hag.vres (.glob id) hv; simp only [Ctx.name] at hr
      cases hvt : vvty (.glob id) with
      | sc k => simp [hvt] at hvec
      | vec k n =>
        simp [genMV, getTy, hvt] at hg; subst hg
        simp [VAst.lvalOfV, hr, parse_mslSwizzleName, VMsl.nodupIdx, hnd]
    | _ => simp [VIr.placeOf] at hp
  | _ => simp [VIr.placeOf] at hp

theorem convOK_self (t : VTy) : VMsl.convOK t t = true := by cases t <;> simp [VMsl.convOK]

/-- the value of the place before the assignment has the shape of the place's type -/
theorem readPlace_shaped {W : World} {vty : Var → Ty} {ρ : VStore} (hρ : ∀ y, VOk.shaped (vvty y) (ρ y) = true)
    {lhs : VExpr} {x : Var} {sl : Option (List SwizzleSlot)} {tl : VTy} {cur : VVal}
    (hp : VIr.placeOf lhs = some (x, sl)) (htl : VIr.typeOf W.sig vty vvty lhs = some tl)
    (hr : readPlace (ρ x) (sl.map (·.map slotIdx)) = some cur) : VOk.shaped tl cur = true := by
  -- reading the place is evaluating the place expression
  have hev : ∀ σ, VIr.eval W ρ lhs σ = some (cur, σ) := by
    intro σ
    cases lhs with
    | vvar id => simp [VIr.placeOf] at hp; obtain ⟨rfl, rfl⟩ := hp; simp [readPlace] at hr; simp [VIr.eval, hr]
    | vglobal id => simp [VIr.placeOf] at hp; obtain ⟨rfl, rfl⟩ := hp; simp [readPlace] at hr; simp [VIr.eval, hr]
    | swz e l =>
      cases e with
      | vvar id => simp [VIr.placeOf] at hp; obtain ⟨rfl, rfl⟩ := hp; simp [readPlace] at hr; simp [VIr.eval, hr]
      | vglobal id => simp [VIr.placeOf] at hp; obtain ⟨rfl, rfl⟩ := hp; simp [readPlace] at hr; simp [VIr.eval, hr]
      | _ => simp [VIr.placeOf] at hp
    | _ => simp [VIr.placeOf] at hp
  exact shape_sound hρ lhs tl (fun _ => .void) _ cur htl (hev _)

/-- statement-level assignment / compound assignment to a vector variable or a swizzle of one -/
theorem sim_massign (hag : VAgreeM cx vis env vvty) (hw : Worlds cx rsv W M) {o : IntrinsicOp} {b : BinOp} {lhs rhs : VExpr}
    {lhs' rhs' : VAExpr} {T : VTy}
    (hf : mslOpForm o = .binary b) (hgl : genMV cx vvty lhs = .ok lhs') (hgr : genMV cx vvty rhs = .ok rhs')
    (hok : VIr.assignOK W.sig cx.vty vvty lhs rhs = some T) (hpl : placeOKM vis vvty lhs = true)
    (hol : VOk.okMV (side cx W vis rsv) vvty lhs = true) (hor : VOk.okMV (side cx W vis rsv) vvty rhs = true)
    (hsem : irOpSem o = .assign ∨ ∃ m, irOpSem o = .compound m ∧ binSide m T ∧ (m = .mod → T.scalar ≠ .float)) :
    ∀ ρ, (∀ y, VOk.shaped (vvty y) (ρ y) = true) → ∀ σ,
      VMsl.evalTop M env ρ (.bin b lhs' rhs') σ = VIr.evalTop W ρ (.op o (.cons lhs (.cons rhs .nil))) σ := by
  intro ρ hρ σ
  have hbs := op_binaryM hf
  cases hp : VIr.placeOf lhs with
  | none => simp [VIr.assignOK, hp] at hok
  | some pl =>
    obtain ⟨x, sl⟩ := pl
    cases htl : VIr.typeOf W.sig cx.vty vvty lhs with
    | none => simp [VIr.assignOK, hp, htl] at hok
    | some tl =>
      cases htr : VIr.typeOf W.sig cx.vty vvty rhs with
      | none => simp [VIr.assignOK, hp, htl, htr] at hok
      | some tr =>
        simp [VIr.assignOK, hp, htl, htr] at hok
        obtain ⟨rfl, rfl⟩ := hok
        obtain ⟨hlv, hnd⟩ := lval_genMV hag hp hpl hgl
        have hL := sim_mv (ρ := ρ) hag hw hρ lhs lhs' tl hgl htl hol
        have hR := sim_mv (ρ := ρ) hag hw hρ rhs rhs' tl hgr htr hor
        rcases hsem with ha | ⟨m, hc, hside, hrem⟩
        · simp only [VMsl.evalTop, hbs, ha, hlv, hL.1, hR.1, convOK_self, hnd, Bool.and_self, if_true, convMVR_self, hR.2 σ,
            VIr.evalTop, hp]
          cases VIr.eval W ρ rhs σ with
          | none => rfl
          | some r =>
            obtain ⟨v, σ1⟩ := r
            simp only []
            cases writePlace (ρ x) (Option.map (List.map slotIdx) sl) v <;> rfl
        · have hro : VMsl.remOK m tl tl = true := by
            by_cases hmm : m = .mod
            · subst hmm; simp [VMsl.remOK, hrem rfl]
            · cases m <;> simp at hmm <;> simp [VMsl.remOK]
          simp only [VMsl.evalTop, hbs, hc, hlv, hL.1, hR.1, hro, if_true, binTy_self hside, convOK_self, hnd, Bool.and_self,
            operand_tys hside, VMsl.operandR, VMsl.operand, convMVR_self, hR.2 σ, VIr.evalTop, hp]
          cases hv : VIr.eval W ρ rhs σ with
          | none => rfl
          | some r =>
            obtain ⟨v, σ1⟩ := r
            simp only []
            cases hrp : readPlace (ρ x) (Option.map (List.map slotIdx) sl) with
            | none => rfl
            | some cur =>
              have sc := readPlace_shaped (W := W) (vty := cx.vty) hρ hp htl hrp
              have sv := shape_sound hρ rhs tl σ σ1 v htr hv
              simp only [VMsl.convMV, if_true, binAt_self hside sc sv, hw.prim]
              cases lift2 (binop W.P m) cur v with
              | none => rfl
              | some r1 =>
                simp only []
                cases writePlace (ρ x) (Option.map (List.map slotIdx) sl) r1 <;> rfl

theorem binSide_of_B {m : MBin} {T : VTy} (h : VOk.binSideB m T = true) : binSide m T ∧ (m = .mod → T.scalar ≠ .float) := by
  simp only [VOk.binSideB, Bool.and_eq_true, Bool.not_eq_true', Bool.and_eq_false_iff] at h
  refine ⟨?_, ?_⟩
  · cases T with
    | vec k n => trivial
    | sc k => simpa [binSide] using h.1
  · intro hm; subst hm
    rcases h.2 with h2 | h2
    · simp at h2
    · simpa using h2

end RsslVerif.Lemmas.GenMslVec

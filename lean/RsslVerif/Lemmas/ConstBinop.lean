import RsslVerif.Spec.HlslUsualConv
/-! Finite facts about `Model.ConstBinop.commonTy` (every operator × every pair of operand shapes), decided by evaluation. -/
namespace RsslVerif.Lemmas.ConstBinop
open RsslVerif.Gen.RankTable RsslVerif.Gen.TypingTables RsslVerif.Model.ConstBinop
open RsslVerif.Spec

/-- pairs on which the pinned code does not choose the specified type (see `Thm.C13.binop_common_type_as_specified_partial`):
    an untyped integer literal next to a `bool` -/
def deviates (l r : OpShape) : Bool :=
  let one (a b : OpShape) : Bool := a = .scalar .intLiteral ∧ b = .scalar .bool
  one l r || one r l

theorem binOp_mem_all (b : BinOp) : b ∈ BinOp.all := by cases b <;> decide

theorem shape_mem_all (s : OpShape) : s ∈ OpShape.all := by
  cases s with
  | scalar s => cases s <;> decide
  | enumInt => decide
  | enumUInt => decide

theorem commonTy_table :
    ∀ op ∈ BinOp.all, ∀ l ∈ OpShape.all, ∀ r ∈ OpShape.all,
      HlslUsualConv.sameEnum l r = true → deviates l r = false → commonTy op l r = HlslUsualConv.commonTy op l r := by
  decide +kernel

/-- an enum operand next to any other operand (of another kind, or of the same enum): the specified type, no exception -/
theorem commonTy_enum_table :
    ∀ op ∈ BinOp.all, ∀ e ∈ [OpShape.enumInt, .enumUInt], ∀ s ∈ OpShape.all,
      HlslUsualConv.sameEnum e s = true →
      commonTy op e s = HlslUsualConv.commonTy op e s ∧ commonTy op s e = HlslUsualConv.commonTy op s e := by
  decide +kernel

/-- next to an operand that is not an enum, an enum behaves exactly as a value of its underlying type would -/
theorem commonTy_enum_underlying_table :
    ∀ op ∈ BinOp.all, ∀ e ∈ [OpShape.enumInt, .enumUInt], ∀ s ∈ OpShape.all, s.isEnum = false →
      commonTy op e s = commonTy op e.underlying s ∧ commonTy op s e = commonTy op s e.underlying := by
  decide +kernel

/-- on the excluded pair (untyped integer literal, `bool`) the code converts the `bool` *to the untyped literal kind* (a
    conversion the constant folder has no rule for): never a typed kind -/
theorem commonTy_literal_bool :
    ∀ op ∈ BinOp.all, ∀ t,
      (commonTy op (.scalar .intLiteral) (.scalar .bool) = some t ∨ commonTy op (.scalar .bool) (.scalar .intLiteral) = some t) →
      t = .scalar .intLiteral ∨ (op.shortCircuit = true ∧ t = .scalar .bool) := by
  intro op hop t
  have key : ∀ op ∈ BinOp.all,
      (commonTy op (.scalar .intLiteral) (.scalar .bool) = none ∨
        commonTy op (.scalar .intLiteral) (.scalar .bool) = some (.scalar .intLiteral) ∨
        (op.shortCircuit = true ∧ commonTy op (.scalar .intLiteral) (.scalar .bool) = some (.scalar .bool))) ∧
      (commonTy op (.scalar .bool) (.scalar .intLiteral) = none ∨
        commonTy op (.scalar .bool) (.scalar .intLiteral) = some (.scalar .intLiteral) ∨
        (op.shortCircuit = true ∧ commonTy op (.scalar .bool) (.scalar .intLiteral) = some (.scalar .bool))) := by decide +kernel
  have k := key op hop
  rintro (h | h)
  · rcases k.1 with k | k | ⟨k1, k2⟩
    · rw [k] at h; cases h
    · rw [k] at h; cases h; exact .inl rfl
    · rw [k2] at h; cases h; exact .inr ⟨k1, rfl⟩
  · rcases k.2 with k | k | ⟨k1, k2⟩
    · rw [k] at h; cases h
    · rw [k] at h; cases h; exact .inl rfl
    · rw [k2] at h; cases h; exact .inr ⟨k1, rfl⟩

end RsslVerif.Lemmas.ConstBinop

"""Gen.HashSites: inventory of every place where the iteration order of a std HashMap/HashSet can be observed."""
import os
import re

CRATES = ["src", "ir/src", "hlsl/src", "msl/src", "typer/src", "parser/src", "formatter/src",
          "preprocess/src", "text/src", "ast/src"]
ITER_METHODS = ["iter", "iter_mut", "keys", "values", "values_mut", "into_iter", "into_keys", "into_values",
                "drain", "retain"]


def register(gen, T):
    @gen("HashSites")
    def hash_sites():
        from rustsrc import lean_str
        files = []
        for crate in CRATES:
            base = os.path.join(T.REPO, crate)
            for dp, _, fns in os.walk(base):
                for fn in sorted(fns):
                    if fn.endswith(".rs") and not fn.endswith("tests.rs") and fn != "test_support.rs":
                        files.append(os.path.relpath(os.path.join(dp, fn), T.REPO))
        files.sort()
        texts = {f: T.src(f) for f in files}
        # functions (any file) whose return type mentions a hash container
        hash_fns = set()
        for f, text in texts.items():
            for m in re.finditer(r'\bfn\s+([a-z_0-9]+)\s*(?:<[^>]*>)?\s*\([^)]*\)\s*->\s*([^{;]+)', text):
                if re.search(r'\bHash(Map|Set)\b', m.group(2)):
                    hash_fns.add(m.group(1))
        sites = []
        for f, text in texts.items():
            names = set()
            # struct fields, fn params, lets with a type annotation
            for m in re.finditer(r'\b([a-z_][a-z_0-9]*)\s*:\s*&?\s*(?:mut\s+)?(?:\'[a-z]+\s+)?(?:std::collections::)?Hash(?:Map|Set)\b', text):
                names.add(m.group(1))
            # let bindings initialised from a constructor
            for m in re.finditer(r'\blet\s+(?:mut\s+)?([a-z_][a-z_0-9]*)\s*(?::[^=;]+)?=\s*(?:std::collections::)?Hash(?:Map|Set)\s*::', text):
                names.add(m.group(1))
            # clones / references of known hash names
            changed = True
            while changed:
                changed = False
                for m in re.finditer(r'\blet\s+(?:mut\s+)?([a-z_][a-z_0-9]*)\s*=\s*&?\s*(?:mut\s+)?(?:self\s*\.\s*)?([a-z_][a-z_0-9]*)\s*(?:\.\s*clone\s*\(\s*\))?\s*;', text):
                    if m.group(2) in names and m.group(1) not in names:
                        names.add(m.group(1))
                        changed = True
            tuple_hash = bool(re.search(r'struct\s+[A-Za-z_]+\s*\(\s*(?:pub\s+)?Hash(?:Map|Set)\b', text))
            if not names and not tuple_hash and not any(h in text for h in hash_fns):
                continue
            # current function name per position
            fn_pos = [(m.start(), m.group(1)) for m in re.finditer(r'\bfn\s+([a-z_0-9]+)', text)]

            def fn_at(pos):
                cur = "?"
                for p, n in fn_pos:
                    if p <= pos:
                        cur = n
                    else:
                        break
                return cur

            def sorts_after(pos):
                """receivers of .sort*/.sort_by* calls between pos and the end of the enclosing function"""
                from rustsrc import matching
                start = None
                for p_, n_ in fn_pos:
                    if p_ <= pos:
                        start = p_
                b = text.find('{', start if start is not None else 0)
                # the enclosing *outermost* function containing pos
                best_end = len(text)
                for p_, n_ in fn_pos:
                    if p_ > pos:
                        break
                    ob = text.find('{', p_)
                    if ob < 0:
                        continue
                    try:
                        cb = matching(text, ob)
                    except Exception:
                        continue
                    if ob <= pos <= cb:
                        best_end = min(best_end, cb)
                recv = re.findall(r'([a-z_][a-z_0-9\.]*)\s*\.\s*sort(?:_by|_unstable|_by_key|_unstable_by)?\s*\(', text[pos:best_end])
                return "|sorts:" + ",".join(sorted(set(recv))) if recv else ""

            def is_hash_expr(expr):
                e = re.sub(r'\s+', '', expr)
                e = re.sub(r'^&(mut)?', '', e)
                segs = re.split(r'[\.\(\)\[\]&,]', e)
                if any(s in names for s in segs if s):
                    return True
                if tuple_hash and re.search(r'\bself\.0\b', e):
                    return True
                if any(re.search(r'\b' + h + r'\(', e) for h in hash_fns):
                    return True
                return False

            # for PAT in EXPR {
            for m in re.finditer(r'\bfor\s+(.+?)\s+in\s+([^{]+?)\s*\{', text):
                expr = m.group(2)
                if is_hash_expr(expr) and not re.search(r'\.\.', expr):
                    sites.append((f, fn_at(m.start()), "for:" + re.sub(r'\s+', '', expr) + sorts_after(m.start())))
            # method-style iteration
            for m in re.finditer(r'((?:[A-Za-z_][A-Za-z_0-9]*|\.\s*\d+)(?:\s*\.\s*(?:[A-Za-z_][A-Za-z_0-9]*|\d+)|\s*\[[^\]]*\]|\s*\([^()]*\))*)\s*\.\s*(' + "|".join(ITER_METHODS) + r')\s*\(', text):
                recv = re.sub(r'\s+', '', m.group(1))
                if is_hash_expr(recv):
                    # a `for .. in x.iter()` site is already recorded by the for-pattern above: keep one form
                    sites.append((f, fn_at(m.start()), "method:" + recv + "." + m.group(2) + sorts_after(m.start())))
            # collecting/extending from a hash container without an explicit iteration method
            for m in re.finditer(r'\b(extend|from_iter)\s*\(\s*&?\s*(?:mut\s+)?([A-Za-z_][A-Za-z_0-9\.\s]*)\)', text):
                if is_hash_expr(m.group(2)) and ".iter" not in m.group(2):
                    sites.append((f, fn_at(m.start()), m.group(1) + ":" + re.sub(r'\s+', '', m.group(2)) + sorts_after(m.start())))
        # drop the duplicate `method:` record of an iteration that is also a `for` header
        uniq = sorted(set(sites))
        out = [T.header("HashSites", ["every non-test .rs file of the workspace"])]
        out.append("/-- (file, enclosing fn, how the hash container is traversed) -/\n")
        out.append("def sites : List (String × String × String) := [\n")
        out.append(",\n".join(f"  ({lean_str(a)}, {lean_str(b)}, {lean_str(c)})" for a, b, c in uniq))
        out.append("\n]\n\n")
        out.append("def hashReturningFns : List String := " + T.lean_list(lean_str(h) for h in sorted(hash_fns)) + "\n")
        # other sources of nondeterminism: none may be used
        banned = []
        for f, text in texts.items():
            for m in re.finditer(r'\b(SystemTime|Instant::now|thread_rng|RandomState|std::env::var|std::thread|rayon|as_ptr\(\)\s*as\s*usize)\b', text):
                banned.append((f, m.group(1)))
        out.append("\n/-- uses of clocks, randomness, environment, threads (must be empty outside metal_invoker) -/\n")
        out.append("def otherNondeterminism : List (String × String) := [" + ", ".join(f"({lean_str(a)}, {lean_str(b)})" for a, b in sorted(set(banned))) + "]\n")
        # consumers of ScopedDeclarations.variables (filled in hash order by the typer's extract_locals)
        cons = []
        for f, text in texts.items():
            for m in re.finditer(r'(scope_block\s*\.\s*1|\b[a-z_]+\s*\.\s*1)\s*\.\s*variables\s*\.\s*([a-z_]+)', text):
                cons.append((f, m.group(2)))
            for m in re.finditer(r'ScopedDeclarations\s*\{', text):
                pass
        out.append("\n/-- every method applied to `<scope block>.1.variables` (the only hash-ordered vector stored in the IR) -/\n")
        out.append("def scopedDeclarationConsumers : List (String × String) := [" + ", ".join(f"({lean_str(a)}, {lean_str(b)})" for a, b in sorted(set(cons))) + "]\n")
        out.append(T.footer("HashSites"))
        return "".join(out)

import RsslVerif.Lemmas.FixpointBridge
set_option linter.unusedSimpArgs false
/-!
Lemmas for C04, part 8: an expression of the C01 subset is determined by its C03 skeleton (`erase`) and its constants
(`leaves`) — so a second generation with the same skeleton and the same constants is the same expression and exports
to the same tree.
-/
namespace RsslVerif.Lemmas.FixpointText
open RsslVerif.Gen.RankTable RsslVerif.Gen.TypingTables
open RsslVerif.Model RsslVerif.Model.Conv RsslVerif.Model.Overload RsslVerif.Model.IrTyping RsslVerif.Model.Elab
open RsslVerif.Model.Fixpoint RsslVerif.Model.FixpointBridge

variable {ix : Idx}

mutual
/-- number of constants of a skeleton -/
def leafCount : IExpr → Nat
  | .lit _ => 1
  | .var _ => 0
  | .tern c a b => leafCount c + (leafCount a + leafCount b)
  | .seq a b => leafCount a + (leafCount b + 0)
  | .call _ args => leafCountArgs args
  | .cast _ e => leafCount e
  | .op _ args => leafCountArgs args
def leafCountArgs : IArgs → Nat
  | .nil => 0
  | .cons e r => leafCount e + leafCountArgs r
end

mutual
theorem leaves_length : ∀ (e : Ir.Expr) (i : IExpr), erase ix e = some i → (leaves e).length = leafCount i
  | .lit c, i, h => by simp [erase] at h; subst h; simp [leaves, leafCount]
  | .var id, i, h => by
    simp only [erase] at h
    cases hv : ix.var (.loc id) <;> simp [hv] at h
    subst h; simp [leaves, leafCount]
  | .global id, i, h => by
    simp only [erase] at h
    cases hv : ix.var (.glob id) <;> simp [hv] at h
    subst h; simp [leaves, leafCount]
  | .op o args, i, h => by
    simp only [erase] at h
    split at h
    · rename_i io as _ has
      simp at h; subst h
      simp [leaves, leafCount, leavesArgs_length args as has]
    · simp at h
  | .tern c t f, i, h => by
    simp only [erase] at h
    split at h
    · rename_i c' t' f' hc ht hf
      simp at h; subst h
      simp [leaves, leafCount, leaves_length c c' hc, leaves_length t t' ht, leaves_length f f' hf]
    · simp at h
  | .seq es, i, h => by
    unfold erase at h
    split at h
    · rename_i a b
      split at h
      · rename_i a' b' ha hb
        simp at h; subst h
        simp [leaves, leavesArgs, leafCount, leaves_length a a' ha, leaves_length b b' hb]
      · simp at h
    · simp at h
  | .cast ty e, i, h => by
    simp only [erase] at h
    cases he : erase ix e with
    | none => simp [he] at h
    | some e' => simp [he] at h; subst h; simp [leaves, leafCount, leaves_length e e' he]
  | .call f args, i, h => by
    simp only [erase] at h
    split at h
    · rename_i j as _ has
      simp at h; subst h
      simp [leaves, leafCount, leavesArgs_length args as has]
    · simp at h
  | .intr _ _ _ _, i, h => by simp [erase] at h
theorem leavesArgs_length : ∀ (es : Ir.Exprs) (is : IArgs), eraseArgs ix es = some is →
    (leavesArgs es).length = leafCountArgs is
  | .nil, is, h => by simp [eraseArgs] at h; subst h; simp [leavesArgs, leafCountArgs]
  | .cons e r, is, h => by
    simp only [eraseArgs] at h
    split at h
    · rename_i e' r' he hr
      simp at h; subst h
      simp [leavesArgs, leafCountArgs, leaves_length e e' he, leavesArgs_length r r' hr]
    · simp at h
end

theorem eraseTy_inj : ∀ a b : Ir.Ty, eraseTy a = eraseTy b → a = b := by
  intro a b; cases a <;> cases b <;> decide

theorem iopOf_back : ∀ a : RsslVerif.Gen.HlslGenTables.IntrinsicOp,
    (match iopOf a with
     | some i => decide (RsslVerif.Gen.HlslGenTables.IntrinsicOp.ofName? i.name = some a)
     | none => true) = true := by
  intro a; cases a <;> decide

theorem iopOf_inj (a b : RsslVerif.Gen.HlslGenTables.IntrinsicOp) (i : IOp) (ha : iopOf a = some i) (hb : iopOf b = some i) :
    a = b := by
  have h1 := iopOf_back a
  have h2 := iopOf_back b
  rw [ha] at h1; rw [hb] at h2
  simp at h1 h2
  rw [h1] at h2
  simpa using h2

/-- split an equation between concatenations of constants by the skeleton's counts -/
theorem append_split {α : Type} {a b c d : List α} (h : a ++ b = c ++ d) (hl : a.length = c.length) : a = c ∧ b = d :=
  List.append_inj h hl

/-! ## inversion of `erase` -/

theorem erase_lit_inv {e : Ir.Expr} {k : Scalar} (h : erase ix e = some (.lit k)) :
    ∃ c, e = .lit c ∧ constScalar c = k := by
  cases e with
  | lit c => simp [erase] at h; exact ⟨c, rfl, h⟩
  | var id => simp only [erase] at h; cases hv : ix.var (.loc id) <;> simp [hv] at h
  | global id => simp only [erase] at h; cases hv : ix.var (.glob id) <;> simp [hv] at h
  | op o a => simp only [erase] at h; split at h <;> simp at h
  | tern c t f => simp only [erase] at h; split at h <;> simp at h
  | seq es => unfold erase at h; split at h <;> (try split at h) <;> simp at h
  | cast t e => simp only [erase] at h; cases he : erase ix e <;> simp [he] at h
  | call f a => simp only [erase] at h; split at h <;> simp at h
  | intr _ _ _ _ => simp [erase] at h

theorem erase_var_inv {e : Ir.Expr} {j : Nat} (h : erase ix e = some (.var j)) :
    ∃ v, ix.var v = some j ∧ ((∃ id, v = .loc id ∧ e = .var id) ∨ (∃ id, v = .glob id ∧ e = .global id)) := by
  cases e with
  | lit c => simp [erase] at h
  | var id =>
    simp only [erase] at h
    cases hv : ix.var (.loc id) with
    | none => simp [hv] at h
    | some j' => simp [hv] at h; subst h; exact ⟨.loc id, hv, Or.inl ⟨id, rfl, rfl⟩⟩
  | global id =>
    simp only [erase] at h
    cases hv : ix.var (.glob id) with
    | none => simp [hv] at h
    | some j' => simp [hv] at h; subst h; exact ⟨.glob id, hv, Or.inr ⟨id, rfl, rfl⟩⟩
  | op o a => simp only [erase] at h; split at h <;> simp at h
  | tern c t f => simp only [erase] at h; split at h <;> simp at h
  | seq es => unfold erase at h; split at h <;> (try split at h) <;> simp at h
  | cast t e => simp only [erase] at h; cases he : erase ix e <;> simp [he] at h
  | call f a => simp only [erase] at h; split at h <;> simp at h
  | intr _ _ _ _ => simp [erase] at h

theorem erase_tern_inv {e : Ir.Expr} {c' t' f' : IExpr} (h : erase ix e = some (.tern c' t' f')) :
    ∃ c t f, e = .tern c t f ∧ erase ix c = some c' ∧ erase ix t = some t' ∧ erase ix f = some f' := by
  cases e with
  | tern c t f =>
    simp only [erase] at h
    split at h
    · rename_i hc ht hf; simp at h; obtain ⟨rfl, rfl, rfl⟩ := h; exact ⟨c, t, f, rfl, hc, ht, hf⟩
    · simp at h
  | lit c => simp [erase] at h
  | var id => simp only [erase] at h; cases hv : ix.var (.loc id) <;> simp [hv] at h
  | global id => simp only [erase] at h; cases hv : ix.var (.glob id) <;> simp [hv] at h
  | op o a => simp only [erase] at h; split at h <;> simp at h
  | seq es => unfold erase at h; split at h <;> (try split at h) <;> simp at h
  | cast t e => simp only [erase] at h; cases he : erase ix e <;> simp [he] at h
  | call f a => simp only [erase] at h; split at h <;> simp at h
  | intr _ _ _ _ => simp [erase] at h

theorem erase_seq_inv {e : Ir.Expr} {a' b' : IExpr} (h : erase ix e = some (.seq a' b')) :
    ∃ a b, e = .seq (.cons a (.cons b .nil)) ∧ erase ix a = some a' ∧ erase ix b = some b' := by
  cases e with
  | seq es =>
    unfold erase at h
    split at h
    · rename_i a b
      split at h
      · rename_i ha hb; simp at h; obtain ⟨rfl, rfl⟩ := h; exact ⟨a, b, rfl, ha, hb⟩
      · simp at h
    · simp at h
  | lit c => simp [erase] at h
  | var id => simp only [erase] at h; cases hv : ix.var (.loc id) <;> simp [hv] at h
  | global id => simp only [erase] at h; cases hv : ix.var (.glob id) <;> simp [hv] at h
  | op o a => simp only [erase] at h; split at h <;> simp at h
  | tern c t f => simp only [erase] at h; split at h <;> simp at h
  | cast t e => simp only [erase] at h; cases he : erase ix e <;> simp [he] at h
  | call f a => simp only [erase] at h; split at h <;> simp at h
  | intr _ _ _ _ => simp [erase] at h

theorem erase_cast_inv {e : Ir.Expr} {t : Ty} {e' : IExpr} (h : erase ix e = some (.cast t e')) :
    ∃ ty e0, e = .cast ty e0 ∧ eraseTy ty = t ∧ erase ix e0 = some e' := by
  cases e with
  | cast ty e0 =>
    simp only [erase] at h
    cases he : erase ix e0 with
    | none => simp [he] at h
    | some x => simp [he] at h; obtain ⟨rfl, rfl⟩ := h; exact ⟨ty, e0, rfl, rfl, he⟩
  | lit c => simp [erase] at h
  | var id => simp only [erase] at h; cases hv : ix.var (.loc id) <;> simp [hv] at h
  | global id => simp only [erase] at h; cases hv : ix.var (.glob id) <;> simp [hv] at h
  | op o a => simp only [erase] at h; split at h <;> simp at h
  | tern c t f => simp only [erase] at h; split at h <;> simp at h
  | seq es => unfold erase at h; split at h <;> (try split at h) <;> simp at h
  | call f a => simp only [erase] at h; split at h <;> simp at h
  | intr _ _ _ _ => simp [erase] at h

theorem erase_call_inv {e : Ir.Expr} {j : Nat} {as : IArgs} (h : erase ix e = some (.call j as)) :
    ∃ f args, e = .call f args ∧ ix.func f = some j ∧ eraseArgs ix args = some as := by
  cases e with
  | call f args =>
    simp only [erase] at h
    split at h
    · rename_i hj has; simp at h; obtain ⟨rfl, rfl⟩ := h; exact ⟨f, args, rfl, hj, has⟩
    · simp at h
  | lit c => simp [erase] at h
  | var id => simp only [erase] at h; cases hv : ix.var (.loc id) <;> simp [hv] at h
  | global id => simp only [erase] at h; cases hv : ix.var (.glob id) <;> simp [hv] at h
  | op o a => simp only [erase] at h; split at h <;> simp at h
  | tern c t f => simp only [erase] at h; split at h <;> simp at h
  | seq es => unfold erase at h; split at h <;> (try split at h) <;> simp at h
  | cast t e => simp only [erase] at h; cases he : erase ix e <;> simp [he] at h
  | intr _ _ _ _ => simp [erase] at h

theorem erase_op_inv {e : Ir.Expr} {i : IOp} {as : IArgs} (h : erase ix e = some (.op i as)) :
    ∃ o args, e = .op o args ∧ iopOf o = some i ∧ eraseArgs ix args = some as := by
  cases e with
  | op o args =>
    simp only [erase] at h
    split at h
    · rename_i hi has; simp at h; obtain ⟨rfl, rfl⟩ := h; exact ⟨o, args, rfl, hi, has⟩
    · simp at h
  | lit c => simp [erase] at h
  | var id => simp only [erase] at h; cases hv : ix.var (.loc id) <;> simp [hv] at h
  | global id => simp only [erase] at h; cases hv : ix.var (.glob id) <;> simp [hv] at h
  | call f a => simp only [erase] at h; split at h <;> simp at h
  | tern c t f => simp only [erase] at h; split at h <;> simp at h
  | seq es => unfold erase at h; split at h <;> (try split at h) <;> simp at h
  | cast t e => simp only [erase] at h; cases he : erase ix e <;> simp [he] at h
  | intr _ _ _ _ => simp [erase] at h

theorem eraseArgs_cons_inv {es : Ir.Exprs} {e' : IExpr} {r' : IArgs} (h : eraseArgs ix es = some (.cons e' r')) :
    ∃ e r, es = .cons e r ∧ erase ix e = some e' ∧ eraseArgs ix r = some r' := by
  cases es with
  | nil => simp [eraseArgs] at h
  | cons e r =>
    simp only [eraseArgs] at h
    split at h
    · rename_i he hr; simp at h; obtain ⟨rfl, rfl⟩ := h; exact ⟨e, r, rfl, he, hr⟩
    · simp at h

theorem eraseArgs_nil_inv {es : Ir.Exprs} (h : eraseArgs ix es = some .nil) : es = .nil := by
  cases es with
  | nil => rfl
  | cons e r => simp only [eraseArgs] at h; split at h <;> simp at h

/-! ## skeleton + constants determine the expression -/

mutual
theorem erase_inj (hI : IdxInj ix) : ∀ (e e2 : Ir.Expr) (i : IExpr), erase ix e = some i → erase ix e2 = some i →
    leaves e = leaves e2 → e = e2
  | .lit c, e2, i, h1, h2, hl => by
    simp [erase] at h1; subst h1
    obtain ⟨c2, rfl, _⟩ := erase_lit_inv h2
    simp [leaves] at hl; rw [hl]
  | .var id, e2, i, h1, h2, _ => by
    simp only [erase] at h1
    cases hv : ix.var (.loc id) with
    | none => simp [hv] at h1
    | some j =>
      simp [hv] at h1; subst h1
      obtain ⟨v, hv2, hc⟩ := erase_var_inv h2
      have := hI.var _ _ _ hv hv2
      subst this
      rcases hc with ⟨id2, h3, rfl⟩ | ⟨id2, h3, rfl⟩
      · cases h3; rfl
      · cases h3
  | .global id, e2, i, h1, h2, _ => by
    simp only [erase] at h1
    cases hv : ix.var (.glob id) with
    | none => simp [hv] at h1
    | some j =>
      simp [hv] at h1; subst h1
      obtain ⟨v, hv2, hc⟩ := erase_var_inv h2
      have := hI.var _ _ _ hv hv2
      subst this
      rcases hc with ⟨id2, h3, rfl⟩ | ⟨id2, h3, rfl⟩
      · cases h3
      · cases h3; rfl
  | .tern c t f, e2, i, h1, h2, hl => by
    simp only [erase] at h1
    split at h1
    · rename_i c' t' f' hc ht hf
      simp at h1; subst h1
      obtain ⟨c2, t2, f2, rfl, hc2, ht2, hf2⟩ := erase_tern_inv h2
      simp only [leaves] at hl
      obtain ⟨l1, hl'⟩ := append_split hl (by rw [leaves_length c c' hc, leaves_length c2 c' hc2])
      obtain ⟨l2, l3⟩ := append_split hl' (by rw [leaves_length t t' ht, leaves_length t2 t' ht2])
      rw [erase_inj hI c c2 c' hc hc2 l1, erase_inj hI t t2 t' ht ht2 l2, erase_inj hI f f2 f' hf hf2 l3]
    · simp at h1
  | .seq es, e2, i, h1, h2, hl => by
    unfold erase at h1
    split at h1
    · rename_i a b
      split at h1
      · rename_i a' b' ha hb
        simp at h1; subst h1
        obtain ⟨a2, b2, rfl, ha2, hb2⟩ := erase_seq_inv h2
        simp only [leaves, leavesArgs, List.append_nil] at hl
        obtain ⟨l1, l2⟩ := append_split hl (by rw [leaves_length a a' ha, leaves_length a2 a' ha2])
        rw [erase_inj hI a a2 a' ha ha2 l1, erase_inj hI b b2 b' hb hb2 l2]
      · simp at h1
    · simp at h1
  | .cast ty e, e2, i, h1, h2, hl => by
    simp only [erase] at h1
    cases he : erase ix e with
    | none => simp [he] at h1
    | some e' =>
      simp [he] at h1; subst h1
      obtain ⟨ty2, e02, rfl, hty, he2⟩ := erase_cast_inv h2
      simp only [leaves] at hl
      rw [eraseTy_inj _ _ hty, erase_inj hI e e02 e' he he2 hl]
  | .call f args, e2, i, h1, h2, hl => by
    simp only [erase] at h1
    split at h1
    · rename_i j as hj has
      simp at h1; subst h1
      obtain ⟨f2, args2, rfl, hj2, has2⟩ := erase_call_inv h2
      simp only [leaves] at hl
      rw [hI.func _ _ _ hj hj2, eraseArgs_inj hI args args2 as has has2 hl]
    · simp at h1
  | .op o args, e2, i, h1, h2, hl => by
    simp only [erase] at h1
    split at h1
    · rename_i io as hio has
      simp at h1; subst h1
      obtain ⟨o2, args2, rfl, hio2, has2⟩ := erase_op_inv h2
      simp only [leaves] at hl
      rw [iopOf_inj _ _ _ hio hio2, eraseArgs_inj hI args args2 as has has2 hl]
    · simp at h1
  | .intr _ _ _ _, _, _, h1, _, _ => by simp [erase] at h1
theorem eraseArgs_inj (hI : IdxInj ix) : ∀ (es es2 : Ir.Exprs) (is : IArgs), eraseArgs ix es = some is →
    eraseArgs ix es2 = some is → leavesArgs es = leavesArgs es2 → es = es2
  | .nil, es2, is, h1, h2, _ => by
    simp [eraseArgs] at h1; subst h1
    rw [eraseArgs_nil_inv h2]
  | .cons e r, es2, is, h1, h2, hl => by
    simp only [eraseArgs] at h1
    split at h1
    · rename_i e' r' he hr
      simp at h1; subst h1
      obtain ⟨e2, r2, rfl, he2, hr2⟩ := eraseArgs_cons_inv h2
      simp only [leavesArgs] at hl
      obtain ⟨l1, l2⟩ := append_split hl (by rw [leaves_length e e' he, leaves_length e2 e' he2])
      rw [erase_inj hI e e2 e' he he2 l1, eraseArgs_inj hI r r2 r' hr hr2 l2]
    · simp at h1
end

end RsslVerif.Lemmas.FixpointText

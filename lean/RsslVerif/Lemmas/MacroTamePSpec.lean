import RsslVerif.Lemmas.MacroTameP
import RsslVerif.Lemmas.MacroTameSpec
/-!
# A tame derivation with `##` is what the reference algorithm computes (`tameP_spec`)

rssl pastes while it rescans a replacement list, C pastes the whole replacement list first (`subst`: `replaceParams`,
then `doPastes`) and rescans afterwards.  `PN env l ks`: reading `l` from the left and carrying out every paste gives
the token sequence `ks` (white space dropped) -- the *paste normal form* of `l`; merged tokens name no enabled macro.
The invariant between the list `l` rssl is scanning and the reference's list `ls`: `ls` spells the paste normal form
of `l` (`RelP`), with the hide-set conditions of `Lemmas/MacroTameSpec.lean`.
-/
namespace RsslVerif.Lemmas.MacroTamePSpec
open RsslVerif.Model.Macro RsslVerif.Model.MacroTame RsslVerif.Spec.CPreMacro
open RsslVerif.Lemmas.MacroTerm RsslVerif.Lemmas.MacroSubst RsslVerif.Lemmas.MacroHang RsslVerif.Lemmas.MacroTame
open RsslVerif.Lemmas.SpecExpand RsslVerif.Lemmas.SpecInert RsslVerif.Lemmas.MacroTameSpec
open RsslVerif.Lemmas.MacroTameP RsslVerif.Lemmas.MacroPaste

/-- the paste normal form -/
inductive PN (env : List Entry) : List PTok → List Tok → Prop
  | nil : PN env [] []
  | ws (t : PTok) (rest : List PTok) (ks : List Tok) : t.tok.isWhitespace = true → PN env rest ks → PN env (t :: rest) ks
  | tok (t : PTok) (rest : List PTok) (ks : List Tok) : t.tok.isWhitespace = false → t.tok ≠ .concat →
      splitPaste rest = none → PN env rest ks → PN env (t :: rest) (t.tok :: ks)
  | paste (t1 t2 m : PTok) (rest rest2 : List PTok) (ks : List Tok) : t1.tok.isWhitespace = false →
      splitPaste rest = some (t2, rest2) → pasteTokens t1 t2 = .ok m → OnlyDisabled env [m] →
      PN env (m :: rest2) ks → PN env (t1 :: rest) ks

/-- the hide set of a token that names an enabled macro consists of disabled names only -/
def SubOK (env : List Entry) (s : HTok) : Prop :=
  ∀ n, s.tok = .id n → (∃ e ∈ env, e.m.name = n ∧ e.disabled = false) → ∀ x ∈ s.hide, x ∈ disabledNames env

structure RelP (env : List Entry) (ls : List HTok) (l : List PTok) : Prop where
  toks : PN env l (ls.map (·.tok))
  sup : ∀ t ∈ ls, ∀ x ∈ disabledNames env, x ∈ t.hide
  sub : ∀ t ∈ ls, SubOK env t

/-! ## `firstTok`, `splitPaste` -/

theorem dropWs_cons_ws (t : PTok) (r : List PTok) (h : t.tok.isWhitespace = true) : dropWs (t :: r) = dropWs r := by
  simp [dropWs, h]

theorem dropWs_cons_nonws (t : PTok) (r : List PTok) (h : t.tok.isWhitespace = false) : dropWs (t :: r) = t :: r := by
  simp [dropWs, h]

theorem firstTok_eq_dropWs (l : List PTok) : firstTok l = (dropWs l).head?.map (·.tok) := by
  induction l with
  | nil => rfl
  | cons t r ih =>
    by_cases h : t.tok.isWhitespace = true
    · rw [dropWs_cons_ws t r h]
      simp only [firstTok, h, if_true]
      exact ih
    · have h' : t.tok.isWhitespace = false := by simpa using h
      rw [dropWs_cons_nonws t r h']
      simp [firstTok, h']

theorem splitPaste_none_of_firstTok (l : List PTok) (h : firstTok l ≠ some .concat) : splitPaste l = none := by
  unfold splitPaste
  split
  · rename_i cb r hd
    exfalso
    apply h
    rw [firstTok_eq_dropWs, hd]
    rfl
  · rfl

theorem firstTok_of_splitPaste (l : List PTok) (t2 : PTok) (r2 : List PTok) (h : splitPaste l = some (t2, r2)) :
    firstTok l = some .concat := by
  unfold splitPaste at h
  split at h
  · rename_i cb r hd
    rw [firstTok_eq_dropWs, hd]; rfl
  · cases h

theorem firstTok_append_ws (W rest : List PTok) (h : ∀ t ∈ W, t.tok.isWhitespace = true) :
    firstTok (W ++ rest) = firstTok rest := by
  induction W with
  | nil => rfl
  | cons w ws ih =>
    simp only [List.cons_append, firstTok, h w (by simp), if_true]
    exact ih (fun t ht => h t (by simp [ht]))


/-- a successful paste: both operands are words or operators, and the reference's `pasteTok` gives the same token -/
theorem pasteTokens_ok_shape (l r m : PTok) (h : pasteTokens l r = .ok m) :
    (∃ a, l.tok = .id a ∨ l.tok = .int a ∨ l.tok = .punct a) ∧
    (∃ b, r.tok = .id b ∨ r.tok = .int b ∨ r.tok = .punct b) ∧ pasteTok l.tok r.tok = some m.tok ∧
    (∃ x, m.tok = .id x ∨ m.tok = .int x ∨ m.tok = .punct x) := by
  unfold pasteTokens at h
  split at h
  · cases h
  · split at h
    · rename_i a b h1 h2
      split at h
      · cases h
      · cases h
        exact ⟨⟨a, Or.inl h1⟩, ⟨b, Or.inl h2⟩, by simp [h1, h2, pasteTok], ⟨_, Or.inl rfl⟩⟩
    · rename_i a b h1 h2
      split at h
      · cases h
      · cases h
        exact ⟨⟨a, Or.inl h1⟩, ⟨b, Or.inr (Or.inl h2)⟩, by simp [h1, h2, pasteTok], ⟨_, Or.inl rfl⟩⟩
    · rename_i a b h1 h2
      split at h
      · cases h
      · split at h
        · cases h
        · cases h
          exact ⟨⟨a, Or.inr (Or.inl h1)⟩, ⟨b, Or.inr (Or.inl h2)⟩, by simp [h1, h2, pasteTok], ⟨_, Or.inr (Or.inl rfl)⟩⟩
    · rename_i a b h1 h2
      split at h
      · rename_i hc
        cases h
        exact ⟨⟨a, Or.inr (Or.inr h1)⟩, ⟨b, Or.inr (Or.inr h2)⟩, by
          simp only [h1, h2, pasteTok, hc, if_true], ⟨_, Or.inr (Or.inr rfl)⟩⟩
      · cases h
    · split at h <;> cases h

/-- the first token (white space aside) of a list with a tame expansion is not `##` -/
theorem tameP_firstTok {env : List Entry} {l out : List PTok} (h : TameP env l out) : firstTok l ≠ some .concat := by
  induction h with
  | nil => simp [firstTok]
  | keep env t rest out hk _ _ ih =>
    by_cases hw : t.tok.isWhitespace = true
    · simp only [firstTok, hw, if_true]; exact ih
    · simp only [firstTok, hw]
      intro hh
      simp only [Bool.false_eq_true, if_false, Option.some.injEq] at hh
      exact hk.1 hh
  | paste env t1 t2 m rest rest2 out hnw _ hk _ _ _ _ =>
    simp only [firstTok, hnw]
    intro hh
    simp only [Bool.false_eq_true, if_false, Option.some.injEq] at hh
    exact hk.1 hh
  | invoke => simp [firstTok, Tok.isWhitespace]

theorem pn_firstTok {env : List Entry} {l : List PTok} {ks : List Tok} (h : PN env l ks) :
    firstTok l ≠ some .concat := by
  induction h with
  | nil => simp [firstTok]
  | ws t rest ks hw _ ih => simp only [firstTok, hw, if_true]; exact ih
  | tok t rest ks hw hc _ _ _ =>
    simp only [firstTok, hw]
    intro hh
    simp only [Bool.false_eq_true, if_false, Option.some.injEq] at hh
    exact hc hh
  | paste t1 t2 m rest rest2 ks hw hs hp _ _ _ =>
    simp only [firstTok, hw]
    intro hh
    simp only [Bool.false_eq_true, if_false, Option.some.injEq] at hh
    -- `pasteTokens` fails on a `Concat` operand
    obtain ⟨⟨a, ha⟩, _, _, _⟩ := pasteTokens_ok_shape _ _ _ hp
    rw [hh] at ha
    rcases ha with ha | ha | ha <;> cases ha

/-! ## lists without `##` -/

theorem firstTok_append_noConcat (A B : List PTok) (hA : NoConcat A) (hB : firstTok B ≠ some .concat) :
    firstTok (A ++ B) ≠ some .concat := by
  induction A with
  | nil => exact hB
  | cons t r ih =>
    by_cases hw : t.tok.isWhitespace = true
    · simp only [List.cons_append, firstTok, hw, if_true]
      exact ih (fun x hx => hA x (by simp [hx]))
    · simp only [List.cons_append, firstTok, hw]
      intro hh
      simp only [Bool.false_eq_true, if_false, Option.some.injEq] at hh
      exact hA t (by simp) hh

theorem pn_append (env : List Entry) (A B : List PTok) (ks : List Tok) (hA : NoConcat A)
    (hB : firstTok B ≠ some .concat) (h : PN env B ks) : PN env (A ++ B) (ppTokens A ++ ks) := by
  induction A with
  | nil => simpa [ppTokens_nil] using h
  | cons t r ih =>
    have hr : NoConcat r := fun x hx => hA x (by simp [hx])
    by_cases hw : t.tok.isWhitespace = true
    · rw [List.cons_append, ppTokens_cons_ws t r hw]
      exact PN.ws t _ _ hw (ih hr)
    · have hw' : t.tok.isWhitespace = false := by simpa using hw
      rw [List.cons_append, ppTokens_cons t r hw', List.cons_append]
      exact PN.tok t _ _ hw' (hA t (by simp))
        (splitPaste_none_of_firstTok _ (firstTok_append_noConcat r B hr hB)) (ih hr)

theorem pn_of_noConcat (env : List Entry) (A : List PTok) (hA : NoConcat A) : PN env A (ppTokens A) := by
  have := pn_append env A [] [] hA (by simp [firstTok]) PN.nil
  simpa using this

/-- a list without `##` has only this paste normal form -/
theorem pn_noConcat_eq {env : List Entry} {A : List PTok} {ks : List Tok} (hA : NoConcat A) (h : PN env A ks) :
    ks = ppTokens A := by
  induction h with
  | nil => rfl
  | ws t rest ks hw _ ih => rw [ppTokens_cons_ws t rest hw]; exact ih (fun x hx => hA x (by simp [hx]))
  | tok t rest ks hw _ _ _ ih =>
    rw [ppTokens_cons t rest hw, ih (fun x hx => hA x (by simp [hx]))]
  | paste t1 t2 m rest rest2 ks _ hs _ _ _ _ =>
    exfalso
    obtain ⟨W1, c, W2, hrest, hc, _⟩ := splitPaste_spec rest rest2 t2 hs
    exact hA c (by rw [hrest]; simp) hc

theorem mem_dropWhile_of_not {α : Type} (p : α → Bool) (l : List α) (t : α) (ht : t ∈ l) (hp : p t = false) :
    t ∈ l.dropWhile p := by
  induction l with
  | nil => cases ht
  | cons x xs ih =>
    rw [List.dropWhile_cons]
    split
    · rename_i hx
      rcases List.mem_cons.mp ht with rfl | ht
      · rw [hp] at hx; cases hx
      · exact ih ht
    · exact ht

theorem mem_trim_of_nonblank (l : List PTok) (t : PTok) (ht : t ∈ l) (hb : t.tok.isBlank = false) : t ∈ trim l := by
  unfold trim trimEnd trimStart
  have h1 : t ∈ List.dropWhile (fun t : PTok => t.tok.isBlank) l := mem_dropWhile_of_not _ l t ht hb
  have h2 : t ∈ (List.dropWhile (fun t : PTok => t.tok.isBlank) l).reverse := List.mem_reverse.mpr h1
  have h3 := mem_dropWhile_of_not (fun t : PTok => t.tok.isBlank) _ t h2 hb
  exact List.mem_reverse.mpr h3

/-- what `split_macro_args` consumes: the consumed part `mid` ends in the closing parenthesis, scanning `mid` alone
gives the same arguments, and a `Concat` token of `mid` (or of the current argument) lies in one of the arguments -/
theorem scanArgs_region (ts : List PTok) : ∀ (cur : List PTok) (acc : List (List PTok)) (d : Nat) (rest' : List PTok)
    (out : List (List PTok)), scanArgs ts cur acc d = .ok (rest', out) →
    ∃ init b, ts = (init ++ [⟨.rparen, b⟩]) ++ rest' ∧ scanArgs (init ++ [⟨.rparen, b⟩]) cur acc d = .ok ([], out) ∧
      ∀ t, t.tok = .concat → (t ∈ cur ∨ t ∈ init) → ∃ a ∈ out, t ∈ a := by
  induction ts with
  | nil => intro cur acc d rest' out h; simp [scanArgs] at h
  | cons t ts ih =>
    intro cur acc d rest' out h
    -- the token is pushed onto the current argument
    have push : ∀ d', scanArgs ts (cur ++ [t]) acc d' = .ok (rest', out) →
        (∀ more, scanArgs (t :: more) cur acc d = scanArgs more (cur ++ [t]) acc d') →
        ∃ init b, t :: ts = (init ++ [⟨.rparen, b⟩]) ++ rest' ∧
          scanArgs (init ++ [⟨.rparen, b⟩]) cur acc d = .ok ([], out) ∧
          ∀ x, x.tok = .concat → (x ∈ cur ∨ x ∈ init) → ∃ a ∈ out, x ∈ a := by
      intro d' hh hstep
      obtain ⟨init, b, h1, h2, h3⟩ := ih _ _ _ _ _ hh
      refine ⟨t :: init, b, by rw [h1]; simp, ?_, ?_⟩
      · rw [List.cons_append, hstep]; exact h2
      · intro x hx hmem
        apply h3 x hx
        rcases hmem with hm | hm
        · exact Or.inl (List.mem_append_left _ hm)
        · rcases List.mem_cons.mp hm with rfl | hm
          · exact Or.inl (by simp)
          · exact Or.inr hm
    cases htk : t.tok with
    | comma =>
      by_cases hd : d = 0
      · simp only [scanArgs, htk, hd, if_true] at h
        obtain ⟨init, b, h1, h2, h3⟩ := ih _ _ _ _ _ h
        subst hd
        refine ⟨t :: init, b, by rw [h1]; simp, ?_, ?_⟩
        · simp only [List.cons_append, scanArgs, htk, if_true]; exact h2
        · intro x hx hmem
          rcases hmem with hm | hm
          · -- in the argument that ends here
            have hxa : x ∈ trim cur := mem_trim_of_nonblank cur x hm (by rw [hx]; rfl)
            -- `trim cur` is one of the accumulated arguments of the recursive call, which all come out
            have : ∀ (ts' cur' : List PTok) (acc' : List (List PTok)) (d' : Nat) (r' : List PTok)
                (o' : List (List PTok)), scanArgs ts' cur' acc' d' = .ok (r', o') → ∀ a ∈ acc', a ∈ o' := by
              intro ts'
              induction ts' with
              | nil => intro _ _ _ _ _ hh; simp [scanArgs] at hh
              | cons y ys ihy =>
                intro cur' acc' d' r' o' hh a ha
                unfold scanArgs at hh
                split at hh
                · split at hh
                  · exact ihy _ _ _ _ _ hh a (List.mem_append_left _ ha)
                  · exact ihy _ _ _ _ _ hh a ha
                · exact ihy _ _ _ _ _ hh a ha
                · split at hh
                  · cases hh; exact List.mem_append_left _ ha
                  · exact ihy _ _ _ _ _ hh a ha
                · exact ihy _ _ _ _ _ hh a ha
            exact ⟨trim cur, this _ _ _ _ _ _ h _ (by simp), hxa⟩
          · rcases List.mem_cons.mp hm with rfl | hm
            · rw [htk] at hx; cases hx
            · exact h3 x hx (Or.inr hm)
      · simp only [scanArgs, htk, hd, if_false] at h
        exact push d h (fun more => by simp [scanArgs, htk, hd])
    | lparen =>
      simp only [scanArgs, htk] at h
      exact push (d + 1) h (fun more => by simp [scanArgs, htk])
    | rparen =>
      by_cases hd : d = 0
      · simp only [scanArgs, htk, hd, if_true] at h
        cases h
        obtain ⟨tt, tb⟩ := t
        simp only at htk
        subst htk
        refine ⟨[], tb, by simp, by simp [scanArgs, hd], ?_⟩
        intro x hx hmem
        rcases hmem with hm | hm
        · exact ⟨trim cur, by simp, mem_trim_of_nonblank cur x hm (by rw [hx]; rfl)⟩
        · cases hm
      · simp only [scanArgs, htk, hd, if_false] at h
        exact push (d - 1) h (fun more => by simp [scanArgs, htk, hd])
    | _ =>
      simp only [scanArgs, htk] at h
      exact push d h (fun more => by simp [scanArgs, htk])


theorem trimStartAll_prefix_ws (l : List PTok) :
    ∃ pre, l = pre ++ trimStartAll l ∧ ∀ t ∈ pre, t.tok.isWhitespace = true := by
  induction l with
  | nil => exact ⟨[], rfl, fun t ht => (by cases ht)⟩
  | cons x r ih =>
    by_cases hx : x.tok.isWhitespace = true
    · obtain ⟨pre, hp, hb⟩ := ih
      refine ⟨x :: pre, ?_, ?_⟩
      · have : trimStartAll (x :: r) = trimStartAll r := by simp [trimStartAll, hx]
        rw [this, List.cons_append, ← hp]
      · intro t ht
        rcases List.mem_cons.mp ht with rfl | ht
        · exact hx
        · exact hb t ht
    · refine ⟨[], ?_, fun t ht => (by cases ht)⟩
      simp [trimStartAll, hx]

/-- the part of the text an invocation consumes behind the macro name -/
theorem readArgs_region (m : Macro) (rest rest' : List PTok) (args : List (List PTok))
    (h : readArgs m rest = .ok (rest', args)) (hnc : ∀ a ∈ args, NoConcat a) :
    ∃ mid, rest = mid ++ rest' ∧ NoConcat mid ∧
      (m.isFunction = true → ∃ blanks bl init br, mid = blanks ++ ⟨.lparen, bl⟩ :: (init ++ [⟨.rparen, br⟩]) ∧
        (∀ t ∈ blanks, t.tok.isWhitespace = true) ∧ scanArgs (init ++ [⟨.rparen, br⟩]) [] [] 0 = .ok ([], args)) ∧
      (m.isFunction = false → mid = []) := by
  cases hf : m.isFunction with
  | false =>
    have hs := readArgs_spec m rest rest' args h
    simp only [hf, Bool.false_eq_true, if_false] at hs
    exact ⟨[], by simp [hs.1], fun t ht => (by cases ht), fun hh => (by cases hh), fun _ => rfl⟩
  | true =>
    obtain ⟨b, tail, htrim, hscan, _⟩ := readArgs_fn m rest rest' args hf h
    obtain ⟨init, br, h1, h2, h3⟩ := scanArgs_region tail [] [] 0 rest' args hscan
    obtain ⟨pre, hpre, hblank⟩ := trimStartAll_prefix_ws rest
    refine ⟨pre ++ ⟨.lparen, b⟩ :: (init ++ [⟨.rparen, br⟩]), ?_, ?_, ?_, fun hh => (by cases hh)⟩
    · rw [hpre, htrim, h1]; simp
    · intro t ht hc
      rcases List.mem_append.mp ht with hm | hm
      · have := hblank t hm; rw [hc] at this; cases this
      · rcases List.mem_cons.mp hm with rfl | hm
        · cases hc
        · rcases List.mem_append.mp hm with hm | hm
          · obtain ⟨a, ha, hta⟩ := h3 t hc (Or.inr hm)
            exact hnc a ha t hta hc
          · simp only [List.mem_singleton] at hm
            subst hm; cases hc
    · intro _
      exact ⟨pre, b, init, br, rfl, hblank, h2⟩

/-- **every list with a tame expansion has a paste normal form** -/
theorem tameP_pn {env : List Entry} {l out : List PTok} (h : TameP env l out) : ∃ ks, PN env l ks := by
  induction h with
  | nil => exact ⟨[], PN.nil⟩
  | keep env t rest out hk hsp _ ih =>
    obtain ⟨ks, hks⟩ := ih
    by_cases hw : t.tok.isWhitespace = true
    · exact ⟨ks, PN.ws t rest ks hw hks⟩
    · have hw' : t.tok.isWhitespace = false := by simpa using hw
      rcases hsp with h1 | h1
      · exact absurd h1 hw
      · exact ⟨t.tok :: ks, PN.tok t rest ks hw' hk.1 h1 hks⟩
  | paste env t1 t2 m rest rest2 out hnw hs _ hp hod _ ih =>
    obtain ⟨ks, hks⟩ := ih
    exact ⟨ks, PN.paste t1 t2 m rest rest2 ks hnw hs hp hod hks⟩
  | invoke env n b rest mi e rest' args args' body' R out _ hra hnc _ _ _ _ _ _ _ hrest _ _ ihrest =>
    obtain ⟨ks, hks⟩ := ihrest
    obtain ⟨mid, hmid, hncm, _, _⟩ := readArgs_region e.m rest rest' args hra hnc
    have hft := tameP_firstTok hrest
    refine ⟨Tok.id n :: (ppTokens mid ++ ks), ?_⟩
    rw [hmid]
    exact PN.tok ⟨.id n, b⟩ _ _ rfl (by simp)
      (splitPaste_none_of_firstTok _ (firstTok_append_noConcat mid rest' hncm hft))
      (pn_append env mid rest' ks hncm hft hks)

/-- an argument without enabled macro names and without `##` expands to itself -/
theorem tameP_identity {env : List Entry} {a a' : List PTok} (h : TameP env a a') (hod : OnlyDisabled env a)
    (hnc : NoConcat a) : a' = a := by
  induction h with
  | nil => rfl
  | keep env t rest out _ _ _ ih =>
    rw [ih (fun x hx => hod x (by simp [hx])) (fun x hx => hnc x (by simp [hx]))]
  | paste env t1 t2 m rest rest2 out _ hs _ _ _ _ _ =>
    exfalso
    obtain ⟨W1, c, W2, hrest, hc, _⟩ := splitPaste_spec rest rest2 t2 hs
    exact hnc c (by rw [hrest]; simp) hc
  | invoke env n b rest mi e rest' args args' body' R out hsel _ _ _ _ _ _ _ _ _ _ _ _ _ =>
    exfalso
    have := hod ⟨.id n, b⟩ (by simp) n rfl e (List.mem_of_getElem? hsel.get) hsel.name
    rw [hsel.enabled] at this
    cases this


/-! ## `doPastes` along the paste normal form -/

/-- the reference's items (after `replaceParams`) against the model's substituted replacement list -/
inductive ItemsAl : List Item → List PTok → Prop
  | nil : ItemsAl [] []
  | ws (t : PTok) (rest : List PTok) (items : List Item) : t.tok.isWhitespace = true → ItemsAl items rest →
      ItemsAl items (t :: rest)
  | cc (t : PTok) (rest : List PTok) (items : List Item) : t.tok = .concat → ItemsAl items rest →
      ItemsAl (.paste :: items) (t :: rest)
  | tk (t : PTok) (rest : List PTok) (items : List Item) (s : HTok) : t.tok.isWhitespace = false → t.tok ≠ .concat →
      s.tok = t.tok → ItemsAl items rest → ItemsAl (.tok s :: items) (t :: rest)

/-- what is known about the hide set of an item before the hide set of the invocation is added: names of disabled
entries only (empty for a token of the replacement list; the hide set of the tokens around the invocation for a token
of an argument in which nothing was expanded), or the token names no enabled macro (it came out of an expanded
argument, or out of a paste) -/
def GoodItem (env : List Entry) : Item → Prop
  | .tok s => (∀ x ∈ s.hide, x ∈ disabledNames env) ∨ ∀ n, s.tok = .id n → ∀ e ∈ env, e.m.name = n → e.disabled = true
  | _ => False

theorem doPastes_nil (done : List Item) : doPastes done [] = .ok done.reverse := by
  rw [doPastes]

theorem doPastes_tok (done : List Item) (s : HTok) (rest : List Item) :
    doPastes done (.tok s :: rest) = doPastes (.tok s :: done) rest := by
  rw [doPastes]
  intro h; cases h

theorem doPastes_paste (done : List Item) (a b : HTok) (rest : List Item) (k : Tok)
    (h : pasteTok a.tok b.tok = some k) :
    doPastes (.tok a :: done) (.paste :: .tok b :: rest) =
      doPastes done (.tok ⟨k, a.hide.filter (b.hide.contains ·)⟩ :: rest) := by
  rw [doPastes]
  simp [pasteItems, h]

theorem itemsAl_ws_prefix (W rest : List PTok) (items : List Item) (hW : ∀ t ∈ W, t.tok.isWhitespace = true)
    (h : ItemsAl items (W ++ rest)) : ItemsAl items rest := by
  induction W with
  | nil => exact h
  | cons w ws ih =>
    have hw := hW w (by simp)
    rw [List.cons_append] at h
    cases h with
    | ws _ _ _ _ h' => exact ih (fun t ht => hW t (by simp [ht])) h'
    | cc _ _ _ hc _ => rw [hc] at hw; cases hw
    | tk _ _ _ _ hnw _ _ _ => rw [hw] at hnw; cases hnw

/-- the items that face a paste continuation of the model's list -/
theorem itemsAl_splitPaste (rest rest2 : List PTok) (t2 : PTok) (items : List Item)
    (hs : splitPaste rest = some (t2, rest2)) (h : ItemsAl items rest) :
    ∃ s2 items2, items = .paste :: .tok s2 :: items2 ∧ s2.tok = t2.tok ∧ ItemsAl items2 rest2 := by
  obtain ⟨W1, c, W2, hrest, hc, hw1, hw2, ht2, ht2c⟩ := splitPaste_spec rest rest2 t2 hs
  rw [hrest] at h
  have h1 := itemsAl_ws_prefix W1 _ items hw1 h
  cases h1 with
  | ws _ _ _ hw _ => rw [hc] at hw; cases hw
  | tk _ _ _ _ _ hnc _ _ => exact absurd hc hnc
  | cc _ _ items1 _ h2 =>
    have h3 := itemsAl_ws_prefix W2 _ items1 hw2 h2
    cases h3 with
    | ws _ _ _ hw _ => rw [ht2] at hw; cases hw
    | cc _ _ _ hcc _ => exact absurd hcc ht2c
    | tk _ _ items2 s2 _ _ hs2 h4 => exact ⟨s2, items2, rfl, hs2, h4⟩

def itemTokOf : Item → Option Tok
  | .tok s => some s.tok
  | _ => none

/-- **`doPastes` carries out exactly the pastes of the paste normal form**, left to right; what it leaves are token
items that spell the normal form, each an item of the input or a merged one -/
theorem doPastes_pn {env : List Entry} {l : List PTok} {ks : List Tok} (hpn : PN env l ks) :
    ∀ (items : List Item), ItemsAl items l → (∀ it ∈ items, it = .paste ∨ GoodItem env it) →
    ∀ done, ∃ out : List HTok, doPastes done items = .ok (done.reverse ++ out.map Item.tok) ∧
      out.map (·.tok) = ks ∧ ∀ s ∈ out, GoodItem env (.tok s) := by
  induction hpn with
  | nil =>
    intro items hal _ done
    cases hal
    exact ⟨[], by simp [doPastes_nil], rfl, fun s hs => (by cases hs)⟩
  | ws t rest ks hw _ ih =>
    intro items hal hgood done
    cases hal with
    | ws _ _ _ _ h' => exact ih items h' hgood done
    | cc _ _ _ hc _ => rw [hc] at hw; cases hw
    | tk _ _ _ _ hnw _ _ _ => rw [hw] at hnw; cases hnw
  | tok t rest ks hw hc _ _ ih =>
    intro items hal hgood done
    cases hal with
    | ws _ _ _ hw' _ => rw [hw] at hw'; cases hw'
    | cc _ _ _ hcc _ => exact absurd hcc hc
    | tk _ _ items' s _ _ hs h' =>
      obtain ⟨out, h1, h2, h3⟩ := ih items' h' (fun it hit => hgood it (by simp [hit])) (.tok s :: done)
      refine ⟨s :: out, ?_, by simp [hs, h2], ?_⟩
      · rw [doPastes_tok, h1]; simp
      · intro x hx
        rcases List.mem_cons.mp hx with rfl | hx
        · rcases hgood (.tok x) (by simp) with hh | hh
          · cases hh
          · exact hh
        · exact h3 x hx
  | paste t1 t2 m rest rest2 ks hw hs hp hod _ ih =>
    intro items hal hgood done
    cases hal with
    | ws _ _ _ hw' _ => rw [hw] at hw'; cases hw'
    | cc _ _ _ hcc _ =>
      obtain ⟨⟨a, ha⟩, _, _, _⟩ := pasteTokens_ok_shape _ _ _ hp
      rw [hcc] at ha
      rcases ha with ha | ha | ha <;> cases ha
    | tk _ _ items1 s1 _ _ hs1 h' =>
      obtain ⟨s2, items2, hitems, hs2, h2⟩ := itemsAl_splitPaste rest rest2 t2 items1 hs h'
      subst hitems
      obtain ⟨_, _, hpt, hmk⟩ := pasteTokens_ok_shape _ _ _ hp
      have hpt' : pasteTok s1.tok s2.tok = some m.tok := by rw [hs1, hs2]; exact hpt
      -- the merged item against the merged token
      have hmw : m.tok.isWhitespace = false ∧ m.tok ≠ .concat := by
        obtain ⟨x, hx | hx | hx⟩ := hmk <;> simp [hx, Tok.isWhitespace]
      have hal2 : ItemsAl (.tok ⟨m.tok, s1.hide.filter (s2.hide.contains ·)⟩ :: items2) (m :: rest2) :=
        ItemsAl.tk m rest2 items2 _ hmw.1 hmw.2 rfl h2
      obtain ⟨out, h1, h2', h3⟩ := ih _ hal2 (by
        intro it hit
        rcases List.mem_cons.mp hit with rfl | hit
        · right
          right
          intro n hn e he hname
          exact hod m (by simp) n hn e he hname
        · exact hgood it (by simp [hit])) done
      refine ⟨out, ?_, h2', h3⟩
      rw [doPastes_tok, doPastes_paste done s1 s2 items2 m.tok hpt', h1]


/-! ## `replaceParams` on a replacement list with `##` -/

/-- the last token passed that is not white space -/
def nextPrev (prev : Option Tok) (t : PTok) : Option Tok := if t.tok.isWhitespace then prev else some t.tok

/-- the items `replaceParams` makes of the rest of a replacement list; `prev`: the last token passed that is not
white space.  A parameter next to `##` is replaced by the raw argument, any other by the expanded one. -/
def itemsP (largs eargs : List (List HTok)) : Option Tok → List PTok → List Item
  | _, [] => []
  | prev, t :: rest =>
    if t.tok.isWhitespace then itemsP largs eargs prev rest
    else match t.tok with
      | .concat => .paste :: itemsP largs eargs (some t.tok) rest
      | .arg i =>
        (if prev == some .concat || firstTok rest == some .concat then largs.getD i [] else eargs.getD i []).map
          Item.tok ++ itemsP largs eargs (some t.tok) rest
      | k => .tok ⟨specBodyTok k, []⟩ :: itemsP largs eargs (some t.tok) rest

/-- conditions on a replacement list (with `##`) under which `itemsP` describes `replaceParams` -/
structure BodyOK (np : Nat) (mb : List PTok) : Prop where
  noHash : ∀ t ∈ mb, t.tok ≠ .hashhash
  noParamName : ∀ t ∈ mb, ∀ s, t.tok = .id s → ∀ i, s ≠ paramName i
  argRange : ∀ t ∈ mb, ∀ i, t.tok = .arg i → i < np

theorem BodyOK.tail {np : Nat} {t : PTok} {r : List PTok} (h : BodyOK np (t :: r)) : BodyOK np r :=
  ⟨fun x hx => h.noHash x (by simp [hx]), fun x hx => h.noParamName x (by simp [hx]),
   fun x hx => h.argRange x (by simp [hx])⟩

theorem specBodyTok_eq_hashhash {k : Tok} (h : k ≠ .hashhash) : specBodyTok k = .hashhash ↔ k = .concat := by
  cases k <;> simp [specBodyTok] at h ⊢

theorem pasteParams_ws (prev : Option Tok) (t : PTok) (r : List PTok) (hw : t.tok.isWhitespace = true) :
    pasteParams prev (t :: r) = pasteParams prev r := by
  rw [pasteParams]
  simp only [hw, if_true]
  cases htk : t.tok <;> simp [htk, Tok.isWhitespace] at hw <;> rfl

/-- `replaceParams` on the rest of a replacement list -/
theorem replaceParams_paste (ex : List HTok → Except SErr (List HTok)) (np : Nat) (largs eargs : List (List HTok))
    (hex : ∀ i, i < np → ∃ ea, eargs[i]? = some ea ∧ ex (largs.getD i []) = .ok ea)
    (rest : List PTok) : ∀ (prev : Option Tok), BodyOK np rest → prev ≠ some .hashhash →
    (∀ i, i ∈ pasteParams prev rest → (largs.getD i []).isEmpty = false) →
    replaceParams ex (paramNames np) largs (prev.map specBodyTok) ((ppTokens rest).map specBodyTok) =
      .ok (itemsP largs eargs prev rest) := by
  induction rest with
  | nil => intro prev _ _ _; rfl
  | cons t r ih =>
    intro prev hb hprevne hne
    by_cases hw : t.tok.isWhitespace = true
    · rw [ppTokens_cons_ws t r hw]
      simp only [itemsP, hw, if_true]
      exact ih prev hb.tail hprevne (by rw [← pasteParams_ws prev t r hw]; exact hne)
    · have hw' : t.tok.isWhitespace = false := by simpa using hw
      rw [ppTokens_cons t r hw', List.map_cons]
      have htne : t.tok ≠ .hashhash := hb.noHash t (by simp)
      -- the neighbours
      have hprev : (prev.map specBodyTok = some Tok.hashhash) ↔ prev = some .concat := by
        cases prev with
        | none => simp
        | some k =>
          have := specBodyTok_eq_hashhash (k := k) (fun hh => hprevne (by rw [hh]))
          simp [this]
      have hnext : (((ppTokens r).map specBodyTok).head? = some Tok.hashhash) ↔ firstTok r = some .concat := by
        rw [firstTok_eq_head]
        cases hpp : ppTokens r with
        | nil => simp
        | cons k ks =>
          obtain ⟨x, hx, hxk⟩ := mem_ppTokens (l := r) (k := k) (by rw [hpp]; simp)
          have := specBodyTok_eq_hashhash (k := k) (by rw [← hxk]; exact hb.noHash x (by simp [hx]))
          simp [this]
      have hrec := ih (some t.tok) hb.tail (by simpa using htne)
      simp only [Option.map_some] at hrec
      have hpp : ∀ j, j ∈ pasteParams (some t.tok) r → j ∈ pasteParams prev (t :: r) := by
        intro j hj
        unfold pasteParams
        simp only [hw', Bool.false_eq_true, if_false]
        split
        · split
          · exact List.mem_cons_of_mem _ hj
          · exact hj
        · exact hj
      have hrec' := hrec (fun j hj => hne j (hpp j hj))
      unfold replaceParams
      simp only [itemsP, hw', Bool.false_eq_true, if_false]
      cases htk : t.tok with
      | concat =>
        rw [htk] at hrec'
        have hsb : specBodyTok Tok.concat = .hashhash := rfl
        rw [hsb] at hrec'
        simp only [hsb, if_true, hrec']
        rfl
      | arg i =>
        have hi : i < np := hb.argRange t (by simp) i htk
        obtain ⟨ea, hea, hexa⟩ := hex i hi
        rw [htk] at hrec'
        have hne1 : specBodyTok (Tok.arg i) ≠ .hashhash := by simp [specBodyTok]
        simp only [hne1, if_false, paramIndex_arg np i hi, hrec']
        by_cases hadj : (prev == some .concat || firstTok r == some .concat) = true
        · have hntp : (decide (prev.map specBodyTok = some Tok.hashhash) ||
              decide (((ppTokens r).map specBodyTok).head? = some Tok.hashhash)) = true := by
            simp only [Bool.or_eq_true, beq_iff_eq] at hadj
            rcases hadj with h1 | h1
            · simp [hprev.mpr h1]
            · simp [hnext.mpr h1]
          have hnemp : (largs.getD i []).isEmpty = false := by
            apply hne i
            unfold pasteParams
            simp only [htk, hadj, if_true]
            exact List.mem_cons_self
          simp only [hntp, if_true, hadj, hnemp, Bool.false_eq_true, if_false]
        · have hntp : (decide (prev.map specBodyTok = some Tok.hashhash) ||
              decide (((ppTokens r).map specBodyTok).head? = some Tok.hashhash)) = false := by
            simp only [Bool.or_eq_true, beq_iff_eq, not_or] at hadj
            have h1 : ¬ (prev.map specBodyTok = some Tok.hashhash) := fun hh => hadj.1 (hprev.mp hh)
            have h2 : ¬ (((ppTokens r).map specBodyTok).head? = some Tok.hashhash) := fun hh => hadj.2 (hnext.mp hh)
            rw [decide_eq_false h1, decide_eq_false h2]; rfl
          have hadj' : (prev == some .concat || firstTok r == some .concat) = false := by simpa using hadj
          simp only [hntp, Bool.false_eq_true, if_false, hexa, hadj']
          simp [List.getD, hea]
      | hashhash => exact absurd htk htne
      | _ =>
        rw [htk] at hrec'
        have h1 : ∀ i, t.tok ≠ .arg i := by intro i hh; rw [htk] at hh; cases hh
        have hpi := paramIndex_other np t.tok h1 (fun s hs i => hb.noParamName t (by simp) s hs i)
        rw [htk] at hpi
        have hne1 : specBodyTok t.tok ≠ .hashhash := by
          rw [htk]; simp [specBodyTok]
        rw [htk] at hne1
        simp only [hne1, if_false, hpi, hrec']
        rfl

/-! ## the items against the model's substituted replacement list -/

theorem tameP_out_noConcat {env : List Entry} {l out : List PTok} (h : TameP env l out) : NoConcat out := by
  induction h with
  | nil => exact fun t ht => (by cases ht)
  | keep env t rest out hk _ _ ih =>
    intro x hx
    rcases List.mem_cons.mp hx with rfl | hx
    · exact hk.1
    · exact ih x hx
  | paste _ _ _ _ _ _ _ _ _ _ _ _ _ ih => exact ih
  | invoke _ _ _ _ _ _ _ _ _ _ _ _ _ _ _ _ _ _ _ _ _ _ _ _ ihbody ihrest =>
    exact noConcat_append.mpr ⟨ihbody, ihrest⟩

theorem itemsAl_append_arg (ls : List HTok) (a rest : List PTok) (items : List Item)
    (htok : ls.map (·.tok) = ppTokens a) (hnc : NoConcat a) (h : ItemsAl items rest) :
    ItemsAl (ls.map Item.tok ++ items) (a ++ rest) := by
  induction a generalizing ls with
  | nil =>
    have : ls = [] := by simpa [ppTokens_nil] using htok
    subst this; exact h
  | cons t r ih =>
    have hr : NoConcat r := fun x hx => hnc x (by simp [hx])
    by_cases hw : t.tok.isWhitespace = true
    · rw [ppTokens_cons_ws t r hw] at htok
      exact ItemsAl.ws t _ _ hw (ih ls htok hr)
    · have hw' : t.tok.isWhitespace = false := by simpa using hw
      rw [ppTokens_cons t r hw'] at htok
      cases ls with
      | nil => simp at htok
      | cons s ls' =>
        simp only [List.map_cons, List.cons.injEq] at htok
        exact ItemsAl.tk t _ _ s hw' (hnc t (by simp)) htok.1 (ih ls' htok.2 hr)


theorem pasteParams_tail (prev : Option Tok) (t : PTok) (r : List PTok) (j : Nat)
    (h : j ∈ pasteParams (nextPrev prev t) r) : j ∈ pasteParams prev (t :: r) := by
  rw [pasteParams]
  unfold nextPrev at h
  split
  · split
    · exact List.mem_cons_of_mem _ h
    · exact h
  · exact h

theorem specBodyTok_plain (k : Tok) (h1 : ∀ i, k ≠ .arg i) (h2 : k ≠ .concat) : specBodyTok k = k := by
  cases k <;> first | rfl | exact absurd rfl (h1 _) | exact absurd rfl h2

/-- the items of the reference line up with the replacement list as the model substituted it -/
theorem itemsP_al (largs eargs : List (List HTok)) (args' : List (List PTok)) (mb : List PTok) :
    ∀ (prev : Option Tok) (body' : List PTok), substitute mb args' = .ok body' →
    (∀ (i : Nat) (a' : List PTok), args'[i]? = some a' → NoConcat a') →
    (∀ t ∈ mb, ∀ i, t.tok = .arg i → (eargs.getD i []).map (·.tok) = ppTokens (args'.getD i [])) →
    (∀ i, i ∈ pasteParams prev mb → (largs.getD i []).map (·.tok) = ppTokens (args'.getD i [])) →
    ItemsAl (itemsP largs eargs prev mb) body' := by
  induction mb with
  | nil => intro prev body' h _ _ _; simp only [substitute] at h; cases h; exact ItemsAl.nil
  | cons t r ih =>
    intro prev body' h hnc hexp hraw
    have hexp' : ∀ x ∈ r, ∀ i, x.tok = .arg i → (eargs.getD i []).map (·.tok) = ppTokens (args'.getD i []) :=
      fun x hx => hexp x (by simp [hx])
    unfold substitute at h
    split at h
    · rename_i i hti
      split at h
      · cases h
      · rename_i a hget
        cases hs : substitute r args' with
        | error e => simp [hs] at h
        | ok r' =>
          simp only [hs] at h
          cases h
          have hw' : t.tok.isWhitespace = false := by rw [hti]; rfl
          have hrec := ih (some t.tok) r' hs hnc hexp' (fun j hj => hraw j (by
            apply pasteParams_tail; simpa [nextPrev, hw'] using hj))
          simp only [itemsP, hw', Bool.false_eq_true, if_false, hti]
          have hgd : args'.getD i [] = a := by simp [List.getD, hget]
          apply itemsAl_append_arg _ a r' _ ?_ (hnc i a hget)
          · rw [hti] at hrec; exact hrec
          · split
            · rename_i hadj
              have := hraw i (by
                rw [pasteParams]
                simp only [hti, hadj, if_true]
                exact List.mem_cons_self)
              rw [hgd] at this; exact this
            · have := hexp t (by simp) i hti
              rw [hgd] at this; exact this
    · rename_i hnarg
      cases hs : substitute r args' with
      | error e => simp [hs] at h
      | ok r' =>
        simp only [hs] at h
        cases h
        by_cases hw : t.tok.isWhitespace = true
        · simp only [itemsP, hw, if_true]
          exact ItemsAl.ws t r' _ hw (ih prev r' hs hnc hexp' (fun j hj => hraw j (by
            apply pasteParams_tail; simpa [nextPrev, hw] using hj)))
        · have hw' : t.tok.isWhitespace = false := by simpa using hw
          have hrec := ih (some t.tok) r' hs hnc hexp' (fun j hj => hraw j (by
            apply pasteParams_tail; simpa [nextPrev, hw'] using hj))
          simp only [itemsP, hw', Bool.false_eq_true, if_false]
          cases htk : t.tok with
          | concat =>
            rw [htk] at hrec
            exact ItemsAl.cc t r' _ htk hrec
          | arg i => exact absurd htk (hnarg i)
          | _ =>
            rw [htk] at hrec
            refine ItemsAl.tk t r' _ _ hw' (by rw [htk]; simp) ?_ hrec
            rw [htk]; rfl

/-- every item `replaceParams` makes is a token of the replacement list (empty hide set) or comes out of an
argument whose names are disabled -/
theorem itemsP_good (env : List Entry) (largs eargs : List (List HTok)) (mb : List PTok)
    (he : ∀ a ∈ eargs, ∀ s ∈ a, GoodItem env (.tok s)) :
    ∀ (prev : Option Tok), (∀ i, i ∈ pasteParams prev mb → ∀ s ∈ largs.getD i [], GoodItem env (.tok s)) →
    ∀ it ∈ itemsP largs eargs prev mb, it = .paste ∨ GoodItem env it := by
  induction mb with
  | nil => intro prev _ it hit; simp [itemsP] at hit
  | cons t r ih =>
    intro prev hl it hit
    have hl' : ∀ i, i ∈ pasteParams (nextPrev prev t) r → ∀ s ∈ largs.getD i [], GoodItem env (.tok s) :=
      fun i hi => hl i (pasteParams_tail prev t r i hi)
    unfold itemsP at hit
    split at hit
    · rename_i hw
      exact ih prev (by simpa [nextPrev, hw] using hl') it hit
    · rename_i hw
      have hl'' : ∀ i, i ∈ pasteParams (some t.tok) r → ∀ s ∈ largs.getD i [], GoodItem env (.tok s) := by
        simpa [nextPrev, hw] using hl'
      split at hit
      · rcases List.mem_cons.mp hit with rfl | hit
        · exact Or.inl rfl
        · exact ih _ hl'' it hit
      · rename_i i hti
        rcases List.mem_append.mp hit with hm | hm
        · right
          obtain ⟨s, hs, rfl⟩ := List.mem_map.mp hm
          split at hs
          · rename_i hadj
            exact hl i (by
              rw [pasteParams]
              simp only [hti, hadj, if_true]
              exact List.mem_cons_self) s hs
          · cases hg : eargs[i]? with
            | none => simp [List.getD, hg] at hs
            | some a =>
              simp only [List.getD, hg, Option.getD_some] at hs
              exact he a (List.mem_of_getElem? hg) s hs
        · exact ih _ hl'' it hm
      · rcases List.mem_cons.mp hit with rfl | hit
        · exact Or.inr (Or.inl (fun x hx => by cases hx))
        · exact ih _ hl'' it hit

/-- **`subst` on a replacement list with `##`**: the result spells the paste normal form of the replacement list as
the model substituted it; every token of it is a token of the replacement list (hide set = the new hide set) or names
no enabled macro -/
theorem subst_paste (env' : List Entry) (m : Macro) (np : Nat)
    (hparams : (ofMacro m).params.getD [] = paramNames np) (largs eargs : List (List HTok))
    (args' : List (List PTok)) (hsNew : List String) (body' : List PTok) (ks : List Tok)
    (hbody : BodyOK np m.body)
    (hne : ∀ i, i ∈ pasteParams none m.body → (largs.getD i []).isEmpty = false)
    (hsub : substitute m.body args' = .ok body')
    (hncargs : ∀ (i : Nat) (a' : List PTok), args'[i]? = some a' → NoConcat a')
    (hexp : ∀ t ∈ m.body, ∀ i, t.tok = .arg i → (eargs.getD i []).map (·.tok) = ppTokens (args'.getD i []))
    (hraw : ∀ i, i ∈ pasteParams none m.body → (largs.getD i []).map (·.tok) = ppTokens (args'.getD i []))
    (hgl : ∀ i, i ∈ pasteParams none m.body → ∀ s ∈ largs.getD i [], GoodItem env' (.tok s))
    (hge : ∀ a ∈ eargs, ∀ s ∈ a, GoodItem env' (.tok s))
    (hpn : PN env' body' ks) :
    ∃ out : List HTok,
      (∀ ex : List HTok → Except SErr (List HTok),
        (∀ i, i < np → ∃ ea, eargs[i]? = some ea ∧ ex (largs.getD i []) = .ok ea) →
        subst ex (ofMacro m) largs hsNew = .ok (out.map (fun s => ⟨s.tok, s.hide ++ hsNew⟩))) ∧
      out.map (·.tok) = ks ∧ ∀ s ∈ out, GoodItem env' (.tok s) := by
  have hal := itemsP_al largs eargs args' m.body none body' hsub hncargs hexp hraw
  obtain ⟨out, hdp, hks, hgood⟩ := doPastes_pn hpn _ hal (itemsP_good env' largs eargs m.body hge none hgl) []
  refine ⟨out, ?_, hks, hgood⟩
  intro ex hex
  have hrp := replaceParams_paste ex np largs eargs hex m.body none hbody (by simp) hne
  unfold subst
  rw [hparams]
  have hb : (ofMacro m).body = (ppTokens m.body).map specBodyTok := rfl
  rw [hb]
  simp only [Option.map_none] at hrp
  rw [hrp]
  simp only
  rw [hdp]
  simp [List.filterMap_map, Function.comp_def]

/-! ## splitting the paste normal form at an argument list -/

theorem firstTok_mem {l : List PTok} {k : Tok} (h : firstTok l = some k) : ∃ t ∈ l, t.tok = k := by
  induction l with
  | nil => simp [firstTok] at h
  | cons x r ih =>
    unfold firstTok at h
    split at h
    · obtain ⟨t, ht, htk⟩ := ih h; exact ⟨t, by simp [ht], htk⟩
    · simp only [Option.some.injEq] at h; exact ⟨x, by simp, h⟩

theorem firstTok_append_of_some (A B : List PTok) (k : Tok) (h : firstTok A = some k) : firstTok (A ++ B) = some k := by
  induction A with
  | nil => simp [firstTok] at h
  | cons t r ih =>
    by_cases hw : t.tok.isWhitespace = true
    · simp only [firstTok, hw, if_true] at h
      simp only [List.cons_append, firstTok, hw, if_true]
      exact ih h
    · simp only [firstTok, hw] at h
      simp only [List.cons_append, firstTok, hw]
      exact h

theorem firstTok_snoc_nonws (init : List PTok) (x : PTok) (hx : x.tok.isWhitespace = false) :
    ∃ k, firstTok (init ++ [x]) = some k := by
  induction init with
  | nil => exact ⟨x.tok, by simp [firstTok, hx]⟩
  | cons t r ih =>
    by_cases hw : t.tok.isWhitespace = true
    · obtain ⟨k, hk⟩ := ih
      exact ⟨k, by simp only [List.cons_append, firstTok, hw, if_true]; exact hk⟩
    · exact ⟨t.tok, by simp [firstTok, hw]⟩

/-- the paste normal form of `A ++ B` when `A` has no `##` and ends in `)` -/
theorem pn_split (env : List Entry) (init B : List PTok) (b : Bool) (ks : List Tok)
    (hnc : NoConcat init) (h : PN env ((init ++ [⟨.rparen, b⟩]) ++ B) ks) :
    ∃ ks', ks = ppTokens (init ++ [⟨.rparen, b⟩]) ++ ks' ∧ PN env B ks' := by
  induction init generalizing ks with
  | nil =>
    simp only [List.nil_append, List.cons_append] at h
    cases h with
    | ws _ _ _ hw _ => cases hw
    | tok _ _ _ _ _ _ h' => exact ⟨_, rfl, h'⟩
    | paste _ t2 m _ rest2 _ _ _ hp _ _ =>
      obtain ⟨⟨a, ha⟩, _, _, _⟩ := pasteTokens_ok_shape _ _ _ hp
      rcases ha with ha | ha | ha <;> cases ha
  | cons t r ih =>
    have hr : NoConcat r := fun x hx => hnc x (by simp [hx])
    simp only [List.cons_append] at h
    cases h with
    | ws _ _ _ hw h' =>
      obtain ⟨ks', h1, h2⟩ := ih _ hr (by simpa using h')
      refine ⟨ks', ?_, h2⟩
      rw [List.cons_append, ppTokens_cons_ws t _ hw]; exact h1
    | tok _ _ ks1 hw _ _ h' =>
      obtain ⟨ks', h1, h2⟩ := ih _ hr (by simpa using h')
      refine ⟨ks', ?_, h2⟩
      rw [List.cons_append, ppTokens_cons t _ hw, h1]; rfl
    | paste _ t2 m _ rest2 _ _ hs _ _ _ =>
      exfalso
      have hf := firstTok_of_splitPaste _ _ _ hs
      obtain ⟨k, hk⟩ := firstTok_snoc_nonws r ⟨.rparen, b⟩ rfl
      have hk2 := firstTok_append_of_some (r ++ [⟨.rparen, b⟩]) B k hk
      simp only [List.append_assoc] at hk2 hf
      rw [hk2] at hf
      obtain ⟨x, hx, hxk⟩ := firstTok_mem hk
      have hkc : k = .concat := by simpa using hf
      rcases List.mem_append.mp hx with hm | hm
      · exact hr x hm (by rw [hxk, hkc])
      · simp only [List.mem_singleton] at hm
        subst hm
        rw [hkc] at hxk; cases hxk

/-- a paste normal form that starts with `(`: so does the list -/
theorem pn_head_lparen {env : List Entry} {l : List PTok} {ks : List Tok} (h : PN env l ks) :
    ∀ ks', ks = Tok.lparen :: ks' → firstTok l = some .lparen := by
  induction h with
  | nil => intro ks' hh; cases hh
  | ws t rest ks hw _ ih => intro ks' hh; simp only [firstTok, hw, if_true]; exact ih ks' hh
  | tok t rest ks hw _ _ _ _ =>
    intro ks' hh
    simp only [List.cons.injEq] at hh
    simp only [firstTok, hh.1]
    rfl
  | paste t1 t2 m rest rest2 ks hw _ hp _ _ ih =>
    intro ks' hh
    have := ih ks' hh
    obtain ⟨_, _, _, ⟨x, hx⟩⟩ := pasteTokens_ok_shape _ _ _ hp
    have hmw : m.tok.isWhitespace = false := by rcases hx with hx | hx | hx <;> simp [hx, Tok.isWhitespace]
    simp only [firstTok, hmw, Bool.false_eq_true, if_false, Option.some.injEq] at this
    rcases hx with hx | hx | hx <;> rw [hx] at this <;> cases this



/-! ## inversion of the paste normal form -/

theorem pn_inv_nil {env : List Entry} {ks : List Tok} (h : PN env [] ks) : ks = [] := by
  cases h; rfl

theorem pn_inv_ws {env : List Entry} {t : PTok} {rest : List PTok} {ks : List Tok} (h : PN env (t :: rest) ks)
    (hw : t.tok.isWhitespace = true) : PN env rest ks := by
  cases h with
  | ws _ _ _ _ h' => exact h'
  | tok _ _ _ hnw _ _ _ => rw [hw] at hnw; cases hnw
  | paste _ _ _ _ _ _ hnw _ _ _ _ => rw [hw] at hnw; cases hnw

theorem pn_inv_tok {env : List Entry} {t : PTok} {rest : List PTok} {ks : List Tok} (h : PN env (t :: rest) ks)
    (hw : t.tok.isWhitespace = false) (hs : splitPaste rest = none) :
    ∃ ks', ks = t.tok :: ks' ∧ PN env rest ks' := by
  cases h with
  | ws _ _ _ hw2 _ => rw [hw] at hw2; cases hw2
  | tok _ _ ks' _ _ _ h' => exact ⟨ks', rfl, h'⟩
  | paste _ _ _ _ _ _ _ hs2 _ _ _ => rw [hs] at hs2; cases hs2

theorem pn_inv_paste {env : List Entry} {t1 t2 : PTok} {rest rest2 : List PTok} {ks : List Tok}
    (h : PN env (t1 :: rest) ks) (hw : t1.tok.isWhitespace = false) (hs : splitPaste rest = some (t2, rest2)) :
    ∃ m, pasteTokens t1 t2 = .ok m ∧ PN env (m :: rest2) ks := by
  cases h with
  | ws _ _ _ hw2 _ => rw [hw] at hw2; cases hw2
  | tok _ _ _ _ _ hs2 _ => rw [hs] at hs2; cases hs2
  | paste _ t2' m _ rest2' _ _ hs2 hp _ h' =>
    rw [hs] at hs2
    simp only [Option.some.injEq, Prod.mk.injEq] at hs2
    obtain ⟨rfl, rfl⟩ := hs2
    exact ⟨m, hp, h'⟩

/-! ## pieces of the `invoke` case -/

/-- `WFMacro` without "no `##`" -/
structure WFMacroP (m : Macro) : Prop where
  noHash : ∀ t ∈ m.body, t.tok ≠ .hashhash
  noParamName : ∀ t ∈ m.body, ∀ s, t.tok = .id s → ∀ i, s ≠ paramName i
  argRange : ∀ t ∈ m.body, ∀ i, t.tok = .arg i → i < m.numParams ∧ m.isFunction = true

theorem wfP_disable {env : List Entry} {mi : Nat} (h : ∀ e ∈ env, WFMacroP e.m) :
    ∀ e ∈ disable env mi, WFMacroP e.m := by
  intro e he
  obtain ⟨e0, he0, hm, _⟩ := mem_disable he
  rw [hm]; exact h e0 he0

theorem mem_pasteParams_arg (mb : List PTok) : ∀ (prev : Option Tok) (i : Nat), i ∈ pasteParams prev mb →
    ∃ t ∈ mb, t.tok = .arg i := by
  induction mb with
  | nil => intro prev i h; simp [pasteParams] at h
  | cons t r ih =>
    intro prev i h
    rw [pasteParams] at h
    split at h
    · rename_i j hj
      split at h
      · rcases List.mem_cons.mp h with rfl | h
        · exact ⟨t, by simp, hj⟩
        · obtain ⟨x, hx, hxk⟩ := ih _ i h; exact ⟨x, by simp [hx], hxk⟩
      · obtain ⟨x, hx, hxk⟩ := ih _ i h; exact ⟨x, by simp [hx], hxk⟩
    · obtain ⟨x, hx, hxk⟩ := ih _ i h; exact ⟨x, by simp [hx], hxk⟩

/-- the token at the end of the expanded replacement list is kept when the rest of the source follows it -/
theorem keep_tailP {env : List Entry} {n : String} {mi : Nat} {e : Entry} (hsel : Selects env n mi e)
    (Rs r0 : List HTok) (g : HTok) (R rest' : List PTok) (lrest : List HTok)
    (hRs : Rs = r0 ++ [g]) (hroR : RelOut (disable env mi) Rs R) (hkeep : KeepS (specTable env) g [])
    (hnf : NoFire env mi R rest') (hrest : PN env rest' (lrest.map (·.tok))) :
    KeepS (specTable env) g lrest := by
  intro x hx
  rcases hkeep x hx with h | h | ⟨m, ps, hfind, hpar, _⟩
  · exact Or.inl h
  · exact Or.inr (Or.inl h)
  · by_cases hlp : ∃ h rest'', lrest = ⟨.lparen, h⟩ :: rest''
    · left
      obtain ⟨h0, rest'', hl⟩ := hlp
      have hsp : startsParen rest' = true := by
        unfold startsParen
        rw [pn_head_lparen hrest (rest''.map (·.tok)) (by rw [hl]; rfl)]
        rfl
      obtain ⟨ex, hex, hm, hname⟩ := find_specTable_some hfind
      have hfn : ex.m.isFunction = true := by
        rw [hm] at hpar
        cases hf : ex.m.isFunction with
        | true => rfl
        | false => simp [ofMacro, hf] at hpar
      obtain ⟨j, hj⟩ := List.mem_iff_getElem?.mp hex
      have hpp : ppTokens R = r0.map (·.tok) ++ [Tok.id x] := by
        rw [← hroR.toks, hRs, List.map_append, List.map_cons, hx]; rfl
      obtain ⟨R0, b, R1, hR, hws⟩ := last_tok_split R _ _ hpp
      have hg : g ∈ Rs := by rw [hRs]; simp
      have hin : x ∈ g.hide := by
        apply hroR.sup g hg
        rw [disabledNames_disable hsel.get]
        rcases hnf R0 x b R1 hR hws hsp j ex hj hname hfn with hd | hjm
        · exact Or.inr (mem_disabledNames.mpr ⟨ex, hex, hd, hname⟩)
        · subst hjm
          rw [hsel.get] at hj
          cases hj
          exact Or.inl hname.symm
      simpa using hin
    · right; right
      exact ⟨m, ps, hfind, hpar, fun h rest'' heq => hlp ⟨h, rest'', heq⟩⟩

theorem invoke_tailP {env : List Entry} {n : String} {mi : Nat} {e : Entry} (hsel : Selects env n mi e)
    (b Rs : List HTok) (R rest' out : List PTok) (lrest r2 : List HTok)
    (hsR : SExp (specTable env) b Rs) (hroR : RelOut (disable env mi) Rs R) (hnf : NoFire env mi R rest')
    (hs2 : SExp (specTable env) lrest r2) (hro2 : RelOut env r2 out) (hrest : PN env rest' (lrest.map (·.tok))) :
    SExp (specTable env) (b ++ lrest) (Rs ++ r2) ∧ RelOut env (Rs ++ r2) (R ++ out) := by
  obtain ⟨r0, tail, hRs, hlen, hkeep, hctx⟩ := sexp_context hsR
  have htail : SExp (specTable env) (tail ++ lrest) (tail ++ r2) := by
    cases tail with
    | nil => exact hs2
    | cons g tl =>
      have : tl = [] := by
        cases tl with
        | nil => rfl
        | cons _ _ => simp at hlen
      subst this
      exact SExp.keep g lrest r2
        (keep_tailP hsel Rs r0 g R rest' lrest hRs hroR (hkeep g (by simp)) hnf hrest) hs2
  have h1 := hctx lrest (tail ++ r2) htail
  rw [← List.append_assoc, ← hRs] at h1
  refine ⟨h1, ?_, ?_⟩
  · rw [List.map_append, ppTokens_append, hroR.toks, hro2.toks]
  · intro t ht x hx
    rcases List.mem_append.mp ht with h | h
    · apply hroR.sup t h
      rw [disabledNames_disable hsel.get]
      exact Or.inr hx
    · exact hro2.sup t h x hx

/-- what `subst_paste` returns is related to the replacement list as the model substituted it -/
theorem relP_body {env : List Entry} {n : String} {mi : Nat} {e : Entry} (hsel : Selects env n mi e)
    (hsNew : List String) (out : List HTok) (body' : List PTok)
    (hsup : ∀ x, (x = n ∨ x ∈ disabledNames env) → x ∈ hsNew)
    (hsub : ∀ x ∈ hsNew, x = n ∨ x ∈ disabledNames env)
    (hpn : PN (disable env mi) body' (out.map (·.tok)))
    (hgood : ∀ s ∈ out, GoodItem (disable env mi) (.tok s)) :
    RelP (disable env mi) (out.map (fun s => ⟨s.tok, s.hide ++ hsNew⟩)) body' := by
  have hdn : ∀ x, x ∈ disabledNames (disable env mi) ↔ x = n ∨ x ∈ disabledNames env := by
    intro x; rw [disabledNames_disable hsel.get, hsel.name]
  refine ⟨?_, ?_, ?_⟩
  · simpa [List.map_map, Function.comp_def] using hpn
  · intro t ht x hx
    obtain ⟨s, _, rfl⟩ := List.mem_map.mp ht
    exact List.mem_append_right _ (hsup x ((hdn x).mp hx))
  · intro t ht k hk hen y hy
    obtain ⟨s, hs, rfl⟩ := List.mem_map.mp ht
    simp only at hk hy
    rcases hgood s hs with h | h
    · rcases List.mem_append.mp hy with hy | hy
      · exact h y hy
      · exact (hdn y).mpr (hsub y hy)
    · exfalso
      obtain ⟨e', he', hname, hen'⟩ := hen
      have := h k hk e' he' hname
      rw [this] at hen'; cases hen'


theorem goodItem_of_onlyDisabled {env : List Entry} {mi : Nat} (a' : List PTok) (ea : List HTok)
    (hod : OnlyDisabled env a') (htok : ea.map (·.tok) = ppTokens a') :
    ∀ s ∈ ea, GoodItem (disable env mi) (.tok s) := by
  intro s hs
  right
  intro k hk e' he' hname
  have hmem : Tok.id k ∈ ppTokens a' := by
    rw [← htok, ← hk]; exact List.mem_map.mpr ⟨s, hs, rfl⟩
  obtain ⟨pt, hpt, hptk⟩ := mem_ppTokens hmem
  obtain ⟨e0, he0, hm, himp⟩ := mem_disable he'
  exact himp (hod pt hpt k hptk e0 he0 (by rw [← hm]; exact hname))

/-- the tokens of an argument in which nothing was expanded: the hide set of the tokens around the invocation -/
theorem goodItem_of_exact {env : List Entry} {n : String} {mi : Nat} {e : Entry} (hsel : Selects env n mi e)
    (ea : List HTok) (hex : Exact env ea) : ∀ s ∈ ea, GoodItem (disable env mi) (.tok s) := by
  intro s hs
  by_cases hen : ∃ k, s.tok = .id k ∧ ∃ e0 ∈ env, e0.m.name = k ∧ e0.disabled = false
  · left
    obtain ⟨k, hk, he⟩ := hen
    intro x hx
    rw [disabledNames_disable hsel.get]
    exact Or.inr (hex s hs k hk he x hx)
  · right
    intro k hk e' he' hname
    obtain ⟨e0, he0, hm, himp⟩ := mem_disable he'
    cases hd : e0.disabled with
    | true => exact himp hd
    | false => exact absurd ⟨k, hk, e0, he0, by rw [← hm]; exact hname, hd⟩ hen

/-- a list without `##` none of whose tokens starts an operation: the only derivation keeps every token -/
theorem tameP_allKept {env : List Entry} {a a' : List PTok} (h : TameP env a a') :
    AllKept env a → NoConcat a → a' = a := by
  induction h with
  | nil env => intro _ _; rfl
  | keep env t rest out _ _ _ ih => intro hk hnc; rw [ih hk.2 (fun x hx => hnc x (by simp [hx]))]
  | paste env t1 t2 m rest rest2 out _ hs _ _ _ _ _ =>
    intro _ hnc
    exfalso
    obtain ⟨W1, c, W2, hrest, hc, _, _, _, _⟩ := splitPaste_spec rest rest2 t2 hs
    exact hnc c (by rw [hrest]; simp) hc
  | invoke env n b rest mi e rest' args args' body' R out hsel hra _ _ _ _ _ _ _ _ _ _ _ _ =>
    intro hk _
    exfalso
    rcases hk.1.2 n rfl e (List.mem_of_getElem? hsel.get) hsel.name with hd | ⟨hf, hsp⟩
    · rw [hsel.enabled] at hd; cases hd
    · obtain ⟨bb, tail, htrim, _, _⟩ := readArgs_fn e.m rest rest' args hf hra
      rw [startsParen_of_trimStartAll rest bb tail htrim] at hsp
      cases hsp

/-- **A tame derivation with `##` is what the reference algorithm computes.** -/
theorem tameP_spec {env : List Entry} {l out : List PTok} (h : TameP env l out) :
    (∀ e ∈ env, WFMacroP e.m) → ∀ ls, RelP env ls l → ∃ r, SExp (specTable env) ls r ∧ RelOut env r out := by
  induction h with
  | nil env =>
    intro _ ls hrel
    have : ls = [] := by simpa using pn_inv_nil hrel.toks
    subst this
    exact ⟨[], SExp.nil, ⟨rfl, by simp⟩⟩
  | keep env t rest out hk hsp _ ih =>
    intro hwf ls hrel
    by_cases hw : t.tok.isWhitespace = true
    · obtain ⟨r, hs, hro⟩ := ih hwf ls ⟨pn_inv_ws hrel.toks hw, hrel.sup, hrel.sub⟩
      exact ⟨r, hs, ⟨by rw [ppTokens_cons_ws t out hw]; exact hro.toks, hro.sup⟩⟩
    · have hw' : t.tok.isWhitespace = false := by simpa using hw
      have hspn : splitPaste rest = none := by
        rcases hsp with h1 | h1
        · exact absurd h1 hw
        · exact h1
      obtain ⟨ks', hks, hpn'⟩ := pn_inv_tok hrel.toks hw' hspn
      cases ls with
      | nil => simp at hks
      | cons ts ls' =>
        simp only [List.map_cons, List.cons.injEq] at hks
        obtain ⟨hts, hks'⟩ := hks
        rw [← hks'] at hpn'
        have hrel' : RelP env ls' rest :=
          ⟨hpn', fun x hx => hrel.sup x (by simp [hx]), fun x hx => hrel.sub x (by simp [hx])⟩
        obtain ⟨r, hs, hro⟩ := ih hwf ls' hrel'
        have hkeep : KeepS (specTable env) ts ls' := by
          intro n hn
          have htn : t.tok = .id n := by rw [← hts]; exact hn
          cases hfind : find (specTable env) n with
          | none => exact Or.inr (Or.inl rfl)
          | some m =>
            obtain ⟨e, he, hm, hname⟩ := find_specTable_some hfind
            rcases hk.2 n htn e he hname with hd | ⟨hf, hsp'⟩
            · left
              have : n ∈ ts.hide := hrel.sup ts (by simp) n (mem_disabledNames.mpr ⟨e, he, hd, hname⟩)
              simpa using this
            · right; right
              refine ⟨m, paramNames e.m.numParams, rfl, by rw [hm]; simp [ofMacro, hf, paramNames], ?_⟩
              intro hh rest'' heq
              have : startsParen rest = true := by
                unfold startsParen
                rw [pn_head_lparen hpn' (rest''.map (·.tok)) (by rw [heq]; rfl)]
                rfl
              rw [hsp'] at this; cases this
        refine ⟨ts :: r, SExp.keep ts ls' r hkeep hs, ⟨?_, ?_⟩⟩
        · rw [ppTokens_cons t out hw', List.map_cons, hts, hro.toks]
        · intro x hx
          rcases List.mem_cons.mp hx with rfl | hx
          · exact hrel.sup _ (by simp)
          · exact hro.sup x hx
  | paste env t1 t2 m rest rest2 out hnw hs _ hp _ _ ih =>
    intro hwf ls hrel
    obtain ⟨m', hp', hpn⟩ := pn_inv_paste hrel.toks hnw hs
    rw [hp] at hp'
    cases hp'
    exact ih hwf ls ⟨hpn, hrel.sup, hrel.sub⟩
  | invoke env n b rest mi e rest' args args' body' R out hsel hra hncargs hpaok hlen hargs hod hsub hbody hnf hrest
      ihargs ihbody ihrest =>
    intro hwf ls hrel
    have hwfe : WFMacroP e.m := hwf e (List.mem_of_getElem? hsel.get)
    -- the text behind the name does not continue a paste
    have hfirst : firstTok rest ≠ some .concat := by
      cases hfn : e.m.isFunction with
      | false =>
        have hs := readArgs_spec e.m rest rest' args hra
        simp only [hfn, Bool.false_eq_true, if_false] at hs
        rw [← hs.1]; exact tameP_firstTok hrest
      | true =>
        obtain ⟨bb, tail, htrim, _, _⟩ := readArgs_fn e.m rest rest' args hfn hra
        have := startsParen_of_trimStartAll rest bb tail htrim
        unfold startsParen at this
        intro hh
        rw [hh] at this
        cases this
    have hspn : splitPaste rest = none := splitPaste_none_of_firstTok rest hfirst
    obtain ⟨ks', hks, hpn'⟩ := pn_inv_tok hrel.toks (by rfl) hspn
    cases ls with
    | nil => simp at hks
    | cons ts ls' =>
      simp only [List.map_cons, List.cons.injEq] at hks
      obtain ⟨hts, hks'⟩ := hks
      rw [← hks'] at hpn'
      have hen : ∃ e' ∈ env, e'.m.name = n ∧ e'.disabled = false :=
        ⟨e, List.mem_of_getElem? hsel.get, hsel.name, hsel.enabled⟩
      have htsub : ∀ x ∈ ts.hide, x ∈ disabledNames env := hrel.sub ts (by simp) n hts hen
      have htsup : ∀ x ∈ disabledNames env, x ∈ ts.hide := hrel.sup ts (by simp)
      have hnp := not_painted hsel ts htsub
      have hfind := find_specTable_selects hsel
      obtain ⟨ksb, hpnb⟩ := tameP_pn hbody
      have hncargs' : ∀ (i : Nat) (a' : List PTok), args'[i]? = some a' → NoConcat a' := by
        intro i a' ha'
        have hi : i < args.length := by rw [← hlen]; exact (List.getElem?_eq_some_iff.mp ha').1
        exact tameP_out_noConcat (hargs i _ a' (List.getElem?_eq_getElem hi) ha')
      cases hfn : e.m.isFunction with
      | false =>
        -- object-like
        have hs := readArgs_spec e.m rest rest' args hra
        simp only [hfn, Bool.false_eq_true, if_false] at hs
        obtain ⟨hr, ha⟩ := hs
        subst hr; subst ha
        have ha' : args' = [] := by simpa using hlen
        subst ha'
        have hnoarg : ∀ t ∈ e.m.body, ∀ i, t.tok ≠ .arg i := by
          intro t ht i hi
          have := (hwfe.argRange t ht i hi).2
          rw [hfn] at this; cases this
        have hpp : ∀ i, i ∈ pasteParams none e.m.body → False := by
          intro i hi
          obtain ⟨t, ht, htk⟩ := mem_pasteParams_arg _ _ _ hi
          exact hnoarg t ht i htk
        obtain ⟨outb, hsubst, hksb, hgood⟩ := subst_paste (disable env mi) e.m 0
          (by simp [ofMacro, hfn, paramNames]) [] [] [] (n :: ts.hide) body' ksb
          ⟨hwfe.noHash, hwfe.noParamName, fun t ht i hi => absurd hi (hnoarg t ht i)⟩
          (fun i hi => (hpp i hi).elim) hsub (fun i a' h => by simp at h)
          (fun t ht i hi => absurd hi (hnoarg t ht i)) (fun i hi => (hpp i hi).elim)
          (fun i hi => (hpp i hi).elim) (fun a ha => by cases ha) hpnb
        have hrelb := relP_body hsel (n :: ts.hide) outb body'
          (by
            rintro x (rfl | hx)
            · simp
            · exact List.mem_cons_of_mem _ (htsup x hx))
          (by
            intro x hx
            rcases List.mem_cons.mp hx with rfl | hx
            · exact Or.inl rfl
            · exact Or.inr (htsub x hx))
          (by rw [hksb]; exact hpnb) hgood
        obtain ⟨Rs, hsR, hroR⟩ := ihbody (wfP_disable hwf) _ hrelb
        rw [specTable_disable] at hsR
        have hrel' : RelP env ls' rest' :=
          ⟨hpn', fun x hx => hrel.sup x (by simp [hx]), fun x hx => hrel.sub x (by simp [hx])⟩
        obtain ⟨r2, hs2, hro2⟩ := ihrest hwf ls' hrel'
        obtain ⟨h1, h2⟩ := invoke_tailP hsel _ Rs R rest' out ls' r2 hsR hroR hnf hs2 hro2 hpn'
        refine ⟨Rs ++ r2, ?_, h2⟩
        exact SExp.obj ts n (ofMacro e.m) ls' _ _ hts hnp hfind (by simp [ofMacro, hfn])
          (fun ex => hsubst ex (fun i hi => by omega)) h1
      | true =>
        -- function-like
        obtain ⟨mid, hmid, hncm, hfnshape, _⟩ := readArgs_region e.m rest rest' args hra hncargs
        obtain ⟨blanks, bl, init, br, hmidshape, hblank, hscan⟩ := hfnshape hfn
        obtain ⟨_, _, _, _, har⟩ := readArgs_fn e.m rest rest' args hfn hra
        -- split the paste normal form behind the closing parenthesis
        have hrest_eq : rest = ((blanks ++ ⟨.lparen, bl⟩ :: init) ++ [⟨.rparen, br⟩]) ++ rest' := by
          rw [hmid, hmidshape]; simp
        have hnc0 : NoConcat (blanks ++ ⟨.lparen, bl⟩ :: init) := by
          intro t ht
          apply hncm t
          rw [hmidshape]
          rcases List.mem_append.mp ht with h | h
          · exact List.mem_append_left _ h
          · rcases List.mem_cons.mp h with rfl | h
            · simp
            · simp [h]
        rw [hrest_eq] at hpn'
        obtain ⟨ks'', hks'', hpnrest⟩ := pn_split env _ rest' br _ hnc0 hpn'
        have hppmid : ppTokens ((blanks ++ ⟨.lparen, bl⟩ :: init) ++ [⟨.rparen, br⟩]) =
            Tok.lparen :: ppTokens (init ++ [⟨.rparen, br⟩]) := by
          rw [List.append_assoc, ppTokens_append,
            ppTokens_ws blanks (fun t ht => hblank t ht), List.nil_append, List.cons_append,
            ppTokens_cons _ _ (by rfl)]
        rw [hppmid] at hks''
        obtain ⟨lmid, lrest, hls', hlmid, hlrest⟩ := List.map_eq_append_iff.mp hks''
        cases lmid with
        | nil => simp at hlmid
        | cons lp lreg =>
          simp only [List.map_cons, List.cons.injEq] at hlmid
          obtain ⟨hlp, hlreg⟩ := hlmid
          obtain ⟨lpt, lph⟩ := lp
          simp only at hlp
          subst hlp
          obtain ⟨largs, hs', lrest0, hcoll0, hlrest0, hargsrel, _, hmemargs, tr, htr, htrh⟩ :=
            scanArgs_collect (init ++ [⟨.rparen, br⟩]) [] [] 0 [] args hscan lreg [] [] hlreg rfl argsRel_nil
          have hl0 : lrest0 = [] := by simpa [ppTokens_nil] using hlrest0
          subst hl0
          have hcoll : collectArgs (lreg ++ lrest) 0 [] [] = some (largs, hs', lrest) := by
            have := collectArgs_append lreg 0 [] [] largs hs' [] lrest hcoll0
            simpa using this
          subst hls'
          have hinreg : ∀ t ∈ lreg, t ∈ ts :: (⟨.lparen, lph⟩ :: lreg ++ lrest) := fun t ht => by simp [ht]
          have hinrest : ∀ t ∈ lrest, t ∈ ts :: (⟨.lparen, lph⟩ :: lreg ++ lrest) := fun t ht => by simp [ht]
          -- the rest of the source
          have hrel' : RelP env lrest rest' :=
            ⟨by rw [hlrest]; exact hpnrest, fun x hx => hrel.sup x (hinrest x hx), fun x hx => hrel.sub x (hinrest x hx)⟩
          obtain ⟨r2, hs2, hro2⟩ := ihrest hwf lrest hrel'
          -- the arguments
          have hargmem : ∀ la ∈ largs, ∀ t ∈ la, t ∈ lreg := by
            intro la hla t ht
            rcases hmemargs la hla t ht with h | h | ⟨a0, ha0, _⟩
            · exact h
            · cases h
            · cases ha0
          have hexp : ∀ (i : Nat) (la : List HTok), largs[i]? = some la →
              ∃ ea, SExp (specTable env) la ea ∧ ∃ a', args'[i]? = some a' ∧ RelOut env ea a' ∧
                (OnlyDisabled env a' ∨ Exact env ea) := by
            intro i la hla
            have hi : i < largs.length := (List.getElem?_eq_some_iff.mp hla).1
            have hi2 : i < args.length := by rw [← hargsrel.1]; exact hi
            have hi3 : i < args'.length := by rw [hlen]; exact hi2
            have ha : args[i]? = some args[i] := List.getElem?_eq_getElem hi2
            have ha' : args'[i]? = some args'[i] := List.getElem?_eq_getElem hi3
            have hmem := hargmem la (List.mem_of_getElem? hla)
            have hnca : NoConcat args[i] := hncargs _ (List.getElem_mem hi2)
            have hrela : RelP env la args[i] :=
              ⟨by rw [hargsrel.2 i la _ hla ha]; exact pn_of_noConcat env _ hnca,
                fun x hx => hrel.sup x (hinreg x (hmem x hx)), fun x hx => hrel.sub x (hinreg x (hmem x hx))⟩
            rcases hod i _ _ ha ha' with hd | hak
            · obtain ⟨ea, hsea, hroea⟩ := ihargs i _ _ ha ha' hwf la hrela
              exact ⟨ea, hsea, _, ha', hroea, Or.inl hd⟩
            · -- nothing happens in this argument on either side: the reference keeps the very same tokens
              have heq : args'[i] = args[i] := tameP_allKept (hargs i _ _ ha ha') hak hnca
              have hrel0 : Rel env la args[i] :=
                ⟨hargsrel.2 i la _ hla ha, hrela.sup, hrela.sub⟩
              exact ⟨la, allKept_sexp _ hak la hrel0, _, ha',
                ⟨by rw [heq]; exact hrel0.toks, hrela.sup⟩, Or.inr hrel0.sub⟩
          obtain ⟨eargs0, helen, heargs⟩ := exists_list largs
            (fun i la ea => SExp (specTable env) la ea ∧ ∃ a', args'[i]? = some a' ∧ RelOut env ea a' ∧
              (OnlyDisabled env a' ∨ Exact env ea)) hexp
          obtain ⟨hfix, hfixlen⟩ := fixArgs_eq e.m.numParams largs args hargsrel har
          have hnple : e.m.numParams ≤ largs.length := by
            rw [List.length_take] at hfixlen; omega
          have hget : ∀ i, i < e.m.numParams → ∃ la ea a a', largs[i]? = some la ∧ eargs0[i]? = some ea ∧
              args[i]? = some a ∧ args'[i]? = some a' ∧ la.map (·.tok) = ppTokens a ∧
              SExp (specTable env) la ea ∧ RelOut env ea a' ∧ (OnlyDisabled env a' ∨ Exact env ea) := by
            intro i hi
            have h1 : i < largs.length := by omega
            have h2 : i < eargs0.length := by omega
            have h3 : i < args.length := by rw [← hargsrel.1]; exact h1
            have hla : largs[i]? = some largs[i] := List.getElem?_eq_getElem h1
            have hea : eargs0[i]? = some eargs0[i] := List.getElem?_eq_getElem h2
            have ha : args[i]? = some args[i] := List.getElem?_eq_getElem h3
            obtain ⟨hse, a', ha', hro, hok⟩ := heargs i _ _ hla hea
            exact ⟨_, _, _, a', hla, hea, ha, ha', hargsrel.2 i _ _ hla ha, hse, hro, hok⟩
          have hpprange : ∀ i, i ∈ pasteParams none e.m.body → i < e.m.numParams := by
            intro i hi
            obtain ⟨t, ht, htk⟩ := mem_pasteParams_arg _ _ _ hi
            exact (hwfe.argRange t ht i htk).1
          have htakeL : ∀ i, i < e.m.numParams → ∀ la, largs[i]? = some la →
              (largs.take e.m.numParams).getD i [] = la := by
            intro i hi la hla
            simp [List.getD, List.getElem?_take, hi, hla]
          have htakeE : ∀ i, i < e.m.numParams → ∀ ea, eargs0[i]? = some ea →
              (eargs0.take e.m.numParams).getD i [] = ea := by
            intro i hi ea hea
            simp [List.getD, List.getElem?_take, hi, hea]
          obtain ⟨outb, hsubst, hksb, hgood⟩ := subst_paste (disable env mi) e.m e.m.numParams
            (by simp [ofMacro, hfn, paramNames]) (largs.take e.m.numParams) (eargs0.take e.m.numParams) args'
            (n :: ts.hide.filter (hs'.contains ·)) body' ksb
            ⟨hwfe.noHash, hwfe.noParamName, fun t ht i hi => (hwfe.argRange t ht i hi).1⟩
            (by
              intro i hi
              have hlt := hpprange i hi
              obtain ⟨la, ea, a, a', hla, _, ha, _, htk, _, _⟩ := hget i hlt
              rw [htakeL i hlt la hla]
              have hne := (hpaok i hi a ha).2
              cases la with
              | cons _ _ => rfl
              | nil =>
                exfalso
                simp only [List.map_nil] at htk
                have hws := ppTokens_eq_nil htk.symm
                unfold nonEmptyB at hne
                rw [List.any_eq_true] at hne
                obtain ⟨x, hx, hxw⟩ := hne
                rw [hws x hx] at hxw
                cases hxw)
            hsub hncargs'
            (by
              intro t ht i hi
              have hlt := (hwfe.argRange t ht i hi).1
              obtain ⟨la, ea, a, a', _, hea, _, ha', _, _, hro, _⟩ := hget i hlt
              rw [htakeE i hlt ea hea]
              simp only [List.getD, ha', Option.getD_some]
              exact hro.toks)
            (by
              intro i hi
              have hlt := hpprange i hi
              obtain ⟨la, ea, a, a', hla, _, ha, ha', htk, _, _⟩ := hget i hlt
              rw [htakeL i hlt la hla]
              have hid : a' = a := tameP_identity (hargs i a a' ha ha') (hpaok i hi a ha).1
                (hncargs a (List.mem_of_getElem? ha))
              simp only [List.getD, ha', Option.getD_some, hid]
              exact htk)
            (by
              intro i hi s hs
              have hlt := hpprange i hi
              obtain ⟨la, ea, a, a', hla, _, ha, _, htk, _, _⟩ := hget i hlt
              rw [htakeL i hlt la hla] at hs
              exact goodItem_of_onlyDisabled a la (hpaok i hi a ha).1 htk s hs)
            (by
              intro ea hea s hs
              obtain ⟨i, hi⟩ := List.mem_iff_getElem?.mp hea
              rw [List.getElem?_take] at hi
              split at hi
              · rename_i hlt
                obtain ⟨la, ea2, a, a', _, hea2, _, ha', _, _, hro, hok⟩ := hget i hlt
                rw [hea2] at hi
                cases hi
                rcases hok with hd | hex
                · exact goodItem_of_onlyDisabled a' ea hd hro.toks s hs
                · exact goodItem_of_exact hsel ea hex s hs
              · cases hi)
            hpnb
          have hrelb := relP_body hsel (n :: ts.hide.filter (hs'.contains ·)) outb body'
            (by
              rintro x (rfl | hx)
              · simp
              · apply List.mem_cons_of_mem
                rw [List.mem_filter]
                refine ⟨htsup x hx, ?_⟩
                have := hrel.sup tr (hinreg tr htr) x hx
                rw [htrh] at this
                simpa using this)
            (by
              intro x hx
              rcases List.mem_cons.mp hx with rfl | hx
              · exact Or.inl rfl
              · exact Or.inr (htsub x (List.mem_filter.mp hx).1))
            (by rw [hksb]; exact hpnb) hgood
          obtain ⟨Rs, hsR, hroR⟩ := ihbody (wfP_disable hwf) _ hrelb
          rw [specTable_disable] at hsR
          obtain ⟨h1, h2⟩ := invoke_tailP hsel _ Rs R rest' out lrest r2 hsR hroR hnf hs2 hro2
            (by rw [hlrest]; exact hpnrest)
          refine ⟨Rs ++ r2, ?_, h2⟩
          have hpar : (ofMacro e.m).params = some (paramNames e.m.numParams) := by
            simp [ofMacro, hfn, paramNames]
          apply SExp.fn ts n (ofMacro e.m) (paramNames e.m.numParams) lph (lreg ++ lrest) largs
            (eargs0.take e.m.numParams) hs' lrest _ _ hts hnp hfind hpar hcoll ?_ ?_ ?_ ?_ h1
          · rw [hfix, hfixlen]; simp [paramNames]
          · rw [hfix, hfixlen, List.length_take]; omega
          · intro i a ea ha hea
            rw [hfix, List.getElem?_take] at ha
            rw [List.getElem?_take] at hea
            split at ha
            · simp only [*, if_true] at hea
              exact (heargs i a ea ha hea).1
            · cases ha
          · intro ex hagree
            rw [hfix]
            apply hsubst ex
            intro i hi
            obtain ⟨la, ea, a, a', hla, hea, _, _, _, _, _⟩ := hget i hi
            have hla' : (largs.take e.m.numParams)[i]? = some la := by
              rw [List.getElem?_take]; simp [hi, hla]
            have hea' : (eargs0.take e.m.numParams)[i]? = some ea := by
              rw [List.getElem?_take]; simp [hi, hea]
            refine ⟨ea, hea', ?_⟩
            have := hagree i la ea (by rw [hfix]; exact hla') hea'
            simpa [List.getD, hla'] using this


/-! ## `Tame` is the part of `TameP` without `##` -/

theorem tame_firstTok {env : List Entry} {l out : List PTok} (h : Tame env l out) : firstTok l ≠ some .concat := by
  induction h with
  | nil => simp [firstTok]
  | keep env t rest out hk _ ih =>
    by_cases hw : t.tok.isWhitespace = true
    · simp only [firstTok, hw, if_true]; exact ih
    · simp only [firstTok, hw]
      intro hh
      simp only [Bool.false_eq_true, if_false, Option.some.injEq] at hh
      exact hk.1 hh
  | invoke => simp [firstTok, Tok.isWhitespace]

theorem tame_noConcat {env : List Entry} {l out : List PTok} (h : Tame env l out) : NoConcat l := by
  induction h with
  | nil => exact fun t ht => (by cases ht)
  | keep env t rest out hk _ ih =>
    intro x hx
    rcases List.mem_cons.mp hx with rfl | hx
    · exact hk.1
    · exact ih x hx
  | invoke env n b rest mi e rest' args args' body' R out _ hra hlen _ _ _ _ _ _ ihargs _ ihrest =>
    have hncargs : ∀ a ∈ args, NoConcat a := by
      intro a ha
      obtain ⟨i, hi⟩ := List.mem_iff_getElem?.mp ha
      have hlt : i < args'.length := by rw [hlen]; exact (List.getElem?_eq_some_iff.mp hi).1
      exact ihargs i a args'[i] hi (List.getElem?_eq_getElem hlt)
    obtain ⟨mid, hmid, hncm, _, _⟩ := readArgs_region e.m rest rest' args hra hncargs
    intro x hx
    rcases List.mem_cons.mp hx with rfl | hx
    · simp
    · rw [hmid] at hx
      rcases List.mem_append.mp hx with h | h
      · exact hncm x h
      · exact ihrest x h

theorem pasteParams_noConcat (mb : List PTok) (hnc : NoConcat mb) : ∀ (prev : Option Tok), prev ≠ some .concat →
    pasteParams prev mb = [] := by
  induction mb with
  | nil => intro prev _; rfl
  | cons t r ih =>
    intro prev hp
    have hr : NoConcat r := fun x hx => hnc x (by simp [hx])
    have hnext : (if t.tok.isWhitespace = true then prev else some t.tok) ≠ some .concat := by
      split
      · exact hp
      · intro hh; simp only [Option.some.injEq] at hh; exact hnc t (by simp) hh
    have hft : firstTok r ≠ some .concat := by
      intro hh
      obtain ⟨x, hx, hxk⟩ := firstTok_mem hh
      exact hr x hx hxk
    rw [pasteParams]
    simp only [ih hr _ hnext]
    split
    · have h1 : (prev == some Tok.concat) = false := by simpa using hp
      have h2 : (firstTok r == some Tok.concat) = false := by simpa using hft
      simp [h1, h2]
    · rfl

/-- every `Tame` derivation (tables whose replacement lists contain no `##`) is a `TameP` derivation: so
`expand_refines_spec` is the special case of `expand_refines_spec_with_paste` without `##` -/
theorem tame_to_tameP {env : List Entry} {l out : List PTok} (h : Tame env l out) :
    (∀ e ∈ env, NoConcat e.m.body) → TameP env l out := by
  induction h with
  | nil env => intro _; exact TameP.nil env
  | keep env t rest out hk hrest ih =>
    intro hb
    exact TameP.keep env t rest out hk (Or.inr (splitPaste_none_of_firstTok rest (tame_firstTok hrest))) (ih hb)
  | invoke env n b rest mi e rest' args args' body' R out hsel hra hlen hargs hod hsub _ hnf _ ihargs ihbody ihrest =>
    intro hb
    have hncargs : ∀ a ∈ args, NoConcat a := by
      intro a ha
      obtain ⟨i, hi⟩ := List.mem_iff_getElem?.mp ha
      have hlt : i < args'.length := by rw [hlen]; exact (List.getElem?_eq_some_iff.mp hi).1
      exact tame_noConcat (hargs i a args'[i] hi (List.getElem?_eq_getElem hlt))
    have hbd : ∀ e' ∈ disable env mi, NoConcat e'.m.body := by
      intro e' he'
      obtain ⟨e0, he0, hm, _⟩ := mem_disable he'
      rw [hm]; exact hb e0 he0
    refine TameP.invoke env n b rest mi e rest' args args' body' R out hsel hra hncargs ?_ hlen
      (fun i a a' ha ha' => ihargs i a a' ha ha' hb) hod hsub (ihbody hbd) hnf (ihrest hb)
    intro i hi
    rw [pasteParams_noConcat e.m.body (hb e (List.mem_of_getElem? hsel.get)) none (by simp)] at hi
    cases hi


/-! ## `WFMacroP`, decided -/

theorem wfMacroP_of_wfPB (m : Macro) (h : wfPB m = true) : WFMacroP m := by
  unfold wfPB at h
  rw [List.all_eq_true] at h
  refine ⟨?_, ?_, ?_⟩
  · intro t ht hh
    have := h t ht
    simp [hh] at this
  · intro t ht s hs i hi
    have := h t ht
    simp only [hs, bne_iff_ne, ne_eq] at this
    apply this
    rw [hi, paramName_head]
  · intro t ht i hi
    have := h t ht
    simp only [hi, Bool.and_eq_true, decide_eq_true_eq] at this
    exact this


end RsslVerif.Lemmas.MacroTamePSpec

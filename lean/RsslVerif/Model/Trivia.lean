import RsslVerif.Model.SourceMap
import RsslVerif.Gen.SourceMapTables
/-!
# Model of `TokenStream::read_to_end` and `prepare_tokens` over an abstract lexer

`TokenStream` (preprocess/src/lexer.rs) is a memoryless loop around `token_intermediate`: lex one token
at the current offset, record its span, advance by its length; after the last byte one `Endline` is
added unless the last token was one.  `prepare_tokens` (preprocess/src/preprocess.rs) drops every token
with `Token::is_whitespace()` and keeps the start location of the others, then appends `Eof` at
`SourceLocation::UNKNOWN`.

The lexer itself is a parameter (`Lexer.tok`): the concrete `token_intermediate` model belongs to C10.
Everything here is executable for any concrete `Lexer`.
-/
namespace RsslVerif.Model.Trivia
open RsslVerif.Model.SourceMap

/-- what `TokenStream` needs from `token_intermediate` and `Token` -/
structure Lexer (τ : Type) where
  /-- `token_intermediate(input)`: the token at the front of `input` and the number of bytes it
      covers; `none` = lexer error -/
  tok : Bytes → Option (τ × Nat)
  /-- `Token::is_whitespace` (Endline, PhysicalEndline, Whitespace, Comment) -/
  isWs : τ → Bool
  /-- `Token::Endline` -/
  endline : τ
  /-- `next_token == Token::Endline` -/
  isEndline : τ → Bool

/-- `PreprocessToken`: token, start and end offset (relative to the base location) -/
structure Spanned (τ : Type) where
  tok : τ
  start : Nat
  stop : Nat
  deriving Repr, DecidableEq

inductive LexErr where
  /-- `token_intermediate` failed for the text starting at this offset -/
  | lexError (offset : Nat)
  /-- `debug_assert!(self.current_offset < next_location)` / the token is longer than the input -/
  | stuck (offset : Nat)
  deriving Repr, DecidableEq

def consOk {τ : Type} (a : Spanned τ) : Except LexErr (List (Spanned τ)) → Except LexErr (List (Spanned τ))
  | .ok l => .ok (a :: l)
  | .error e => .error e

/-- the `while !end_of_stream { next() }` loop while bytes remain; `off` = `current_offset` -/
def lexBytes {τ : Type} (L : Lexer τ) (x : Bytes) (off : Nat) : Except LexErr (List (Spanned τ)) :=
  if x = [] then .ok []
  else
    match L.tok x with
    | none => .error (.lexError off)
    | some (t, n) =>
      if h : 0 < n ∧ n ≤ x.length then
        consOk ⟨t, off, off + n⟩ (lexBytes L (x.drop n) (off + n))
      else .error (.stuck off)
termination_by x.length
decreasing_by
  simp only [List.length_drop]
  have : 0 < x.length := by cases x <;> simp_all
  omega

/-- the tokens produced before the loop stops (all of them when it succeeds) -/
def lexPrefix {τ : Type} (L : Lexer τ) (x : Bytes) (off : Nat) : List (Spanned τ) :=
  if x = [] then []
  else
    match L.tok x with
    | none => []
    | some (t, n) =>
      if h : 0 < n ∧ n ≤ x.length then ⟨t, off, off + n⟩ :: lexPrefix L (x.drop n) (off + n)
      else []
termination_by x.length
decreasing_by
  simp only [List.length_drop]
  have : 0 < x.length := by cases x <;> simp_all
  omega

def LexErr.shift (d : Nat) : LexErr → LexErr
  | .lexError o => .lexError (o + d)
  | .stuck o => .stuck (o + d)

/-- `last_was_endline` after the loop (initially true) -/
def lastIsEndline {τ : Type} (L : Lexer τ) (ts : List (Spanned τ)) : Bool :=
  match ts.getLast? with
  | none => true
  | some t => L.isEndline t.tok

/-- `TokenStream::new(input, base).read_to_end()`; `trailing` = `add_trailing_endline` -/
def readToEnd {τ : Type} (L : Lexer τ) (x : Bytes) (trailing : Bool) : Except LexErr (List (Spanned τ)) :=
  match lexBytes L x 0 with
  | .ok ts =>
    if trailing && !lastIsEndline L ts then .ok (ts ++ [⟨L.endline, x.length, x.length⟩]) else .ok ts
  | .error e => .error e

/-- `LexToken`: `none` token = `Eof`, `none` location = `SourceLocation::UNKNOWN` -/
abbrev LexToken (τ : Type) := Option τ × Option Nat

/-- `prepare_tokens` -/
def prepare {τ : Type} (L : Lexer τ) (ts : List (Spanned τ)) : List (LexToken τ) :=
  ((ts.filter fun t => !L.isWs t.tok).map fun t => (some t.tok, some t.start)) ++ [(none, none)]

/-- spans of consecutive tokens given as (token, length), starting at `off` -/
def spansFrom {τ : Type} : List (τ × Nat) → Nat → List (Spanned τ)
  | [], _ => []
  | (t, n) :: r, off => ⟨t, off, off + n⟩ :: spansFrom r (off + n)

def Spanned.shift {τ : Type} (d : Nat) (t : Spanned τ) : Spanned τ := ⟨t.tok, t.start + d, t.stop + d⟩

/-- where a location is after `d` bytes were inserted at offset `i` (`UNKNOWN` stays `UNKNOWN`) -/
def relocate (i d : Nat) : Option Nat → Option Nat
  | none => none
  | some l => some (moveOffset i d l)

/-! ### the two places of the macro expander that look at trivia (preprocess/src/preprocess.rs)

`find_single_macro` activates a function-like macro only when `trim_whitespace_start(&tokens[i + 1..])`
starts with `(`; `apply_single_macro` accepts `NAME()` for a zero-parameter macro only when the single
argument, after `trim_whitespace`, is empty.  `trim_whitespace_start/_end` skip tokens with
`is_whitespace()` **except `Endline`** (`Gen.SourceMapTables.trimKeepsEndline`). -/

/-- the token kinds these two checks distinguish -/
inductive PTok where
  | whitespace | comment | physicalEndline | endline | leftParen | rightParen | other
  deriving DecidableEq, Repr

def PTok.isWs : PTok → Bool
  | .whitespace | .comment | .physicalEndline | .endline => true
  | _ => false

/-- `trim_whitespace_start` -/
def trimWhitespaceStart : List PTok → List PTok
  | [] => []
  | t :: r =>
    if t.isWs && !(RsslVerif.Gen.SourceMapTables.trimKeepsEndline && t == .endline) then trimWhitespaceStart r
    else t :: r

/-- `trim_whitespace_end` -/
def trimWhitespaceEnd (l : List PTok) : List PTok := (trimWhitespaceStart l.reverse).reverse

/-- `trim_whitespace` -/
def trimWhitespace (l : List PTok) : List PTok := trimWhitespaceEnd (trimWhitespaceStart l)

/-- `find_single_macro`: is the function-like macro whose name precedes `after` invoked here? -/
def activatesFunctionMacro (after : List PTok) : Bool :=
  match trimWhitespaceStart after with
  | .leftParen :: _ => true
  | _ => false

/-- `apply_single_macro`, `num_params == 0`: is the single argument `arg` accepted as "no arguments"? -/
def acceptsEmptyArgument (arg : List PTok) : Bool := (trimWhitespace arg).isEmpty

/-! ### where the search goes on after an expansion (`apply_single_macro`, `User` arm -> `find_single_macro`)

After `tokens.splice(pos..end, output)` the next `find_single_macro` scans from `early_function_pos` and accepts a
function-like macro name (of an enabled macro other than the one just expanded) only when its `(` -- found behind
white space of every kind, `trim_whitespace_and_endlines_start` -- lies at or beyond `next_pos = pos + tokens_added`:
an invocation that *reaches out of* the replaced region (`SELECT(INC)(b)`: the region is `INC`, the `(` follows it).
`early_function_pos` is `pos`, the first token of the region (`Gen.SourceMapTables.earlyFunctionPosIsRegionStart`);
the region can end in a line break, because macro arguments keep a trailing `Endline` (`trimEndKeepsEndline`). -/

/-- what the resumed scan distinguishes: the name of an enabled function-like macro other than the one just expanded,
`(`, white space without / with a line break, anything else -/
inductive RTok where
  | fnName | leftParen | ws | endline | other
  deriving DecidableEq, Repr

def RTok.isWs : RTok → Bool
  | .ws | .endline => true
  | _ => false

/-- `trim_whitespace_and_endlines_start` -/
def skipAllWs : List RTok → List RTok
  | [] => []
  | t :: r => if t.isWs then skipAllWs r else t :: r

/-- the loop of `find_single_macro` over `ts = tokens[i..]`: the first function-like macro name whose `(` (at
`activate_pos = tokens.len() - trimmed.len()`) is not in front of `nextPos` -/
def scanFrom (nextPos : Nat) : Nat → List RTok → Option Nat
  | _, [] => none
  | i, t :: r =>
    if t == .fnName && (match skipAllWs r with
        | .leftParen :: _ => decide (nextPos ≤ i + 1 + (r.length - (skipAllWs r).length))
        | _ => false) then some i
    else scanFrom nextPos (i + 1) r

/-- `early_function_pos` of the `MacroSearchPosition` the `User` arm returns: `pos` on the pinned code; the other branch is
what seeded mutant C14-7 does (`if tokens_added > 0 { new_end - 1 } else { pos }`) -/
def resumeIndex (regionStart : Bool) (pos added : Nat) : Nat :=
  if regionStart || added == 0 then pos else pos + added - 1

/-- the scan after `region` has replaced an invocation behind `pre`, with `rest` following -/
def resumedScan (regionStart : Bool) (pre region rest : List RTok) : Option Nat :=
  let start := resumeIndex regionStart pre.length region.length
  scanFrom (pre.length + region.length) start ((pre ++ region ++ rest).drop start)

/-! ### directive recognition (`preprocess_included_file`, preprocess/src/preprocess.rs)

The loop that drives the `TokenStream` keeps a four-state machine per line: a `#` that is the first
non-whitespace token of a line starts a command, the first non-whitespace token after it is the command name,
an `Endline` ends the command; everything else is normal text.  The arms are re-read from the source on every run
(`Gen.SourceMapTables.hashStartsCommandAtStartOfLine`, `startOfLineSkipsAllWhitespace`,
`commandNameIsFirstNonWhitespace`, `endlineEndsCommand`, `endlineStartsLine`, `otherTokensArePushed`). -/

/-- the token kinds the state machine distinguishes; `ws` = `Whitespace`, `Comment`, `PhysicalEndline` -/
inductive DTok where
  | hash | endline | ws | other (id : Nat)
  deriving DecidableEq, Repr

inductive DState where
  | startOfLine | commandStart | commandContents | normal
  deriving DecidableEq, Repr

/-- what the rest of the preprocessor is handed, whitespace left out: normal tokens, and commands with their tokens -/
inductive DItem where
  | tok (t : DTok) | command (ts : List DTok)
  deriving DecidableEq, Repr

/-- the state machine; `cmd` = tokens of the command being read (newest first); `wsKeepsStart` = the arm
`(tok, StartOfLine)` leaves the state alone for every whitespace token (`startOfLineSkipsAllWhitespace`) -/
def dscan (wsKeepsStart : Bool) : DState → List DTok → List DTok → List DItem
  | _, cmd, [] => cmd.reverse.map .tok
  | .startOfLine, _, .hash :: r => dscan wsKeepsStart .commandStart [] r
  | .startOfLine, _, .endline :: r => .tok .endline :: dscan wsKeepsStart .startOfLine [] r
  | .startOfLine, _, .ws :: r => dscan wsKeepsStart (if wsKeepsStart then .startOfLine else .normal) [] r
  | .startOfLine, _, .other n :: r => .tok (.other n) :: dscan wsKeepsStart .normal [] r
  | .commandStart, _, .ws :: r => dscan wsKeepsStart .commandStart [] r
  | .commandStart, _, .endline :: r => .tok .endline :: dscan wsKeepsStart .startOfLine [] r
  | .commandStart, _, t :: r => dscan wsKeepsStart .commandContents [t] r
  | .commandContents, cmd, .endline :: r => .command cmd.reverse :: dscan wsKeepsStart .startOfLine [] r
  | .commandContents, cmd, .ws :: r => dscan wsKeepsStart .commandContents cmd r
  | .commandContents, cmd, t :: r => dscan wsKeepsStart .commandContents (t :: cmd) r
  | .normal, _, .endline :: r => .tok .endline :: dscan wsKeepsStart .startOfLine [] r
  | .normal, _, .ws :: r => dscan wsKeepsStart .normal [] r
  | .normal, _, t :: r => .tok t :: dscan wsKeepsStart .normal [] r

end RsslVerif.Model.Trivia

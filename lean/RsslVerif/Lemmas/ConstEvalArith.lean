import RsslVerif.Spec.HlslConst
/-!
# C13 helper lemmas, part 1: the model's integer arithmetic (mathematical integers with explicit
reduction) against `BitVec` two's complement arithmetic
-/
namespace RsslVerif.Lemmas.ConstEval
open RsslVerif.Gen.EvalTable RsslVerif.Model.ConstEval
open RsslVerif.Spec.HlslConst (bv sInt uInt fitsLit)

/-! ## generic width -/

theorem wrap_signed (w : Nat) (z : Int) : (IntTy.mk true w).wrap z = (BitVec.ofInt w z).toInt := by
  simp [IntTy.wrap, BitVec.toInt_ofInt]

theorem toBits_eq (s : Bool) (w : Nat) (x : Int) : (IntTy.mk s w).toBits x = (BitVec.ofInt w x).toNat := by
  simp [IntTy.toBits, BitVec.toNat_ofInt]

theorem ofInt_natCast_toNat {w : Nat} (b : BitVec w) : BitVec.ofInt w ((b.toNat : Nat) : Int) = b := by
  rw [BitVec.ofInt_natCast]; simp

theorem bitOp_signed (w : Nat) (f : Nat → Nat → Nat) (g : BitVec w → BitVec w → BitVec w)
    (hfg : ∀ a b : BitVec w, f a.toNat b.toNat = (g a b).toNat) (x y : Int) :
    bitOp ⟨true, w⟩ f x y = (g (BitVec.ofInt w x) (BitVec.ofInt w y)).toInt := by
  rw [bitOp, wrap_signed, toBits_eq, toBits_eq, hfg, ofInt_natCast_toNat]

theorem toInt_ofInt_of_inRange {w : Nat} (hw : 0 < w) {x : Int} (h : (IntTy.mk true w).inRange x = true) :
    (BitVec.ofInt w x).toInt = x := by
  simp [IntTy.inRange, IntTy.lo, IntTy.hi] at h
  rw [BitVec.toInt_ofInt]
  have : (2:Int) ^ w = 2 * 2 ^ (w - 1) := by
    have : w = (w - 1) + 1 := by omega
    conv => lhs; rw [this, Int.pow_succ]
    omega
  apply Int.bmod_eq_of_le
  · simp; omega
  · simp; omega

theorem inRange_toInt {w : Nat} (b : BitVec w) : (IntTy.mk true w).inRange b.toInt = true := by
  simp [IntTy.inRange, IntTy.lo, IntTy.hi]
  have h1 := BitVec.le_toInt b
  have h2 := @BitVec.toInt_lt w b
  constructor
  · simpa using h1
  · have : (2:Int)^(w-1) = ((2^(w-1) : Nat) : Int) := by simp
    omega

theorem land_toNat {w : Nat} (a b : BitVec w) : Nat.land a.toNat b.toNat = (a &&& b).toNat := by
  simp [BitVec.toNat_and]
theorem lor_toNat {w : Nat} (a b : BitVec w) : Nat.lor a.toNat b.toNat = (a ||| b).toNat := by
  simp [BitVec.toNat_or]
theorem xor_toNat {w : Nat} (a b : BitVec w) : Nat.xor a.toNat b.toNat = (a ^^^ b).toNat := by
  simp [BitVec.toNat_xor]

/-! ## 32 bits -/

theorem wrap_i32 (z : Int) : i32.wrap z = (bv z).toInt := wrap_signed 32 z

theorem wrap_u32 (z : Int) : u32.wrap z = ((bv z).toNat : Int) := by
  simp [IntTy.wrap, u32, bv, BitVec.toNat_ofInt]
  omega

theorem bv_add (x y : Int) : bv (x + y) = bv x + bv y := by simp [bv, BitVec.ofInt_add]
theorem bv_mul (x y : Int) : bv (x * y) = bv x * bv y := by simp [bv, BitVec.ofInt_mul]
theorem bv_neg (x : Int) : bv (-x) = - bv x := by simp [bv, BitVec.ofInt_neg]
theorem bv_sub (x y : Int) : bv (x - y) = bv x - bv y := by
  rw [Int.sub_eq_add_neg, bv_add, bv_neg, BitVec.sub_eq_add_neg]
theorem bv_one : bv 1 = 1#32 := by decide
theorem bv_zero : bv 0 = 0#32 := by decide
theorem bv_not (x : Int) : bv (-x - 1) = ~~~ (bv x) := by
  rw [bv_sub, bv_neg, bv_one, ← BitVec.not_eq_neg_add]

theorem toInt_bv {x : Int} (h : i32.inRange x = true) : (bv x).toInt = x :=
  toInt_ofInt_of_inRange (by decide) h

theorem toNat_bv {x : Int} (h : u32.inRange x = true) : ((bv x).toNat : Int) = x := by
  simp [IntTy.inRange, IntTy.lo, IntTy.hi, u32] at h
  simp [bv, BitVec.toNat_ofInt]
  omega

theorem inRange_sInt (b : BitVec 32) : i32.inRange b.toInt = true := inRange_toInt b

theorem inRange_uInt (b : BitVec 32) : u32.inRange (b.toNat : Int) = true := by
  simp [IntTy.inRange, IntTy.lo, IntTy.hi, u32]
  have := b.isLt
  omega

theorem bv_natCast_toNat (b : BitVec 32) : bv ((b.toNat : Nat) : Int) = b := ofInt_natCast_toNat b

theorem sdiv_i32 {x y : Int} (hx : i32.inRange x = true) (hy : i32.inRange y = true) :
    i32.wrap (x.tdiv y) = ((bv x).sdiv (bv y)).toInt := by
  rw [BitVec.toInt_sdiv, toInt_bv hx, toInt_bv hy]
  simp [IntTy.wrap, i32]

theorem srem_i32 {x y : Int} (hx : i32.inRange x = true) (hy : i32.inRange y = true) :
    x.tmod y = ((bv x).srem (bv y)).toInt := by
  rw [BitVec.toInt_srem, toInt_bv hx, toInt_bv hy]

theorem bv_eq_zero_i32 {y : Int} (hy : i32.inRange y = true) : bv y = 0#32 ↔ y = 0 := by
  constructor
  · intro h
    have := toInt_bv hy
    rw [h] at this
    simpa using this.symm
  · intro h; subst h; decide

theorem bv_eq_zero_u32 {y : Int} (hy : u32.inRange y = true) : bv y = 0#32 ↔ y = 0 := by
  constructor
  · intro h
    have := toNat_bv hy
    rw [h] at this
    simpa using this.symm
  · intro h; subst h; decide

theorem shamt (y : Int) : (y % ((32 : Nat) : Int)).toNat = (bv y).toNat % 32 := by
  simp [bv, BitVec.toNat_ofInt]
  omega

theorem bv_pow (n : Nat) : bv ((2 ^ n : Nat) : Int) = BitVec.twoPow 32 n := by
  apply BitVec.eq_of_toNat_eq
  rw [bv, BitVec.ofInt_natCast]
  simp [BitVec.toNat_twoPow]

theorem shl_i32 (x : Int) (n : Nat) : i32.wrap (x * (2 ^ n : Nat)) = (bv x <<< n).toInt := by
  rw [wrap_i32, bv_mul, bv_pow, BitVec.shiftLeft_eq_mul_twoPow]

theorem shl_u32 (x : Int) (n : Nat) : u32.wrap (x * (2 ^ n : Nat)) = ((bv x <<< n).toNat : Int) := by
  rw [wrap_u32, bv_mul, bv_pow, BitVec.shiftLeft_eq_mul_twoPow]

theorem shr_i32 {x : Int} (hx : i32.inRange x = true) (n : Nat) :
    x / ((2 ^ n : Nat) : Int) = ((bv x).sshiftRight n).toInt := by
  rw [BitVec.toInt_sshiftRight, toInt_bv hx, Int.shiftRight_eq_div_pow]

theorem shr_u32 {x : Int} (hx : u32.inRange x = true) (n : Nat) :
    x / ((2 ^ n : Nat) : Int) = ((bv x >>> n).toNat : Int) := by
  rw [BitVec.toNat_ushiftRight, Nat.shiftRight_eq_div_pow]
  have h1 := (toNat_bv hx).symm
  generalize bv x = bx at h1 ⊢
  rw [h1]; simp

theorem udiv_u32 {x y : Int} (hx : u32.inRange x = true) (hy : u32.inRange y = true) :
    x.tdiv y = ((bv x / bv y).toNat : Int) := by
  rw [BitVec.toNat_udiv]
  have h1 := (toNat_bv hx).symm
  have h2 := (toNat_bv hy).symm
  generalize bv x = bx at h1 ⊢
  generalize bv y = by' at h2 ⊢
  rw [h1, h2, Int.tdiv_eq_ediv_of_nonneg (by omega)]; simp

theorem umod_u32 {x y : Int} (hx : u32.inRange x = true) (hy : u32.inRange y = true) :
    x.tmod y = ((bv x % bv y).toNat : Int) := by
  rw [BitVec.toNat_umod]
  have h1 := (toNat_bv hx).symm
  have h2 := (toNat_bv hy).symm
  generalize bv x = bx at h1 ⊢
  generalize bv y = by' at h2 ⊢
  rw [h1, h2, Int.tmod_eq_emod_of_nonneg (by omega)]; simp

theorem bitOp_i32 (f : Nat → Nat → Nat) (g : BitVec 32 → BitVec 32 → BitVec 32)
    (hfg : ∀ a b : BitVec 32, f a.toNat b.toNat = (g a b).toNat) (x y : Int) :
    bitOp i32 f x y = (g (bv x) (bv y)).toInt := bitOp_signed 32 f g hfg x y

theorem bitOp_u32 (f : Nat → Nat → Nat) (g : BitVec 32 → BitVec 32 → BitVec 32)
    (hfg : ∀ a b : BitVec 32, f a.toNat b.toNat = (g a b).toNat) (x y : Int) :
    bitOp u32 f x y = ((g (bv x) (bv y)).toNat : Int) := by
  rw [bitOp, wrap_u32, toBits_eq, toBits_eq]
  change ((bv ((f (bv x).toNat (bv y).toNat : Nat) : Int)).toNat : Int) = _
  rw [hfg, bv_natCast_toNat]

theorem bitOp_i128 (f : Nat → Nat → Nat) (g : BitVec 128 → BitVec 128 → BitVec 128)
    (hfg : ∀ a b : BitVec 128, f a.toNat b.toNat = (g a b).toNat) (x y : Int) :
    bitOp i128 f x y = (g (BitVec.ofInt 128 x) (BitVec.ofInt 128 y)).toInt := bitOp_signed 128 f g hfg x y

/-! ## literals -/

theorem fitsLit_iff (z : Int) : fitsLit z = i128.inRange z := by
  simp only [fitsLit, IntTy.inRange, IntTy.lo, IntTy.hi, i128]
  congr 1
  apply decide_eq_decide.mpr
  constructor <;> intro h <;> simp at * <;> omega

end RsslVerif.Lemmas.ConstEval

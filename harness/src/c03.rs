//! C03: accepted programs elaborate to well-typed IR; ill-typed programs are rejected.
//!
//! request : C03.conv \t <src ety> \t <dst ety> <dst ety> ...
//!             ety   = <L|R>/<mods>/<layer>
//!             mods  = `-` or letters c(onst) v(olatile) r(ow_major) k(column_major) u(norm) n(snorm)
//!             layer = s.<Scalar> | v.<Scalar>.<n> | m.<Scalar>.<x>.<y> | e.<id> | o.<id>
//! observe : per destination  err | panic | <target ety>   straight from
//!           `rssl_typer::verif::ImplicitConversion::{find, get_target_type}`
//! oracle  : a conversion that is found produces exactly the destination type; rvalue -> lvalue and dropping
//!           const towards an lvalue are never found
//!
//! request : C03.prog \t <vars> \t <funcs> \t <ret> \t <stmt> \t <expect>
//!             vars  = `-` | <mods>/<layer>,...                      local variable i is `v<i>`
//!             funcs = `-` | <name>:<non_default>:<mods>/<layer>:<param>,...;...   prototypes `f<name>`, overload set = same name
//!             param = <in|out|inout>/<mods>/<layer>
//!             ret   = void | <mods>/<layer>                          return type of the enclosing function
//!             stmt  = (expr E) | (ret) | (ret E) | (init <mods>/<layer> E)
//!             E     = (lit K) | (var i) | (un Op E) | (bin Op E E) | (tern E E E) | (call name E ...) | (cast <mods>/<layer> E)
//!             expect = accept | reject | any   what the *generator* built (well-typed by construction / one injected
//!                      violation / random); read by the oracle only, never by the model
//!           run as a generated RSSL program through the real `rssl::typer::type_check`
//! observe : accept <typed stmt> : <type of its expression> | reject <TyperError variant> | panic <file>
//!             typed E = (lit K) | (var i) | (tern E E E) | (seq E E) | (call fidx E ...) | (cast <mods>/<layer> E) | (op Name E ...)
//! oracle  : (independent of the Lean model) expect=reject programs are not accepted; no panic; for accepted programs
//!           every expression node of every function body has a type (`Expression::get_type` under `guard`), every id is
//!           in range, and every intrinsic operator / call / assignment / ternary / return / initialiser receives operands
//!           of exactly the required types (rules written from the property text in `check_expr`).
//!
//! request : C03.type \t <vars> \t <funcs> \t <ret> \t <typed stmt>
//!           the typed statement the real type checker produced for the C03.prog request with the same environment
//! observe : per expression node, in pre-order: the type `Expression::get_type` gives (space separated)
//!           -- validates the model's `typeOf` (the executable form of the `HasType` judgment) against the real rules
use crate::util::*;
use rssl::ir;

mod decl;
mod ext;
mod ret;
use rssl::ir::ScalarType;
use rssl::typer::verif::ImplicitConversion;

// ------------------------------------------------------------------------------------------- types

#[derive(Clone, Copy, PartialEq, Eq, Hash, PartialOrd, Ord, Debug)]
pub enum Layer {
    Scalar(u8),
    Vector(u8, u32),
    Matrix(u8, u32, u32),
    Enum(u32),
    Other(u32),
}

const SCALARS: &[(ScalarType, &str, &str)] = &[
    (ScalarType::Bool, "Bool", "bool"),
    (ScalarType::IntLiteral, "IntLiteral", ""),
    (ScalarType::Int32, "Int32", "int"),
    (ScalarType::UInt32, "UInt32", "uint"),
    (ScalarType::FloatLiteral, "FloatLiteral", ""),
    (ScalarType::Float16, "Float16", "half"),
    (ScalarType::Float32, "Float32", "float"),
    (ScalarType::Float64, "Float64", "double"),
];
const S_BOOL: u8 = 0;
const S_INTLIT: u8 = 1;
const S_INT: u8 = 2;
const S_UINT: u8 = 3;
const S_FLOATLIT: u8 = 4;
const S_HALF: u8 = 5;
const S_FLOAT: u8 = 6;
const S_DOUBLE: u8 = 7;
const GRID_SCALARS: &[u8] = &[S_BOOL, S_INT, S_UINT, S_HALF, S_FLOAT, S_DOUBLE];

#[derive(Clone, Copy, PartialEq, Eq, Hash, PartialOrd, Ord, Debug, Default)]
pub struct Mods(u8); // bit 0 c, 1 v, 2 r, 3 k, 4 u, 5 n
const MOD_LETTERS: &[u8] = b"cvrkun";
const MOD_WORDS: &[&str] = &["const", "volatile", "row_major", "column_major", "unorm", "snorm"];

#[derive(Clone, Copy, PartialEq, Eq, Hash, PartialOrd, Ord, Debug)]
pub struct Ty {
    mods: Mods,
    layer: Layer,
}

#[derive(Clone, Copy, PartialEq, Eq, Hash, PartialOrd, Ord, Debug)]
pub struct ETy {
    lvalue: bool,
    ty: Ty,
}

#[derive(Clone, Copy, PartialEq, Eq, Hash, PartialOrd, Ord, Debug)]
pub enum Io {
    In,
    Out,
    InOut,
}

#[derive(Clone, Copy, PartialEq, Eq, Hash, PartialOrd, Ord, Debug)]
pub struct Param {
    io: Io,
    ty: Ty,
}

#[derive(Clone, PartialEq, Eq, Debug)]
pub struct Func {
    name: u32,
    non_default: usize,
    ret: Ty,
    params: Vec<Param>,
}

fn plain(layer: Layer) -> Ty {
    Ty { mods: Mods(0), layer }
}

fn show_mods(m: Mods) -> String {
    if m.0 == 0 {
        return "-".into();
    }
    let mut s = String::new();
    for (i, c) in MOD_LETTERS.iter().enumerate() {
        if m.0 & (1 << i) != 0 {
            s.push(*c as char);
        }
    }
    s
}

fn parse_mods(s: &str) -> Option<Mods> {
    if s == "-" {
        return Some(Mods(0));
    }
    let mut m = 0u8;
    for c in s.bytes() {
        let i = MOD_LETTERS.iter().position(|x| *x == c)?;
        m |= 1 << i;
    }
    Some(Mods(m))
}

fn show_layer(l: Layer) -> String {
    match l {
        Layer::Scalar(s) => format!("s.{}", SCALARS[s as usize].1),
        Layer::Vector(s, n) => format!("v.{}.{}", SCALARS[s as usize].1, n),
        Layer::Matrix(s, x, y) => format!("m.{}.{}.{}", SCALARS[s as usize].1, x, y),
        Layer::Enum(i) => format!("e.{}", i),
        Layer::Other(i) => format!("o.{}", i),
    }
}

fn parse_scalar(s: &str) -> Option<u8> {
    SCALARS.iter().position(|x| x.1 == s).map(|i| i as u8)
}

fn parse_layer(s: &str) -> Option<Layer> {
    let p: Vec<&str> = s.split('.').collect();
    match p.as_slice() {
        ["s", s] => Some(Layer::Scalar(parse_scalar(s)?)),
        ["v", s, n] => Some(Layer::Vector(parse_scalar(s)?, n.parse().ok()?)),
        ["m", s, x, y] => Some(Layer::Matrix(parse_scalar(s)?, x.parse().ok()?, y.parse().ok()?)),
        ["e", i] => Some(Layer::Enum(i.parse().ok()?)),
        ["o", i] => Some(Layer::Other(i.parse().ok()?)),
        _ => None,
    }
}

fn show_ty(t: Ty) -> String {
    format!("{}/{}", show_mods(t.mods), show_layer(t.layer))
}

fn parse_ty(s: &str) -> Option<Ty> {
    let p: Vec<&str> = s.split('/').collect();
    if p.len() != 2 {
        return None;
    }
    Some(Ty { mods: parse_mods(p[0])?, layer: parse_layer(p[1])? })
}

fn show_ety(e: ETy) -> String {
    format!("{}/{}", if e.lvalue { "L" } else { "R" }, show_ty(e.ty))
}

fn parse_ety(s: &str) -> Option<ETy> {
    let (vt, rest) = s.split_once('/')?;
    let lvalue = match vt {
        "L" => true,
        "R" => false,
        _ => return None,
    };
    Some(ETy { lvalue, ty: parse_ty(rest)? })
}

fn show_param(p: Param) -> String {
    let io = match p.io {
        Io::In => "in",
        Io::Out => "out",
        Io::InOut => "inout",
    };
    format!("{}/{}", io, show_ty(p.ty))
}

fn parse_param(s: &str) -> Option<Param> {
    let (io, rest) = s.split_once('/')?;
    let io = match io {
        "in" => Io::In,
        "out" => Io::Out,
        "inout" => Io::InOut,
        _ => return None,
    };
    Some(Param { io, ty: parse_ty(rest)? })
}

fn show_func(f: &Func) -> String {
    let ps: Vec<String> = f.params.iter().map(|p| show_param(*p)).collect();
    format!("{}:{}:{}:{}", f.name, f.non_default, show_ty(f.ret), ps.join(","))
}

fn parse_func(s: &str) -> Option<Func> {
    let p: Vec<&str> = s.splitn(4, ':').collect();
    if p.len() != 4 {
        return None;
    }
    let params: Option<Vec<Param>> = if p[3].is_empty() { Some(vec![]) } else { p[3].split(',').map(parse_param).collect() };
    Some(Func { name: p[0].parse().ok()?, non_default: p[1].parse().ok()?, ret: parse_ty(p[2])?, params: params? })
}

fn mods_of(m: ir::TypeModifier) -> Mods {
    let mut bits = 0u8;
    for (i, b) in [m.is_const, m.volatile, m.row_major, m.column_major, m.unorm, m.snorm].iter().enumerate() {
        if *b {
            bits |= 1 << i;
        }
    }
    Mods(bits)
}

fn modifier_of(m: Mods) -> ir::TypeModifier {
    ir::TypeModifier {
        is_const: m.0 & 1 != 0,
        volatile: m.0 & 2 != 0,
        row_major: m.0 & 4 != 0,
        column_major: m.0 & 8 != 0,
        unorm: m.0 & 16 != 0,
        snorm: m.0 & 32 != 0,
    }
}

/// type id -> protocol description; struct ids are mapped through `structs` (StructId -> `o.<k>`)
fn describe(module: &ir::Module, id: ir::TypeId, structs: &dyn Fn(u32) -> Option<u32>) -> Option<Ty> {
    let reg = &module.type_registry;
    let (base, m) = reg.extract_modifier(id);
    let sc = |s: ScalarType| SCALARS.iter().position(|x| x.0 == s).map(|i| i as u8);
    let inner = |i: ir::TypeId| match reg.get_type_layer(i) {
        ir::TypeLayer::Scalar(s) => sc(s),
        _ => None,
    };
    let layer = match reg.get_type_layer(base) {
        ir::TypeLayer::Scalar(s) => Layer::Scalar(sc(s)?),
        ir::TypeLayer::Vector(i, n) => Layer::Vector(inner(i)?, n),
        ir::TypeLayer::Matrix(i, x, y) => Layer::Matrix(inner(i)?, x, y),
        ir::TypeLayer::Enum(e) => Layer::Enum(e.0),
        ir::TypeLayer::Struct(s) => Layer::Other(structs(s.0)?),
        _ => return None,
    };
    Some(Ty { mods: mods_of(m), layer })
}

fn describe_ety(module: &ir::Module, e: ir::ExpressionType, structs: &dyn Fn(u32) -> Option<u32>) -> String {
    match describe(module, e.0, structs) {
        Some(t) => show_ety(ETy { lvalue: e.1 == ir::ValueType::Lvalue, ty: t }),
        None => format!("?{}", module.get_type_name_short(e.0)),
    }
}

// ------------------------------------------------------------------------------------------- conversion table

struct Real {
    module: ir::Module,
}

impl Real {
    fn new() -> Self {
        Real { module: ir::Module::create() }
    }

    fn ty(&mut self, t: Ty) -> ir::TypeId {
        let reg = &self.module.type_registry;
        let sid = |s: u8| reg.register_type(ir::TypeLayer::Scalar(SCALARS[s as usize].0));
        let base = match t.layer {
            Layer::Scalar(s) => sid(s),
            Layer::Vector(s, n) => {
                let i = sid(s);
                reg.register_type(ir::TypeLayer::Vector(i, n))
            }
            Layer::Matrix(s, x, y) => {
                let i = sid(s);
                reg.register_type(ir::TypeLayer::Matrix(i, x, y))
            }
            Layer::Enum(i) => reg.register_type(ir::TypeLayer::Enum(ir::EnumId(i))),
            Layer::Other(i) => reg.register_type(ir::TypeLayer::Struct(ir::StructId(i))),
        };
        if t.mods.0 == 0 { base } else { reg.register_type(ir::TypeLayer::Modifier(modifier_of(t.mods), base)) }
    }

    fn ety(&mut self, e: ETy) -> ir::ExpressionType {
        let id = self.ty(e.ty);
        if e.lvalue { id.to_lvalue() } else { id.to_rvalue() }
    }

    fn conv_cell(&mut self, src: ETy, dst: ETy) -> String {
        let s = self.ety(src);
        let d = self.ety(dst);
        let found = {
            let module = &mut self.module;
            guard(move || ImplicitConversion::find(s, d, module))
        };
        let conv = match found {
            Err(_) => return "panic".into(),
            Ok(Err(())) => return "err".into(),
            Ok(Ok(c)) => c,
        };
        let target = {
            let module = &mut self.module;
            guard(move || conv.get_target_type(module))
        };
        match target {
            Err(_) => "panic".to_string(),
            Ok(e) => describe_ety(&self.module, e, &|i| Some(i)),
        }
    }

    fn conv_row(&mut self, src: ETy, dsts: &[ETy], out: &mut Out, hist: &mut Hist) {
        let req = format!("C03.conv\t{}\t{}", show_ety(src), dsts.iter().map(|d| show_ety(*d)).collect::<Vec<_>>().join(" "));
        let cells: Vec<String> = dsts.iter().map(|d| self.conv_cell(src, *d)).collect();
        let mut verdict = "ok".to_string();
        for (d, c) in dsts.iter().zip(&cells) {
            let found = c != "err";
            hist.add(if c == "err" { "conv:err" } else if c == "panic" { "conv:panic" } else { "conv:found" });
            if c == "panic" {
                verdict = format!("FAIL:conv panic {} -> {}", show_ety(src), show_ety(*d));
            } else if found && *c != show_ety(*d) {
                // the conversion does not produce the destination it was asked for
                let got = parse_ety(c);
                let only_mods = got.map(|g| g.lvalue == d.lvalue && g.ty.layer == d.ty.layer).unwrap_or(false);
                verdict = format!(
                    "FAIL:conv target {} -> {} produces {}{}",
                    show_ety(src),
                    show_ety(*d),
                    c,
                    if only_mods { " (modifier-only)" } else { "" }
                );
            } else if found && !src.lvalue && d.lvalue {
                verdict = format!("FAIL:conv rvalue {} converts to lvalue {}", show_ety(src), show_ety(*d));
            } else if found && d.lvalue && src.ty.mods.0 & 1 != 0 && d.ty.mods.0 & 1 == 0 {
                verdict = format!("FAIL:conv const {} converts to non-const lvalue {}", show_ety(src), show_ety(*d));
            }
        }
        out.case(&req, &cells.join(" "), &verdict);
    }
}

fn conv_universe(thorough: bool) -> Vec<ETy> {
    let mut layers = Vec::new();
    for s in 0..SCALARS.len() as u8 {
        layers.push(Layer::Scalar(s));
        for n in 1..=4 {
            layers.push(Layer::Vector(s, n));
        }
        layers.push(Layer::Matrix(s, 2, 2));
        layers.push(Layer::Matrix(s, 3, 2));
        if thorough {
            layers.push(Layer::Matrix(s, 1, 1));
            layers.push(Layer::Matrix(s, 4, 4));
        }
    }
    layers.push(Layer::Enum(0));
    layers.push(Layer::Enum(1));
    layers.push(Layer::Other(0));
    layers.push(Layer::Other(1));
    let mods: &[u8] = if thorough { &[0, 1, 2, 3, 4, 5, 9] } else { &[0, 1, 2, 4] };
    let mut v = Vec::new();
    for l in layers {
        for m in mods {
            for lv in [true, false] {
                v.push(ETy { lvalue: lv, ty: Ty { mods: Mods(*m), layer: l } });
            }
        }
    }
    v
}

// ------------------------------------------------------------------------------------------- s-expressions

#[derive(Clone, PartialEq, Eq, Debug)]
enum Sx {
    Atom(String),
    List(Vec<Sx>),
}

fn parse_sx(s: &str) -> Option<Sx> {
    fn go(t: &[String], i: &mut usize) -> Option<Sx> {
        let tok = t.get(*i)?;
        *i += 1;
        if tok == "(" {
            let mut v = Vec::new();
            while t.get(*i)? != ")" {
                v.push(go(t, i)?);
            }
            *i += 1;
            Some(Sx::List(v))
        } else if tok == ")" {
            None
        } else {
            Some(Sx::Atom(tok.clone()))
        }
    }
    let spaced = s.replace('(', " ( ").replace(')', " ) ");
    let toks: Vec<String> = spaced.split_whitespace().map(|x| x.to_string()).collect();
    let mut i = 0;
    let r = go(&toks, &mut i)?;
    if i == toks.len() { Some(r) } else { None }
}

fn show_sx(s: &Sx) -> String {
    match s {
        Sx::Atom(a) => a.clone(),
        Sx::List(v) => format!("({})", v.iter().map(show_sx).collect::<Vec<_>>().join(" ")),
    }
}

fn atom(s: &str) -> Sx {
    Sx::Atom(s.to_string())
}

fn list(v: Vec<Sx>) -> Sx {
    Sx::List(v)
}

fn head(s: &Sx) -> Option<(&str, &[Sx])> {
    match s {
        Sx::List(v) => match v.split_first() {
            Some((Sx::Atom(h), rest)) => Some((h.as_str(), rest)),
            _ => None,
        },
        _ => None,
    }
}

fn atom_str(s: &Sx) -> Option<&str> {
    match s {
        Sx::Atom(a) => Some(a.as_str()),
        _ => None,
    }
}

// ------------------------------------------------------------------------------------------- programs

#[derive(Clone, Debug)]
struct Envr {
    vars: Vec<Ty>,
    funcs: Vec<Func>,
    ret: Option<Ty>,
}

fn show_env(e: &Envr) -> String {
    let vars = if e.vars.is_empty() { "-".to_string() } else { e.vars.iter().map(|t| show_ty(*t)).collect::<Vec<_>>().join(",") };
    let funcs = if e.funcs.is_empty() { "-".to_string() } else { e.funcs.iter().map(show_func).collect::<Vec<_>>().join(";") };
    let ret = match e.ret {
        None => "void".to_string(),
        Some(t) => show_ty(t),
    };
    format!("{}\t{}\t{}", vars, funcs, ret)
}

fn parse_env(vars: &str, funcs: &str, ret: &str) -> Option<Envr> {
    let vars: Option<Vec<Ty>> = if vars == "-" { Some(vec![]) } else { vars.split(',').map(parse_ty).collect() };
    let funcs: Option<Vec<Func>> = if funcs == "-" { Some(vec![]) } else { funcs.split(';').map(parse_func).collect() };
    let ret = if ret == "void" { None } else { Some(parse_ty(ret)?) };
    Some(Envr { vars: vars?, funcs: funcs?, ret })
}

fn spell_base(l: Layer) -> Option<String> {
    let sc = |s: u8| {
        let n = SCALARS[s as usize].2;
        if n.is_empty() { None } else { Some(n) }
    };
    Some(match l {
        Layer::Scalar(s) => sc(s)?.to_string(),
        Layer::Vector(s, n) if (1..=4).contains(&n) => format!("{}{}", sc(s)?, n),
        Layer::Matrix(s, x, y) if (1..=4).contains(&x) && (1..=4).contains(&y) => format!("{}{}x{}", sc(s)?, x, y),
        Layer::Other(i) => format!("S{}", i),
        _ => return None,
    })
}

fn spell(t: Ty) -> Option<String> {
    let mut s = String::new();
    for (i, w) in MOD_WORDS.iter().enumerate() {
        if t.mods.0 & (1 << i) != 0 {
            s.push_str(w);
            s.push(' ');
        }
    }
    s.push_str(&spell_base(t.layer)?);
    Some(s)
}

fn spell_expr(e: &Sx) -> Option<String> {
    let (h, a) = head(e)?;
    Some(match (h, a) {
        ("lit", [k]) => match atom_str(k)? {
            "Bool" => "true".into(),
            "IntLiteral" => "1".into(),
            "UInt32" => "1u".into(),
            "FloatLiteral" => "1.0".into(),
            "Float16" => "1.0h".into(),
            "Float32" => "1.0f".into(),
            "Float64" => "1.0L".into(),
            _ => return None,
        },
        ("var", [i]) => format!("v{}", atom_str(i)?.parse::<u32>().ok()?),
        ("un", [op, x]) => {
            let x = spell_expr(x)?;
            match atom_str(op)? {
                "PrefixIncrement" => format!("(++{})", x),
                "PrefixDecrement" => format!("(--{})", x),
                "PostfixIncrement" => format!("({}++)", x),
                "PostfixDecrement" => format!("({}--)", x),
                "Plus" => format!("(+{})", x),
                "Minus" => format!("(-{})", x),
                "LogicalNot" => format!("(!{})", x),
                "BitwiseNot" => format!("(~{})", x),
                _ => return None,
            }
        }
        ("bin", [op, x, y]) => {
            let sym = match atom_str(op)? {
                "Add" => "+",
                "Subtract" => "-",
                "Multiply" => "*",
                "Divide" => "/",
                "Modulus" => "%",
                "LeftShift" => "<<",
                "RightShift" => ">>",
                "BitwiseAnd" => "&",
                "BitwiseOr" => "|",
                "BitwiseXor" => "^",
                "BooleanAnd" => "&&",
                "BooleanOr" => "||",
                "LessThan" => "<",
                "LessEqual" => "<=",
                "GreaterThan" => ">",
                "GreaterEqual" => ">=",
                "Equality" => "==",
                "Inequality" => "!=",
                "Assignment" => "=",
                "SumAssignment" => "+=",
                "DifferenceAssignment" => "-=",
                "ProductAssignment" => "*=",
                "QuotientAssignment" => "/=",
                "RemainderAssignment" => "%=",
                "LeftShiftAssignment" => "<<=",
                "RightShiftAssignment" => ">>=",
                "BitwiseAndAssignment" => "&=",
                "BitwiseOrAssignment" => "|=",
                "BitwiseXorAssignment" => "^=",
                "Sequence" => ",",
                _ => return None,
            };
            format!("({} {} {})", spell_expr(x)?, sym, spell_expr(y)?)
        }
        ("tern", [c, x, y]) => format!("({} ? {} : {})", spell_expr(c)?, spell_expr(x)?, spell_expr(y)?),
        ("call", [name, args @ ..]) => {
            let a: Option<Vec<String>> = args.iter().map(spell_expr).collect();
            format!("f{}({})", atom_str(name)?.parse::<u32>().ok()?, a?.join(", "))
        }
        ("cast", [t, x]) => format!("(({}){})", spell(parse_ty(atom_str(t)?)?)?, spell_expr(x)?),
        _ => return None,
    })
}

fn note_layer(l: Layer, others: &mut Vec<u32>) {
    if let Layer::Other(i) = l {
        if !others.contains(&i) {
            others.push(i);
        }
    }
}

fn layers_in_expr(e: &Sx, others: &mut Vec<u32>) {
    if let Some((h, a)) = head(e) {
        if h == "cast" || h == "init" {
            if let Some(t) = a.first().and_then(atom_str).and_then(parse_ty) {
                note_layer(t.layer, others);
            }
        }
        for x in a {
            layers_in_expr(x, others);
        }
    }
}

/// the RSSL program for a request; `with_stmt = false` gives the prelude alone (declarations only)
fn program(env: &Envr, stmt: &Sx, with_stmt: bool) -> Option<String> {
    let mut others = Vec::new();
    for v in &env.vars {
        note_layer(v.layer, &mut others);
    }
    for f in &env.funcs {
        note_layer(f.ret.layer, &mut others);
        for p in &f.params {
            note_layer(p.ty.layer, &mut others);
        }
    }
    if let Some(t) = env.ret {
        note_layer(t.layer, &mut others);
    }
    layers_in_expr(stmt, &mut others);
    others.sort();
    let mut s = String::new();
    for i in &others {
        s.push_str(&format!("struct S{} {{ int q; }};\n", i));
    }
    for f in &env.funcs {
        if f.non_default > f.params.len() {
            return None;
        }
        let mut ps = Vec::new();
        for (i, p) in f.params.iter().enumerate() {
            let io = match p.io {
                Io::In => "",
                Io::Out => "out ",
                Io::InOut => "inout ",
            };
            let mut d = format!("{}{} p{}", io, spell(p.ty)?, i);
            if i >= f.non_default {
                if p.io != Io::In || !matches!(p.ty.layer, Layer::Scalar(_) | Layer::Vector(..) | Layer::Matrix(..)) {
                    return None;
                }
                d.push_str(&format!(" = ({})0", spell_base(p.ty.layer)?));
            }
            ps.push(d);
        }
        s.push_str(&format!("{} f{}({});\n", spell(f.ret)?, f.name, ps.join(", ")));
    }
    let ret = match env.ret {
        None => "void".to_string(),
        Some(t) => spell(t)?,
    };
    s.push_str(&format!("{} t() {{\n", ret));
    for (i, v) in env.vars.iter().enumerate() {
        if v.mods.0 & 1 != 0 {
            s.push_str(&format!("    {} v{} = ({})0;\n", spell(*v)?, i, spell_base(v.layer)?));
        } else {
            s.push_str(&format!("    {} v{};\n", spell(*v)?, i));
        }
    }
    if with_stmt {
        let (h, a) = head(stmt)?;
        match (h, a) {
            ("expr", [e]) => s.push_str(&format!("    {};\n", spell_expr(e)?)),
            ("ret", []) => s.push_str("    return;\n"),
            ("ret", [e]) => s.push_str(&format!("    return {};\n", spell_expr(e)?)),
            ("init", [t, e]) => s.push_str(&format!("    {} w = {};\n", spell(parse_ty(atom_str(t)?)?)?, spell_expr(e)?)),
            _ => return None,
        }
    }
    s.push_str("}\n");
    Some(s)
}

enum Checked {
    Accept(ir::Module),
    Reject(String),
    Front(String),
}

fn type_check(src: &str) -> Checked {
    let mut sm = rssl::text::SourceManager::new();
    let mut inc = MemFiles(vec![("main.rssl".to_string(), src.to_string())]);
    let tokens = match rssl::preprocess::preprocess("main.rssl", &mut sm, &mut inc, &[]) {
        Ok(t) => t,
        Err(_) => return Checked::Front("preprocess".into()),
    };
    let tokens = rssl::preprocess::prepare_tokens(&tokens);
    let ast = match rssl::parser::parse(&tokens) {
        Ok(a) => a,
        Err(_) => return Checked::Front("parse".into()),
    };
    match rssl::typer::type_check(&ast) {
        Ok(m) => Checked::Accept(m),
        Err(e) => {
            let d = format!("{:?}", e.0);
            Checked::Reject(d.chars().take_while(|c| c.is_alphanumeric()).collect())
        }
    }
}

// ------------------------------------------------------------------------------------------- IR dump

struct Names {
    /// StructId -> `o.<k>`
    structs: Vec<(u32, u32)>,
    /// FunctionId -> index in the request's function list
    funcs: Vec<(u32, u32)>,
}

impl Names {
    fn build(module: &ir::Module) -> Names {
        let mut structs = Vec::new();
        for (i, sd) in module.struct_registry.iter().enumerate() {
            let n: &str = &sd.name.node;
            if let Some(k) = n.strip_prefix('S').and_then(|x| x.parse::<u32>().ok()) {
                structs.push((i as u32, k));
            }
        }
        let mut funcs = Vec::new();
        let mut k = 0u32;
        for rd in &module.root_definitions {
            if let ir::RootDefinition::FunctionDeclaration(id) = rd {
                funcs.push((id.0, k));
                k += 1;
            }
        }
        Names { structs, funcs }
    }
    fn st(&self, id: u32) -> Option<u32> {
        self.structs.iter().find(|x| x.0 == id).map(|x| x.1)
    }
    fn func(&self, id: u32) -> Option<u32> {
        self.funcs.iter().find(|x| x.0 == id).map(|x| x.1)
    }
}

fn constant_kind(c: &ir::Constant) -> &'static str {
    match c {
        ir::Constant::Bool(_) => "Bool",
        ir::Constant::IntLiteral(_) => "IntLiteral",
        ir::Constant::Int32(_) => "Int32",
        ir::Constant::UInt32(_) => "UInt32",
        ir::Constant::FloatLiteral(_) => "FloatLiteral",
        ir::Constant::Float16(_) => "Float16",
        ir::Constant::Float32(_) => "Float32",
        ir::Constant::Float64(_) => "Float64",
        _ => "?",
    }
}

fn dump_expr(module: &ir::Module, names: &Names, e: &ir::Expression) -> Sx {
    match e {
        ir::Expression::Literal(c) => list(vec![atom("lit"), atom(constant_kind(c))]),
        ir::Expression::Variable(id) => {
            let name: &str = &module.variable_registry.get_local_variable(*id).name.node;
            match name.strip_prefix('v').and_then(|x| x.parse::<u32>().ok()) {
                Some(i) => list(vec![atom("var"), atom(&i.to_string())]),
                None => list(vec![atom("var"), atom(&format!("?{}", name))]),
            }
        }
        ir::Expression::TernaryConditional(c, a, b) => {
            list(vec![atom("tern"), dump_expr(module, names, c), dump_expr(module, names, a), dump_expr(module, names, b)])
        }
        ir::Expression::Sequence(v) => {
            let mut l = vec![atom("seq")];
            l.extend(v.iter().map(|x| dump_expr(module, names, x)));
            list(l)
        }
        ir::Expression::Call(id, _, args) => {
            let f = match names.func(id.0) {
                Some(k) => k.to_string(),
                None => format!("?{}", module.function_registry.get_function_name(*id)),
            };
            let mut l = vec![atom("call"), atom(&f)];
            l.extend(args.iter().map(|x| dump_expr(module, names, x)));
            list(l)
        }
        ir::Expression::Cast(t, x) => {
            let ts = match describe(module, *t, &|i| names.st(i)) {
                Some(t) => show_ty(t),
                None => format!("?{}", module.get_type_name_short(*t)),
            };
            list(vec![atom("cast"), atom(&ts), dump_expr(module, names, x)])
        }
        ir::Expression::IntrinsicOp(op, args) => {
            let mut l = vec![atom("op"), atom(&format!("{:?}", op))];
            l.extend(args.iter().map(|x| dump_expr(module, names, x)));
            list(l)
        }
        other => {
            let d = format!("{:?}", other);
            atom(&format!("?{}", d.chars().take_while(|c| c.is_alphanumeric()).collect::<String>()))
        }
    }
}

fn type_string(module: &ir::Module, names: &Names, e: &ir::Expression) -> String {
    match guard(|| e.get_type(module)) {
        Err(_) => "panic".into(),
        Ok(Err(_)) => "invalid".into(),
        Ok(Ok(t)) => describe_ety(module, t, &|i| names.st(i)),
    }
}

/// the typed form of the request's statement: the last statement of function `t`
fn dump_stmt(module: &ir::Module, names: &Names) -> Option<(Sx, String)> {
    let id = module.function_registry.iter().find(|id| module.function_registry.get_function_name(*id) == "t")?;
    let imp = module.function_registry.get_function_implementation(id).as_ref()?;
    let last = imp.scope_block.0.last()?;
    Some(match &last.kind {
        ir::StatementKind::Expression(e) => (list(vec![atom("expr"), dump_expr(module, names, e)]), type_string(module, names, e)),
        ir::StatementKind::Return(None) => (list(vec![atom("ret")]), "void".into()),
        ir::StatementKind::Return(Some(e)) => (list(vec![atom("ret"), dump_expr(module, names, e)]), type_string(module, names, e)),
        ir::StatementKind::Var(vd) => {
            let var = module.variable_registry.get_local_variable(vd.id);
            let ts = describe(module, var.type_id, &|i| names.st(i)).map(show_ty).unwrap_or_else(|| "?".into());
            match &vd.init {
                Some(ir::Initializer::Expression(e)) => {
                    (list(vec![atom("init"), atom(&ts), dump_expr(module, names, e)]), type_string(module, names, e))
                }
                _ => return None,
            }
        }
        _ => return None,
    })
}

// ------------------------------------------------------------------------------------------- oracle (property text)

struct Walk<'a> {
    module: &'a ir::Module,
    names: &'a Names,
    errors: Vec<String>,
    nodes: u64,
}

impl<'a> Walk<'a> {
    fn ty(&mut self, e: &ir::Expression) -> Option<ir::ExpressionType> {
        let module = self.module;
        match guard(|| e.get_type(module)) {
            Err(p) => {
                self.errors.push(format!("get_type panics: {}", p));
                None
            }
            Ok(Err(_)) => {
                self.errors.push("get_type: InvalidModule".to_string());
                None
            }
            Ok(Ok(t)) => {
                if t.0.0 >= self.module.type_registry.get_type_count() {
                    self.errors.push("type id out of range".to_string());
                    None
                } else {
                    Some(t)
                }
            }
        }
    }

    fn show(&self, t: ir::TypeId) -> String {
        describe(self.module, t, &|i| self.names.st(i)).map(show_ty).unwrap_or_else(|| self.module.get_type_name_short(t))
    }

    fn is_const(&self, t: ir::TypeId) -> bool {
        self.module.type_registry.extract_modifier(t).1.is_const
    }

    /// the type of an expression **per the declarations**: the declared type of the variable / member / element the
    /// expression denotes, computed structurally (never through `Expression::get_type`, whose answer is under test)
    fn decl_ty(&self, e: &ir::Expression) -> Option<ir::TypeId> {
        let m = self.module;
        let reg = &m.type_registry;
        Some(match e {
            ir::Expression::Variable(id) if id.0 < m.variable_registry.get_variable_count() => m.variable_registry.get_local_variable(*id).type_id,
            ir::Expression::Global(id) => m.global_registry.get(id.0 as usize)?.type_id,
            ir::Expression::MemberVariable(id, idx) | ir::Expression::StructMember(_, id, idx) => {
                m.struct_registry.get(id.0 as usize)?.members.get(*idx as usize)?.type_id
            }
            ir::Expression::ConstantVariable(id) => m.cbuffer_registry.get(id.0.0 as usize)?.members.get(id.1 as usize)?.type_id,
            ir::Expression::ArraySubscript(a, _) => {
                let base = reg.remove_modifier(self.decl_ty(a)?);
                match reg.get_type_layer(base) {
                    ir::TypeLayer::Array(inner, _) => inner,
                    ir::TypeLayer::Vector(st, _) => st,
                    ir::TypeLayer::Matrix(st, _, y) => reg.register_type(ir::TypeLayer::Vector(st, y)),
                    ir::TypeLayer::Object(o) => {
                        use ir::ObjectType::*;
                        match o {
                            Buffer(t) | RWBuffer(t) | StructuredBuffer(t) | RWStructuredBuffer(t) | Texture2D(t) | RWTexture2D(t)
                            | Texture2DMipsSlice(t) | Texture2DArray(t) | RWTexture2DArray(t) | Texture2DArrayMipsSlice(t) | Texture3D(t)
                            | RWTexture3D(t) | Texture3DMipsSlice(t) => t,
                            _ => return None,
                        }
                    }
                    _ => return None,
                }
            }
            ir::Expression::Swizzle(x, slots) => {
                let base = reg.remove_modifier(self.decl_ty(x)?);
                let st = match reg.get_type_layer(base) {
                    ir::TypeLayer::Scalar(_) => base,
                    ir::TypeLayer::Vector(st, _) => st,
                    _ => return None,
                };
                if slots.len() == 1 { st } else { reg.register_type(ir::TypeLayer::Vector(st, slots.len() as u32)) }
            }
            ir::Expression::MatrixSwizzle(x, slots) => {
                let base = reg.remove_modifier(self.decl_ty(x)?);
                let st = match reg.get_type_layer(base) {
                    ir::TypeLayer::Matrix(st, _, _) => st,
                    _ => return None,
                };
                if slots.len() == 1 { st } else { reg.register_type(ir::TypeLayer::Vector(st, slots.len() as u32)) }
            }
            ir::Expression::Call(id, _, _) if id.0 < m.function_registry.get_function_count() => {
                m.function_registry.get_function_signature(*id).return_type.return_type
            }
            ir::Expression::Cast(t, _) | ir::Expression::Constructor(t, _) => *t,
            ir::Expression::Sequence(v) => self.decl_ty(v.last()?)?,
            ir::Expression::IntrinsicOp(op, args) if is_write_op(op) => self.decl_ty(args.first()?)?,
            // values (operator results, `?:`, literals, ...): no declaration to consult, and never an lvalue
            _ => guard(|| e.get_type(m)).ok()?.ok()?.0,
        })
    }

    /// Is the expression something the program may write to, **per the declarations**?  `(is an lvalue, is const, path)`:
    /// a variable is an lvalue, const if declared so (extern globals are implicitly const: their registered type says so);
    /// a member / element / swizzle of something inherits both from it, an element / member is also const if its own
    /// declared type is; a swizzle naming a component twice, a call, a cast, a constructor, an operator result, a literal
    /// are not lvalues.  The path names the projections from the base outwards (`:c` = const at that level).
    fn place(&self, e: &ir::Expression) -> (bool, bool, String) {
        let m = self.module;
        let reg = &m.type_registry;
        let own_const = |w: &Walk, x: &ir::Expression| w.decl_ty(x).map(|t| reg.is_const(t)).unwrap_or(false);
        let mark = |c: bool| if c { ":c" } else { "" };
        match e {
            ir::Expression::Variable(_) | ir::Expression::Global(_) | ir::Expression::MemberVariable(..) | ir::Expression::ConstantVariable(_) => {
                let c = own_const(self, e);
                let arr = matches!(self.decl_ty(e).map(|t| reg.get_type_layer(reg.remove_modifier(t))), Some(ir::TypeLayer::Array(..)));
                // the members of a constant buffer are read-only whatever their declared type says
                if matches!(e, ir::Expression::ConstantVariable(_)) {
                    return (true, true, format!("cbuffer{}:c", if arr { "[a]" } else { "" }));
                }
                let base = if matches!(e, ir::Expression::Variable(_)) { "var" } else { "global" };
                (true, c, format!("{}{}{}", base, if arr { "[a]" } else { "" }, mark(c)))
            }
            ir::Expression::StructMember(x, _, _) => {
                let (l, c, p) = self.place(x);
                let oc = own_const(self, e);
                (l, c || oc, format!("{}>mem{}", p, mark(oc)))
            }
            ir::Expression::ArraySubscript(a, _) => {
                let (l, c, p) = self.place(a);
                let kind = match self.decl_ty(a).map(|t| reg.get_type_layer(reg.remove_modifier(t))) {
                    Some(ir::TypeLayer::Array(..)) => "a",
                    Some(ir::TypeLayer::Vector(..)) => "v",
                    Some(ir::TypeLayer::Matrix(..)) => "m",
                    _ => "?",
                };
                if kind == "?" {
                    // buffers / textures: the object decides — RW resources are written through, the others are read-only
                    use ir::ObjectType::*;
                    return match self.decl_ty(a).map(|t| reg.get_type_layer(reg.remove_modifier(t))) {
                        Some(ir::TypeLayer::Object(RWBuffer(_) | RWStructuredBuffer(_) | RWTexture2D(_) | RWTexture2DArray(_) | RWTexture3D(_))) => {
                            (true, false, format!("{}>idx[rw]", p))
                        }
                        Some(ir::TypeLayer::Object(
                            Buffer(_) | StructuredBuffer(_) | Texture2D(_) | Texture2DMipsSlice(_) | Texture2DArray(_) | Texture2DArrayMipsSlice(_)
                            | Texture3D(_) | Texture3DMipsSlice(_),
                        )) => (true, true, format!("{}>idx[ro]:c", p)),
                        _ => (true, false, format!("{}>idx[?]", p)),
                    };
                }
                let oc = own_const(self, e);
                (l, c || oc, format!("{}>idx[{}]{}", p, kind, mark(oc)))
            }
            ir::Expression::Swizzle(x, slots) => {
                let (l, c, p) = self.place(x);
                let dup = (0..slots.len()).any(|i| (0..i).any(|j| slots[i] == slots[j]));
                (l && !dup, c, format!("{}>swz{}", p, if dup { "[dup]" } else { "" }))
            }
            ir::Expression::MatrixSwizzle(x, slots) => {
                let (l, c, p) = self.place(x);
                let dup = (0..slots.len()).any(|i| (0..i).any(|j| slots[i] == slots[j]));
                (l && !dup, c, format!("{}>mswz{}", p, if dup { "[dup]" } else { "" }))
            }
            ir::Expression::ObjectMember(x, name) => {
                let (l, c, p) = self.place(x);
                if matches!(name.as_str(), "Origin" | "TMin" | "Direction" | "TMax") {
                    // the fields of a RayDesc behave like struct members
                    (l, c, format!("{}>mem[obj]", p))
                } else {
                    (true, false, format!("{}>objmem", p))
                }
            }
            ir::Expression::Sequence(v) => match v.last() {
                Some(x) => self.place(x),
                None => (false, false, "seq".into()),
            },
            ir::Expression::IntrinsicOp(op, args) if is_write_op(op) && !args.is_empty() => {
                // `(a = b)`, `(a += b)`, `++a` denote `a` again
                let (l, c, p) = self.place(&args[0]);
                (l, c, format!("{}>assigned", p))
            }
            ir::Expression::IntrinsicOp(..) => (false, false, "op".into()),
            ir::Expression::Call(..) => (false, false, "call".into()),
            ir::Expression::Cast(..) => (false, false, "cast".into()),
            ir::Expression::Constructor(..) => (false, false, "ctor".into()),
            ir::Expression::TernaryConditional(..) => (false, false, "tern".into()),
            ir::Expression::Literal(_) | ir::Expression::EnumValue(_) | ir::Expression::SizeOf(_) => (false, false, "lit".into()),
        }
    }

    /// a write (assignment family, ++/--, out / inout argument) must go to a non-const lvalue per the declarations
    fn require_writable(&mut self, what: &str, target: &ir::Expression) {
        let (l, c, path) = self.place(target);
        if !l {
            self.errors.push(format!("{} writes to a non-lvalue per the declarations: {}", what, path));
        } else if c {
            self.errors.push(format!("{} writes to a const object per the declarations: {}", what, path));
        }
    }

    fn require(&mut self, what: &str, required: ir::TypeId, got: ir::TypeId) {
        if required != got {
            let reg = &self.module.type_registry;
            let only_mods = reg.remove_modifier(required) == reg.remove_modifier(got);
            self.errors.push(format!(
                "inexact {}: requires {} but receives {}{}",
                what,
                self.show(required),
                self.show(got),
                if only_mods { " (modifier-only)" } else { "" }
            ));
        }
    }

    fn expr(&mut self, e: &ir::Expression) {
        self.nodes += 1;
        let m = self.module;
        // every expression has a well-defined type
        let _ = self.ty(e);
        match e {
            ir::Expression::Literal(_) => {}
            ir::Expression::Variable(id) => {
                if id.0 >= m.variable_registry.get_variable_count() {
                    self.errors.push("variable id out of range".into());
                }
            }
            ir::Expression::Global(id) => {
                if id.0 as usize >= m.global_registry.len() {
                    self.errors.push("global id out of range".into());
                }
            }
            ir::Expression::MemberVariable(id, idx) | ir::Expression::StructMember(_, id, idx) => {
                if id.0 as usize >= m.struct_registry.len() || *idx as usize >= m.struct_registry[id.0 as usize].members.len() {
                    self.errors.push("struct member out of range".into());
                }
                if let ir::Expression::StructMember(x, _, _) = e {
                    self.expr(x);
                    // the operand is a value of that struct
                    if let Some(t) = self.ty(x) {
                        let mut l = m.type_registry.get_type_layer(m.type_registry.remove_modifier(t.0));
                        if let ir::TypeLayer::Object(ir::ObjectType::ConstantBuffer(inner)) = l {
                            l = m.type_registry.get_type_layer(m.type_registry.remove_modifier(inner));
                        }
                        if l != ir::TypeLayer::Struct(*id) {
                            self.errors.push(format!("member of struct {} taken from {}", id.0, self.show(t.0)));
                        }
                    }
                }
            }
            ir::Expression::ConstantVariable(id) => {
                if id.0.0 as usize >= m.cbuffer_registry.len() || id.1 as usize >= m.cbuffer_registry[id.0.0 as usize].members.len() {
                    self.errors.push("constant buffer member out of range".into());
                }
            }
            ir::Expression::EnumValue(_) | ir::Expression::SizeOf(_) => {}
            ir::Expression::TernaryConditional(c, a, b) => {
                self.expr(c);
                self.expr(a);
                self.expr(b);
                let bool_ty = m.type_registry.register_type(ir::TypeLayer::Scalar(ScalarType::Bool));
                if let Some(tc) = self.ty(c) {
                    self.require("ternary condition", bool_ty, tc.0);
                }
                if let (Some(ta), Some(tb)) = (self.ty(a), self.ty(b)) {
                    self.require("ternary arms", ta.0, tb.0);
                }
            }
            ir::Expression::Sequence(v) => {
                if v.is_empty() {
                    self.errors.push("empty sequence".into());
                }
                for x in v {
                    self.expr(x);
                }
            }
            ir::Expression::ObjectMember(x, _) => self.expr(x),
            ir::Expression::Swizzle(x, slots) => {
                self.expr(x);
                // a swizzle selects existing components of a scalar / vector
                if slots.is_empty() {
                    self.errors.push("swizzle without components".into());
                }
                // ... and at most four: there is no vector type with more components
                if slots.len() > 4 {
                    self.errors.push(format!("swizzle with {} components", slots.len()));
                }
                if let Some(t) = self.ty(x) {
                    let width = match m.type_registry.get_type_layer(m.type_registry.remove_modifier(t.0)) {
                        ir::TypeLayer::Scalar(_) => Some(1),
                        ir::TypeLayer::Vector(_, n) => Some(n),
                        _ => None,
                    };
                    match width {
                        None => self.errors.push(format!("swizzle of a non-vector: {}", self.show(t.0))),
                        Some(n) => {
                            for sl in slots {
                                let k = match sl {
                                    ir::SwizzleSlot::X => 0,
                                    ir::SwizzleSlot::Y => 1,
                                    ir::SwizzleSlot::Z => 2,
                                    ir::SwizzleSlot::W => 3,
                                };
                                if k >= n {
                                    self.errors.push(format!("swizzle component {} of {}", k, self.show(t.0)));
                                }
                            }
                        }
                    }
                }
            }
            ir::Expression::MatrixSwizzle(x, slots) => {
                self.expr(x);
                if slots.is_empty() {
                    self.errors.push("matrix swizzle without components".into());
                }
                if let Some(t) = self.ty(x) {
                    match m.type_registry.get_type_layer(m.type_registry.remove_modifier(t.0)) {
                        ir::TypeLayer::Matrix(_, rows, cols) => {
                            let c = |c: &ir::ComponentIndex| match c {
                                ir::ComponentIndex::First => 0,
                                ir::ComponentIndex::Second => 1,
                                ir::ComponentIndex::Third => 2,
                                ir::ComponentIndex::Forth => 3,
                            };
                            for sl in slots {
                                if c(&sl.0) >= rows || c(&sl.1) >= cols {
                                    self.errors.push(format!("matrix swizzle component {}.{} of {}", c(&sl.0), c(&sl.1), self.show(t.0)));
                                }
                            }
                        }
                        _ => self.errors.push(format!("matrix swizzle of a non-matrix: {}", self.show(t.0))),
                    }
                }
            }
            ir::Expression::ArraySubscript(a, i) => {
                self.expr(a);
                self.expr(i);
                // arrays, vectors and matrices are indexed by exactly a `uint`
                if let (Some(ta), Some(ti)) = (self.ty(a), self.ty(i)) {
                    match m.type_registry.get_type_layer(m.type_registry.remove_modifier(ta.0)) {
                        ir::TypeLayer::Array(..) | ir::TypeLayer::Vector(..) | ir::TypeLayer::Matrix(..) => {
                            let uint_ty = m.type_registry.register_type(ir::TypeLayer::Scalar(ScalarType::UInt32));
                            self.require("subscript index", uint_ty, ti.0);
                        }
                        ir::TypeLayer::Object(o) => {
                            // buffers are indexed by a `uint`, 2D textures by a `uint2`, 2D texture arrays and 3D textures by a `uint3`
                            use ir::ObjectType::*;
                            let width = match o {
                                Buffer(_) | RWBuffer(_) | StructuredBuffer(_) | RWStructuredBuffer(_) | Texture2DMips(_) | Texture2DArrayMips(_)
                                | Texture3DMips(_) => Some(1),
                                Texture2D(_) | Texture2DMipsSlice(_) | RWTexture2D(_) => Some(2),
                                Texture2DArray(_) | Texture2DArrayMipsSlice(_) | RWTexture2DArray(_) | Texture3D(_) | Texture3DMipsSlice(_)
                                | RWTexture3D(_) => Some(3),
                                _ => None,
                            };
                            match width {
                                Some(w) => {
                                    let uint_ty = m.type_registry.register_type(ir::TypeLayer::Scalar(ScalarType::UInt32));
                                    let req = if w == 1 { uint_ty } else { m.type_registry.register_type(ir::TypeLayer::Vector(uint_ty, w)) };
                                    self.require("subscript index", req, ti.0);
                                }
                                None => self.errors.push(format!("subscript of an object without subscript: {}", self.show(ta.0))),
                            }
                        }
                        _ => self.errors.push(format!("subscript of a non-array: {}", self.show(ta.0))),
                    }
                }
            }
            ir::Expression::Constructor(t, slots) => {
                for s in slots {
                    self.expr(&s.expr);
                }
                // a numeric constructor receives, slot by slot, values of its own scalar kind; the slot arities are the
                // element counts of the slot values and add up to the element count of the constructed type
                let reg = &m.type_registry;
                let base = reg.remove_modifier(*t);
                let tyl = reg.get_type_layer(base);
                match (matches!(tyl, ir::TypeLayer::Scalar(_) | ir::TypeLayer::Vector(..) | ir::TypeLayer::Matrix(..)), reg.extract_scalar(base)) {
                    (true, Some(sc)) => {
                        let mut total = 0;
                        for s in slots {
                            total += s.arity;
                            if let Some(ts) = self.ty(&s.expr) {
                                let sl = reg.get_type_layer(ts.0);
                                let numeric = matches!(sl, ir::TypeLayer::Scalar(_) | ir::TypeLayer::Vector(..) | ir::TypeLayer::Matrix(..));
                                if !numeric || reg.extract_scalar(ts.0) != Some(sc) {
                                    self.errors.push(format!("constructor of {} receives a slot of type {}", self.show(*t), self.show(ts.0)));
                                } else if sl.get_num_elements() != s.arity {
                                    self.errors.push(format!("constructor slot of arity {} holds {}", s.arity, self.show(ts.0)));
                                }
                            }
                        }
                        if total != tyl.get_num_elements() {
                            self.errors.push(format!("constructor of {} receives {} elements", self.show(*t), total));
                        }
                    }
                    _ => self.errors.push(format!("constructor of a non-numeric type {}", self.show(*t))),
                }
            }
            ir::Expression::Cast(t, x) => {
                if t.0 >= m.type_registry.get_type_count() {
                    self.errors.push("cast type id out of range".into());
                }
                self.expr(x);
            }
            ir::Expression::Call(id, ct, args) => {
                for a in args {
                    self.expr(a);
                }
                if id.0 >= m.function_registry.get_function_count() {
                    self.errors.push("function id out of range".into());
                    return;
                }
                // functions called as free functions (user functions and non-template intrinsic functions): arguments are
                // exactly the parameter types
                let sig0 = m.function_registry.get_function_signature(*id);
                // a method call carries the object as an extra first argument
                let skip = if *ct == ir::CallType::FreeFunction { 0 } else { 1 };
                if sig0.template_params.is_empty() && args.len() >= skip {
                    let sig = sig0.clone();
                    let args = &args[skip..];
                    if args.len() > sig.param_types.len() || args.len() < sig.non_default_params {
                        self.errors.push(format!("call with {} arguments, signature takes {}..{}", args.len(), sig.non_default_params, sig.param_types.len()));
                    }
                    for (a, p) in args.iter().zip(sig.param_types.iter()) {
                        if let Some(ta) = self.ty(a) {
                            self.require("call argument", p.type_id, ta.0);
                            if p.input_modifier != ir::InputModifier::In {
                                if ta.1 != ir::ValueType::Lvalue {
                                    let what = match a {
                                        ir::Expression::Cast(_, inner) => match self.ty(inner) {
                                            Some(ti) if ti.1 == ir::ValueType::Lvalue => {
                                                format!(": Cast of lvalue {} to {}", self.show(ti.0), self.show(p.type_id))
                                            }
                                            _ => String::new(),
                                        },
                                        _ => String::new(),
                                    };
                                    self.errors.push(format!("rvalue passed to out/inout parameter{}", what));
                                }
                                if self.is_const(ta.0) {
                                    self.errors.push("const passed to out/inout parameter".into());
                                }
                                if ta.1 == ir::ValueType::Lvalue && !self.is_const(ta.0) {
                                    self.require_writable("out/inout argument", a);
                                }
                            }
                        }
                    }
                }
            }
            ir::Expression::IntrinsicOp(op, args) => {
                for a in args {
                    self.expr(a);
                }
                use ir::IntrinsicOp::*;
                let tys: Vec<Option<ir::ExpressionType>> = args.iter().map(|a| self.ty(a)).collect();
                match op {
                    PrefixIncrement | PrefixDecrement | PostfixIncrement | PostfixDecrement => {
                        if args.len() != 1 {
                            self.errors.push("increment arity".into());
                        } else if let Some(t) = tys[0] {
                            if t.1 != ir::ValueType::Lvalue {
                                self.errors.push("increment of rvalue".into());
                            }
                            if self.is_const(t.0) {
                                self.errors.push("increment of const".into());
                            }
                            let base = m.type_registry.remove_modifier(t.0);
                            // enums are incrementable by decision (fix 606facd keeps `is_incrementable` true for them)
                            let numeric = matches!(
                                m.type_registry.get_type_layer(base),
                                ir::TypeLayer::Scalar(_) | ir::TypeLayer::Vector(..) | ir::TypeLayer::Matrix(..) | ir::TypeLayer::Enum(_)
                            );
                            if !numeric || m.type_registry.extract_scalar(base) == Some(ScalarType::Bool) {
                                self.errors.push(format!("increment of a non-numeric operand: {}", self.show(t.0)));
                            }
                            if t.1 == ir::ValueType::Lvalue && !self.is_const(t.0) {
                                self.require_writable("increment", &args[0]);
                            }
                        }
                    }
                    Plus | Minus | LogicalNot | BitwiseNot => {
                        if args.len() != 1 {
                            self.errors.push("unary arity".into());
                        }
                    }
                    Add | Subtract | Multiply | Divide | Modulus | LeftShift | RightShift | BitwiseAnd | BitwiseOr | BitwiseXor
                    | BooleanAnd | BooleanOr | LessThan | LessEqual | GreaterThan | GreaterEqual | Equality | Inequality => {
                        if args.len() != 2 {
                            self.errors.push("binary arity".into());
                        } else if let (Some(a), Some(b)) = (tys[0], tys[1]) {
                            self.require("binary operand", a.0, b.0);
                            if matches!(op, BooleanAnd | BooleanOr) {
                                let bool_ty = m.type_registry.register_type(ir::TypeLayer::Scalar(ScalarType::Bool));
                                self.require("logical operand", bool_ty, a.0);
                            }
                        }
                    }
                    Assignment | SumAssignment | DifferenceAssignment | ProductAssignment | QuotientAssignment | RemainderAssignment
                    | LeftShiftAssignment | RightShiftAssignment | BitwiseAndAssignment | BitwiseOrAssignment | BitwiseXorAssignment => {
                        if args.len() != 2 {
                            self.errors.push("assignment arity".into());
                        } else if let (Some(a), Some(b)) = (tys[0], tys[1]) {
                            if a.1 != ir::ValueType::Lvalue {
                                self.errors.push("assignment to rvalue".into());
                            }
                            if self.is_const(a.0) {
                                self.errors.push("assignment to const".into());
                            }
                            if a.1 == ir::ValueType::Lvalue && !self.is_const(a.0) {
                                self.require_writable("assignment", &args[0]);
                            }
                            self.require("assigned value", a.0, b.0);
                        }
                    }
                    _ => {}
                }
            }
        }
    }

    fn init(&mut self, i: &ir::Initializer, required: Option<ir::TypeId>) {
        match i {
            ir::Initializer::Expression(e) => {
                self.expr(e);
                if let (Some(r), Some(t)) = (required, self.ty(e)) {
                    let r = self.module.type_registry.remove_modifier(r);
                    self.require("initialiser", r, t.0);
                }
            }
            ir::Initializer::Aggregate(v) => {
                // an aggregate has one item per component, each initialising exactly that component
                let reg = &self.module.type_registry;
                let comps: Option<Vec<ir::TypeId>> = required.and_then(|r| match reg.get_type_layer(reg.remove_modifier(r)) {
                    ir::TypeLayer::Vector(st, n) => Some(vec![st; n as usize]),
                    ir::TypeLayer::Array(inner, Some(n)) => Some(vec![inner; n as usize]),
                    ir::TypeLayer::Struct(id) => self.module.struct_registry.get(id.0 as usize).map(|sd| sd.members.iter().map(|m| m.type_id).collect()),
                    _ => None,
                });
                match comps {
                    Some(c) => {
                        if c.len() != v.len() {
                            self.errors.push(format!("aggregate initialiser with {} items for {} components", v.len(), c.len()));
                        }
                        for (x, t) in v.iter().zip(c.iter()) {
                            self.init(x, Some(*t));
                        }
                    }
                    None => {
                        if let Some(r) = required {
                            self.errors.push(format!("aggregate initialiser for {}", self.show(r)));
                        }
                        for x in v {
                            self.init(x, None);
                        }
                    }
                }
            }
        }
    }

    fn vardef(&mut self, vd: &ir::VarDef) {
        if vd.id.0 >= self.module.variable_registry.get_variable_count() {
            self.errors.push("variable id out of range".into());
            return;
        }
        let ty = self.module.variable_registry.get_local_variable(vd.id).type_id;
        if let Some(i) = &vd.init {
            self.init(i, Some(ty));
        }
    }

    fn block(&mut self, b: &ir::ScopeBlock, ret: ir::TypeId) {
        for s in &b.0 {
            match &s.kind {
                ir::StatementKind::Expression(e) => self.expr(e),
                ir::StatementKind::Var(vd) => self.vardef(vd),
                ir::StatementKind::Block(b) => self.block(b, ret),
                ir::StatementKind::If(c, b) | ir::StatementKind::While(c, b) | ir::StatementKind::Switch(c, b) => {
                    self.expr(c);
                    self.block(b, ret);
                }
                ir::StatementKind::DoWhile(b, c) => {
                    self.block(b, ret);
                    self.expr(c);
                }
                ir::StatementKind::IfElse(c, a, b) => {
                    self.expr(c);
                    self.block(a, ret);
                    self.block(b, ret);
                }
                ir::StatementKind::For(i, c, n, b) => {
                    match i {
                        ir::ForInit::Empty => {}
                        ir::ForInit::Expression(e) => self.expr(e),
                        ir::ForInit::Definitions(v) => {
                            for vd in v {
                                self.vardef(vd);
                            }
                        }
                    }
                    if let Some(c) = c {
                        self.expr(c);
                    }
                    if let Some(n) = n {
                        self.expr(n);
                    }
                    self.block(b, ret);
                }
                ir::StatementKind::Return(Some(e)) => {
                    self.expr(e);
                    if let Some(t) = self.ty(e) {
                        self.require("return", ret, t.0);
                    }
                }
                ir::StatementKind::Return(None) => {
                    if !self.module.type_registry.is_void(ret) {
                        self.errors.push("return without value in non-void function".into());
                    }
                }
                _ => {}
            }
        }
    }
}

/// operators whose result denotes their first operand again (assignment family, prefix ++ / --)
fn is_write_op(op: &ir::IntrinsicOp) -> bool {
    use ir::IntrinsicOp::*;
    matches!(
        op,
        PrefixIncrement | PrefixDecrement | Assignment | SumAssignment | DifferenceAssignment | ProductAssignment | QuotientAssignment
            | RemainderAssignment | LeftShiftAssignment | RightShiftAssignment | BitwiseAndAssignment | BitwiseOrAssignment
            | BitwiseXorAssignment
    )
}

/// walk every function body of an accepted module; returns (node count, violations)
fn walk_module(module: &ir::Module, names: &Names) -> (u64, Vec<String>) {
    let mut w = Walk { module, names, errors: Vec::new(), nodes: 0 };
    for id in module.function_registry.iter() {
        if module.function_registry.get_intrinsic_data(id).is_some() {
            continue;
        }
        if let Some(imp) = module.function_registry.get_function_implementation(id) {
            let ret = module.function_registry.get_function_signature(id).return_type.return_type;
            for p in &imp.params {
                if let Some(d) = &p.default_expr {
                    w.expr(d);
                    // a default argument initialises the parameter: exactly the parameter's (unmodified) type
                    if let Some(t) = w.ty(d) {
                        let reg = &module.type_registry;
                        w.require("default argument", reg.remove_modifier(p.param_type.type_id), reg.remove_modifier(t.0));
                    }
                }
            }
            w.block(&imp.scope_block, ret);
        }
    }
    (w.nodes, w.errors)
}

// ------------------------------------------------------------------------------------------- running a request

fn stmt_expr(stmt: &Sx) -> Option<&Sx> {
    match head(stmt)? {
        ("expr", [e]) | ("ret", [e]) | ("init", [_, e]) => Some(e),
        _ => None,
    }
}

fn sub_exprs(e: &Sx) -> Vec<&Sx> {
    match head(e) {
        Some(("un", [_, x])) | Some(("cast", [_, x])) => vec![x],
        Some(("bin", [_, x, y])) => vec![x, y],
        Some(("tern", [c, x, y])) => vec![c, x, y],
        Some(("call", [_, xs @ ..])) => xs.iter().collect(),
        _ => vec![],
    }
}

/// `(expr e)` in the environment: Err = panics, Ok(type of the typed expression or the diagnostic)
fn probe(env: &Envr, e: &Sx) -> Result<String, String> {
    let stmt = s_expr(e.clone());
    let Some(src) = program(env, &stmt, true) else {
        return Ok("?".into());
    };
    match guard(|| type_check(&src)) {
        Err(p) => Err(p),
        Ok(Checked::Accept(m)) => {
            let names = Names::build(&m);
            Ok(dump_stmt(&m, &names).map(|x| x.1).unwrap_or_else(|| "?".into()))
        }
        Ok(Checked::Reject(k)) => Ok(format!("reject:{}", k)),
        Ok(Checked::Front(k)) => Ok(format!("front:{}", k)),
    }
}

/// the innermost sub-expression that panics on its own, written with the types of its operands
fn innermost_panic(env: &Envr, e: &Sx) -> String {
    for c in sub_exprs(e) {
        if probe(env, c).is_err() {
            return innermost_panic(env, c);
        }
    }
    let tys: Vec<String> = sub_exprs(e).iter().map(|c| probe(env, c).unwrap_or_else(|_| "panic".into())).collect();
    match head(e) {
        Some((h @ ("un" | "bin"), [op, ..])) => format!("({} {} {})", h, atom_str(op).unwrap_or("?"), tys.join(" ")),
        Some(("call", [n, ..])) => format!("(call {} {})", atom_str(n).unwrap_or("?"), tys.join(" ")),
        Some(("cast", [t, ..])) => format!("(cast {} {})", atom_str(t).unwrap_or("?"), tys.join(" ")),
        Some((h, _)) => format!("({} {})", h, tys.join(" ")),
        None => "?".into(),
    }
}

fn panic_file(p: &str) -> String {
    let loc = p.split(':').next().unwrap_or("?");
    loc.rsplit('/').next().unwrap_or("?").to_string()
}

struct Runner {
    hist: Hist,
    compiles: u64,
    nodes: u64,
    typed: Vec<String>,
}

impl Runner {
    fn prog_case(&mut self, env: &Envr, stmt: &Sx, expect: &str, out: &mut Out) {
        let req = format!("C03.prog\t{}\t{}\t{}", show_env(env), show_sx(stmt), expect);
        let (Some(prelude), Some(src)) = (program(env, stmt, false), program(env, stmt, true)) else {
            out.case(&req, "-", "SKIP:not expressible as an RSSL program");
            self.hist.add("prog:skip-inexpressible");
            return;
        };
        // the declarations alone must be accepted, otherwise the request says nothing about the statement
        self.compiles += 2;
        match guard(|| type_check(&prelude)) {
            Ok(Checked::Accept(m)) => {
                let n = Names::build(&m);
                if n.funcs.len() != env.funcs.len() {
                    out.case(&req, "-", "SKIP:function declarations were merged");
                    self.hist.add("prog:skip-prelude");
                    return;
                }
            }
            _ => {
                out.case(&req, "-", "SKIP:declarations are not accepted");
                self.hist.add("prog:skip-prelude");
                return;
            }
        }
        let res = guard(|| type_check(&src));
        let (obs, oracle) = match res {
            Err(p) => {
                self.hist.add("verdict:panic");
                // locate the innermost sub-expression whose elaboration panics and describe it by its operand types
                let at = stmt_expr(stmt).map(|e| innermost_panic(env, e)).unwrap_or_else(|| "?".to_string());
                self.compiles += 4;
                (format!("panic {}", panic_file(&p)), format!("FAIL:panic {} @ {}", p, at))
            }
            Ok(Checked::Front(stage)) => {
                self.hist.add("prog:skip-front");
                (format!("front {}", stage), "SKIP:rejected before type checking".to_string())
            }
            Ok(Checked::Reject(kind)) => {
                self.hist.add("verdict:reject");
                self.hist.add(&format!("reject:{}", kind));
                if expect == "accept" {
                    self.hist.add("expect-accept-but-rejected");
                }
                (format!("reject {}", kind), "ok".to_string())
            }
            Ok(Checked::Accept(m)) => {
                self.hist.add("verdict:accept");
                let names = Names::build(&m);
                let (nodes, errors) = walk_module(&m, &names);
                self.nodes += nodes;
                let obs = match dump_stmt(&m, &names) {
                    Some((sx, ty)) => {
                        let s = show_sx(&sx);
                        if !s.contains('?') && self.typed.len() < 100_000 {
                            self.typed.push(format!("C03.type\t{}\t{}", show_env(env), s));
                        }
                        format!("accept {} : {}", s, ty)
                    }
                    None => "accept ?".to_string(),
                };
                let oracle = if expect == "reject" {
                    "FAIL:accepted a program carrying an injected typing violation".to_string()
                } else if let Some(e) = errors.first() {
                    format!("FAIL:{}", e)
                } else {
                    "ok".to_string()
                };
                (obs, oracle)
            }
        };
        self.hist.add(&format!("expect:{}", expect));
        if let Some((h, _)) = head(stmt) {
            self.hist.add(&format!("stmt:{}", h));
        }
        count_nodes(stmt, &mut self.hist);
        out.case(&req, &obs, &oracle);
    }

    /// C03.src: a raw RSSL program (one line); observation = verdict + Debug of the last statement of `t`; the IR walk
    /// is the oracle.  Not compared with the model (it answers `unsupported`): used for reproducers and probing.
    fn src_case(&mut self, src: &str, out: &mut Out) {
        let req = format!("C03.src\t{}", src);
        self.compiles += 1;
        let (obs, oracle) = match guard(|| type_check(src)) {
            Err(p) => (format!("panic {}", panic_file(&p)), format!("FAIL:panic {}", p)),
            Ok(Checked::Front(stage)) => (format!("front {}", stage), "SKIP:rejected before type checking".to_string()),
            Ok(Checked::Reject(kind)) => (format!("reject {}", kind), "ok".to_string()),
            Ok(Checked::Accept(m)) => {
                let names = Names::build(&m);
                let (nodes, errors) = walk_module(&m, &names);
                self.nodes += nodes;
                let last = m
                    .function_registry
                    .iter()
                    .find(|id| m.function_registry.get_function_name(*id) == "t")
                    .and_then(|id| m.function_registry.get_function_implementation(id).as_ref())
                    .and_then(|imp| imp.scope_block.0.last())
                    .map(|s| one_line(&format!("{:?}", s.kind)))
                    .unwrap_or_else(|| "?".into());
                (format!("accept {}", last), errors.first().map(|e| format!("FAIL:{}", e)).unwrap_or_else(|| "ok".into()))
            }
        };
        out.case(&req, &obs, &oracle);
    }

    /// C03.type: the real `get_type` of every node of a typed statement, in pre-order
    fn type_case(&mut self, env: &Envr, typed: &Sx, out: &mut Out) {
        let req = format!("C03.type\t{}\t{}", show_env(env), show_sx(typed));
        // rebuild the program from the typed form: the typed statement is re-elaborated from an equivalent source
        // (casts explicit), so instead the original program is recompiled: the request carries no source, hence the
        // typed statement is rebuilt directly as IR over a module holding the declarations.
        let Some(prelude) = program(env, &list(vec![atom("ret")]), false) else {
            out.case(&req, "-", "SKIP:not expressible");
            return;
        };
        let m = match guard(|| type_check(&prelude)) {
            Ok(Checked::Accept(m)) => m,
            _ => {
                out.case(&req, "-", "SKIP:declarations are not accepted");
                return;
            }
        };
        let names = Names::build(&m);
        let Some((_, args)) = head(typed) else {
            out.case(&req, "-", "SKIP:bad request");
            return;
        };
        let e = match args.last() {
            Some(e @ Sx::List(_)) => e,
            _ => {
                out.case(&req, "void", "ok");
                return;
            }
        };
        let mut b = Build { module: &m, names: &names };
        match b.expr(e) {
            None => out.case(&req, "-", "SKIP:cannot rebuild the IR"),
            Some(ir_e) => {
                let mut tys = Vec::new();
                preorder_types(&m, &names, &ir_e, &mut tys);
                self.hist.add("type:rows");
                out.case(&req, &tys.join(" "), "ok");
            }
        }
    }
}

fn preorder_types(m: &ir::Module, names: &Names, e: &ir::Expression, out: &mut Vec<String>) {
    out.push(type_string(m, names, e));
    match e {
        ir::Expression::TernaryConditional(c, a, b) => {
            preorder_types(m, names, c, out);
            preorder_types(m, names, a, out);
            preorder_types(m, names, b, out);
        }
        ir::Expression::Sequence(v) | ir::Expression::Call(_, _, v) | ir::Expression::IntrinsicOp(_, v) => {
            for x in v {
                preorder_types(m, names, x, out);
            }
        }
        ir::Expression::Cast(_, x) => preorder_types(m, names, x, out),
        _ => {}
    }
}

/// rebuild `ir::Expression` from the typed s-expression over a module holding the declarations
struct Build<'a> {
    module: &'a ir::Module,
    names: &'a Names,
}

impl<'a> Build<'a> {
    fn type_id(&self, t: Ty) -> Option<ir::TypeId> {
        let reg = &self.module.type_registry;
        let sid = |s: u8| reg.register_type(ir::TypeLayer::Scalar(SCALARS[s as usize].0));
        let base = match t.layer {
            Layer::Scalar(s) => sid(s),
            Layer::Vector(s, n) => {
                let i = sid(s);
                reg.register_type(ir::TypeLayer::Vector(i, n))
            }
            Layer::Matrix(s, x, y) => {
                let i = sid(s);
                reg.register_type(ir::TypeLayer::Matrix(i, x, y))
            }
            Layer::Other(k) => {
                let sid = self.names.structs.iter().find(|x| x.1 == k)?.0;
                reg.register_type(ir::TypeLayer::Struct(ir::StructId(sid)))
            }
            Layer::Enum(_) => return None,
        };
        Some(if t.mods.0 == 0 { base } else { reg.register_type(ir::TypeLayer::Modifier(modifier_of(t.mods), base)) })
    }

    fn expr(&mut self, e: &Sx) -> Option<ir::Expression> {
        let (h, a) = head(e)?;
        Some(match (h, a) {
            ("lit", [k]) => ir::Expression::Literal(match atom_str(k)? {
                "Bool" => ir::Constant::Bool(true),
                "IntLiteral" => ir::Constant::IntLiteral(1),
                "Int32" => ir::Constant::Int32(1),
                "UInt32" => ir::Constant::UInt32(1),
                "FloatLiteral" => ir::Constant::FloatLiteral(1.0),
                "Float16" => ir::Constant::Float16(1.0),
                "Float32" => ir::Constant::Float32(1.0),
                "Float64" => ir::Constant::Float64(1.0),
                _ => return None,
            }),
            ("var", [i]) => {
                let name = format!("v{}", atom_str(i)?);
                let id = self.module.variable_registry.iter().find(|id| {
                    let n: &str = &self.module.variable_registry.get_local_variable(*id).name.node;
                    n == name
                })?;
                ir::Expression::Variable(id)
            }
            ("tern", [c, x, y]) => ir::Expression::TernaryConditional(Box::new(self.expr(c)?), Box::new(self.expr(x)?), Box::new(self.expr(y)?)),
            ("seq", xs) => ir::Expression::Sequence(xs.iter().map(|x| self.expr(x)).collect::<Option<Vec<_>>>()?),
            ("call", [f, xs @ ..]) => {
                let k: u32 = atom_str(f)?.parse().ok()?;
                let id = self.names.funcs.iter().find(|x| x.1 == k)?.0;
                ir::Expression::Call(ir::FunctionId(id), ir::CallType::FreeFunction, xs.iter().map(|x| self.expr(x)).collect::<Option<Vec<_>>>()?)
            }
            ("cast", [t, x]) => ir::Expression::Cast(self.type_id(parse_ty(atom_str(t)?)?)?, Box::new(self.expr(x)?)),
            ("op", [o, xs @ ..]) => {
                let op = intrinsic_by_name(atom_str(o)?)?;
                ir::Expression::IntrinsicOp(op, xs.iter().map(|x| self.expr(x)).collect::<Option<Vec<_>>>()?)
            }
            _ => return None,
        })
    }
}

fn intrinsic_by_name(s: &str) -> Option<ir::IntrinsicOp> {
    use ir::IntrinsicOp::*;
    let all = [
        PrefixIncrement, PrefixDecrement, PostfixIncrement, PostfixDecrement, Plus, Minus, LogicalNot, BitwiseNot, Add, Subtract,
        Multiply, Divide, Modulus, LeftShift, RightShift, BitwiseAnd, BitwiseOr, BitwiseXor, BooleanAnd, BooleanOr, LessThan,
        LessEqual, GreaterThan, GreaterEqual, Equality, Inequality, Assignment, SumAssignment, DifferenceAssignment,
        ProductAssignment, QuotientAssignment, RemainderAssignment, LeftShiftAssignment, RightShiftAssignment,
        BitwiseAndAssignment, BitwiseOrAssignment, BitwiseXorAssignment,
    ];
    all.into_iter().find(|o| format!("{:?}", o) == s)
}

fn count_nodes(e: &Sx, hist: &mut Hist) {
    if let Some((h, a)) = head(e) {
        match h {
            "un" | "bin" => {
                if let Some(op) = a.first().and_then(atom_str) {
                    hist.add(&format!("node:{}:{}", h, op));
                }
            }
            "lit" | "var" | "tern" | "call" | "cast" => hist.add(&format!("node:{}", h)),
            _ => {}
        }
        for x in a {
            count_nodes(x, hist);
        }
    }
}

// ------------------------------------------------------------------------------------------- generators

const UNOPS: &[&str] = &["PrefixIncrement", "PrefixDecrement", "PostfixIncrement", "PostfixDecrement", "Plus", "Minus", "LogicalNot", "BitwiseNot"];
const ARITH: &[&str] = &[
    "Add", "Subtract", "Multiply", "Divide", "Modulus", "LeftShift", "RightShift", "BitwiseAnd", "BitwiseOr", "BitwiseXor", "BooleanAnd",
    "BooleanOr", "LessThan", "LessEqual", "GreaterThan", "GreaterEqual", "Equality", "Inequality",
];
const ASSIGN: &[&str] = &[
    "Assignment", "SumAssignment", "DifferenceAssignment", "ProductAssignment", "QuotientAssignment", "RemainderAssignment",
    "LeftShiftAssignment", "RightShiftAssignment", "BitwiseAndAssignment", "BitwiseOrAssignment", "BitwiseXorAssignment",
];
const LITS: &[&str] = &["Bool", "IntLiteral", "UInt32", "FloatLiteral", "Float16", "Float32", "Float64"];

fn var(i: usize) -> Sx {
    list(vec![atom("var"), atom(&i.to_string())])
}
fn lit(k: &str) -> Sx {
    list(vec![atom("lit"), atom(k)])
}
fn un(op: &str, e: Sx) -> Sx {
    list(vec![atom("un"), atom(op), e])
}
fn bin(op: &str, a: Sx, b: Sx) -> Sx {
    list(vec![atom("bin"), atom(op), a, b])
}
fn tern(c: Sx, a: Sx, b: Sx) -> Sx {
    list(vec![atom("tern"), c, a, b])
}
fn call(name: u32, args: Vec<Sx>) -> Sx {
    let mut l = vec![atom("call"), atom(&name.to_string())];
    l.extend(args);
    list(l)
}
fn cast(t: Ty, e: Sx) -> Sx {
    list(vec![atom("cast"), atom(&show_ty(t)), e])
}
fn s_expr(e: Sx) -> Sx {
    list(vec![atom("expr"), e])
}
fn s_ret(e: Sx) -> Sx {
    list(vec![atom("ret"), e])
}
fn s_init(t: Ty, e: Sx) -> Sx {
    list(vec![atom("init"), atom(&show_ty(t)), e])
}

/// the variable types every generated environment starts from (index = variable number)
fn base_vars() -> Vec<Ty> {
    let mut v = Vec::new();
    for s in GRID_SCALARS {
        v.push(plain(Layer::Scalar(*s)));
    }
    v.push(plain(Layer::Vector(S_FLOAT, 3)));
    v.push(plain(Layer::Vector(S_INT, 3)));
    v.push(plain(Layer::Vector(S_FLOAT, 2)));
    v.push(plain(Layer::Vector(S_INT, 1)));
    v.push(plain(Layer::Matrix(S_FLOAT, 2, 2)));
    v.push(plain(Layer::Matrix(S_INT, 2, 2)));
    v.push(plain(Layer::Other(0)));
    v.push(plain(Layer::Other(1)));
    v.push(Ty { mods: Mods(1), layer: Layer::Scalar(S_INT) });
    v.push(Ty { mods: Mods(1), layer: Layer::Scalar(S_FLOAT) });
    v.push(Ty { mods: Mods(1), layer: Layer::Vector(S_FLOAT, 3) });
    v.push(Ty { mods: Mods(1), layer: Layer::Other(0) });
    v
}

/// variables with the modifiers the property does not single out (volatile, row_major, ...): a separate stream
fn modified_vars() -> Vec<Ty> {
    vec![
        Ty { mods: Mods(2), layer: Layer::Scalar(S_INT) },
        Ty { mods: Mods(2), layer: Layer::Scalar(S_FLOAT) },
        Ty { mods: Mods(3), layer: Layer::Scalar(S_INT) },
        Ty { mods: Mods(4), layer: Layer::Matrix(S_FLOAT, 2, 2) },
        Ty { mods: Mods(4), layer: Layer::Matrix(S_INT, 2, 2) },
        Ty { mods: Mods(8), layer: Layer::Matrix(S_FLOAT, 2, 2) },
        plain(Layer::Scalar(S_INT)),
        plain(Layer::Scalar(S_FLOAT)),
        plain(Layer::Scalar(S_BOOL)),
        plain(Layer::Matrix(S_FLOAT, 2, 2)),
        plain(Layer::Matrix(S_BOOL, 2, 2)),
    ]
}

fn base_funcs() -> Vec<Func> {
    let i = plain(Layer::Scalar(S_INT));
    let f = plain(Layer::Scalar(S_FLOAT));
    let u = plain(Layer::Scalar(S_UINT));
    let f3 = plain(Layer::Vector(S_FLOAT, 3));
    let s0 = plain(Layer::Other(0));
    vec![
        // f0: overloads on int / float / uint
        Func { name: 0, non_default: 1, ret: i, params: vec![Param { io: Io::In, ty: i }] },
        Func { name: 0, non_default: 1, ret: f, params: vec![Param { io: Io::In, ty: f }] },
        Func { name: 0, non_default: 1, ret: u, params: vec![Param { io: Io::In, ty: u }] },
        // f1: out parameter
        Func { name: 1, non_default: 1, ret: i, params: vec![Param { io: Io::Out, ty: i }] },
        // f2: inout float3 + in float with default
        Func { name: 2, non_default: 1, ret: f3, params: vec![Param { io: Io::InOut, ty: f3 }, Param { io: Io::In, ty: f }] },
        // f3: struct parameter, struct result
        Func { name: 3, non_default: 1, ret: s0, params: vec![Param { io: Io::In, ty: s0 }] },
        // f4: no parameters
        Func { name: 4, non_default: 0, ret: f, params: vec![] },
        // f5: two in parameters
        Func { name: 5, non_default: 2, ret: i, params: vec![Param { io: Io::In, ty: i }, Param { io: Io::In, ty: f3 }] },
    ]
}

fn random_expr(rng: &mut Rng, env: &Envr, depth: u32) -> Sx {
    let leaf = depth == 0 || rng.chance(1, 4);
    if leaf {
        return if rng.chance(1, 4) { lit(*rng.pick(LITS)) } else { var(rng.below(env.vars.len() as u64) as usize) };
    }
    match rng.below(20) {
        0..=3 => un(*rng.pick(UNOPS), random_expr(rng, env, depth - 1)),
        4..=9 => bin(*rng.pick(ARITH), random_expr(rng, env, depth - 1), random_expr(rng, env, depth - 1)),
        10..=12 => bin(*rng.pick(ASSIGN), random_expr(rng, env, depth - 1), random_expr(rng, env, depth - 1)),
        13 => bin("Sequence", random_expr(rng, env, depth - 1), random_expr(rng, env, depth - 1)),
        14 | 15 => tern(random_expr(rng, env, depth - 1), random_expr(rng, env, depth - 1), random_expr(rng, env, depth - 1)),
        16 | 17 => {
            let f = rng.pick(&env.funcs).clone();
            let n = if rng.chance(1, 8) { rng.below(3) as usize } else { f.params.len() };
            call(f.name, (0..n).map(|_| random_expr(rng, env, depth - 1)).collect())
        }
        _ => {
            let t = *rng.pick(&env.vars);
            cast(Ty { mods: Mods(0), layer: t.layer }, random_expr(rng, env, depth - 1))
        }
    }
}

fn is_numeric(l: Layer) -> bool {
    matches!(l, Layer::Scalar(_) | Layer::Vector(..) | Layer::Matrix(..))
}

fn dims(l: Layer) -> (u32, u32) {
    match l {
        Layer::Vector(_, n) => (n, 0),
        Layer::Matrix(_, x, y) => (x, y),
        _ => (0, 0),
    }
}

/// statements that are well-typed by construction (simple templates over the environment)
fn well_typed(env: &Envr) -> Vec<Sx> {
    let mut v = Vec::new();
    let n = env.vars.len();
    for i in 0..n {
        for j in 0..n {
            let (a, b) = (env.vars[i], env.vars[j]);
            let same_shape = (is_numeric(a.layer) && is_numeric(b.layer) && dims(a.layer) == dims(b.layer)) || a.layer == b.layer;
            if !same_shape {
                continue;
            }
            if a.mods.0 == 0 {
                v.push(s_expr(bin("Assignment", var(i), var(j))));
                v.push(s_init(a, var(j)));
            }
            if is_numeric(a.layer) && a.mods.0 & !1 == 0 && b.mods.0 & !1 == 0 {
                v.push(s_expr(bin("Add", var(i), var(j))));
                v.push(s_expr(bin("LessThan", var(i), var(j))));
            }
        }
    }
    for (k, f) in env.funcs.iter().enumerate() {
        // exact arguments for every function whose name is not overloaded
        if env.funcs.iter().filter(|g| g.name == f.name).count() != 1 {
            continue;
        }
        let mut args = Vec::new();
        let mut ok = true;
        for p in &f.params {
            match env.vars.iter().position(|t| *t == p.ty) {
                Some(i) => args.push(var(i)),
                None => ok = false,
            }
        }
        if ok {
            v.push(s_expr(call(f.name, args.clone())));
            if Some(f.ret) == env.ret {
                v.push(s_ret(call(f.name, args)));
            }
        }
        let _ = k;
    }
    v
}

/// one injected violation per statement, of the kinds the property lists
fn violations(env: &Envr) -> Vec<(String, Sx)> {
    let mut v: Vec<(String, Sx)> = Vec::new();
    let find = |t: Ty| env.vars.iter().position(|x| *x == t);
    let int = plain(Layer::Scalar(S_INT));
    let flt = plain(Layer::Scalar(S_FLOAT));
    let f3 = plain(Layer::Vector(S_FLOAT, 3));
    let s0 = plain(Layer::Other(0));
    let (Some(vi), Some(vf), Some(vf3), Some(vs)) = (find(int), find(flt), find(f3), find(s0)) else {
        return v;
    };
    let consts: Vec<usize> = (0..env.vars.len()).filter(|i| env.vars[*i].mods.0 & 1 != 0).collect();
    for op in ASSIGN {
        // write to const
        for c in &consts {
            if is_numeric(env.vars[*c].layer) || *op == "Assignment" {
                v.push(("write-const".into(), s_expr(bin(op, var(*c), var(*c)))));
            }
        }
        // write to rvalue: literal, a+b, function result, cast, postfix increment, negation
        v.push(("write-rvalue-literal".into(), s_expr(bin(op, lit("IntLiteral"), var(vi)))));
        v.push(("write-rvalue-sum".into(), s_expr(bin(op, bin("Add", var(vi), var(vi)), var(vi)))));
        v.push(("write-rvalue-call".into(), s_expr(bin(op, call(4, vec![]), var(vf)))));
        v.push(("write-rvalue-cast".into(), s_expr(bin(op, cast(int, var(vi)), var(vi)))));
        v.push(("write-rvalue-postfix".into(), s_expr(bin(op, un("PostfixIncrement", var(vi)), var(vi)))));
        v.push(("write-rvalue-ternary".into(), s_expr(bin(op, tern(lit("Bool"), var(vi), var(vi)), var(vi)))));
    }
    for op in &UNOPS[..4] {
        for c in &consts {
            v.push(("increment-const".into(), s_expr(un(op, var(*c)))));
        }
        v.push(("increment-rvalue".into(), s_expr(un(op, lit("IntLiteral")))));
        v.push(("increment-rvalue".into(), s_expr(un(op, bin("Add", var(vi), var(vi))))));
        v.push(("increment-rvalue".into(), s_expr(un(op, call(4, vec![])))));
    }
    // rvalue / const to out and inout parameters
    v.push(("out-rvalue".into(), s_expr(call(1, vec![lit("IntLiteral")]))));
    v.push(("out-rvalue".into(), s_expr(call(1, vec![bin("Add", var(vi), var(vi))]))));
    v.push(("out-rvalue".into(), s_expr(call(1, vec![call(0, vec![var(vi)])]))));
    v.push(("out-rvalue".into(), s_expr(call(1, vec![cast(int, var(vi))]))));
    v.push(("inout-rvalue".into(), s_expr(call(2, vec![bin("Add", var(vf3), var(vf3))]))));
    v.push(("inout-rvalue".into(), s_expr(call(2, vec![cast(f3, var(vf3)), var(vf)]))));
    for c in &consts {
        if env.vars[*c].layer == int.layer {
            v.push(("out-const".into(), s_expr(call(1, vec![var(*c)]))));
        }
        if env.vars[*c].layer == f3.layer {
            v.push(("inout-const".into(), s_expr(call(2, vec![var(*c)]))));
            v.push(("inout-const".into(), s_expr(call(2, vec![var(*c), var(vf)]))));
        }
    }
    // wrong number of arguments
    v.push(("arity".into(), s_expr(call(1, vec![]))));
    v.push(("arity".into(), s_expr(call(1, vec![var(vi), var(vi)]))));
    v.push(("arity".into(), s_expr(call(2, vec![]))));
    v.push(("arity".into(), s_expr(call(2, vec![var(vf3), var(vf), var(vf)]))));
    v.push(("arity".into(), s_expr(call(4, vec![var(vf)]))));
    v.push(("arity".into(), s_expr(call(5, vec![var(vi)]))));
    v.push(("arity".into(), s_expr(call(0, vec![]))));
    v.push(("arity".into(), s_expr(call(0, vec![var(vi), var(vi)]))));
    // unconvertible argument
    v.push(("unconvertible".into(), s_expr(call(0, vec![var(vs)]))));
    v.push(("unconvertible".into(), s_expr(call(3, vec![var(vi)]))));
    v.push(("unconvertible".into(), s_expr(call(5, vec![var(vs), var(vf3)]))));
    v.push(("unconvertible".into(), s_expr(call(5, vec![var(vi), var(vs)]))));
    v.push(("unconvertible".into(), s_expr(call(5, vec![var(vi), var(vf3), var(vf3)]))));
    // wrong return type
    match env.ret {
        Some(t) if t.layer == s0.layer => {
            v.push(("return-type".into(), s_ret(var(vi))));
            v.push(("return-type".into(), s_ret(lit("Float32"))));
            v.push(("return-type".into(), list(vec![atom("ret")])));
        }
        Some(t) if is_numeric(t.layer) => {
            v.push(("return-type".into(), s_ret(var(vs))));
            v.push(("return-type".into(), s_ret(call(3, vec![var(vs)]))));
            v.push(("return-type".into(), list(vec![atom("ret")])));
            if dims(t.layer) == (0, 0) {
                // a scalar cannot be produced from a matrix
                if let Some(m) = find(plain(Layer::Matrix(S_FLOAT, 2, 2))) {
                    v.push(("return-type".into(), s_ret(var(m))));
                }
            }
        }
        None => {
            v.push(("return-type".into(), s_ret(var(vi))));
            v.push(("return-type".into(), s_ret(var(vs))));
        }
        _ => {}
    }
    // wrong initialiser type
    v.push(("init-type".into(), s_init(int, var(vs))));
    v.push(("init-type".into(), s_init(s0, var(vi))));
    v
}

pub fn run(args: &Args, out: &mut Out) {
    let mut r = Runner { hist: Hist::default(), compiles: 0, nodes: 0, typed: Vec::new() };
    let mut real = Real::new();
    if let Some(lines) = args.request_lines() {
        for line in lines {
            let f: Vec<&str> = line.split('\t').collect();
            match f.as_slice() {
                ["C03.conv", src, dsts] => {
                    let s = parse_ety(src);
                    let d: Option<Vec<ETy>> = dsts.split(' ').map(parse_ety).collect();
                    match (s, d) {
                        (Some(s), Some(d)) => real.conv_row(s, &d, out, &mut r.hist),
                        _ => out.case(&line, "-", "SKIP:bad request"),
                    }
                }
                ["C03.prog", vars, funcs, ret, stmt, expect] => match (parse_env(vars, funcs, ret), parse_sx(stmt)) {
                    (Some(env), Some(stmt)) => r.prog_case(&env, &stmt, expect, out),
                    _ => out.case(&line, "-", "SKIP:bad request"),
                },
                ["C03.src", src] => r.src_case(src, out),
                ["C03.decl", rest @ ..] => r.decl_case(rest, out),
                ["C03.ret", prog] => r.ret_case(prog, out),
                ["C03.progx", others, vars, funcs, ret, body, expect] => match (ext::parse_envx(others, vars, funcs, ret), parse_sx(body)) {
                    (Some(env), Some(body)) => r.progx_case(&env, &body, expect, out),
                    _ => out.case(&line, "-", "SKIP:bad request"),
                },
                ["C03.typex", others, vars, funcs, ret, typed] => match (ext::parse_envx(others, vars, funcs, ret), parse_sx(typed)) {
                    (Some(env), Some(t)) => r.typex_case(&env, &t, out),
                    _ => out.case(&line, "-", "SKIP:bad request"),
                },
                ["C03.type", vars, funcs, ret, typed] => match (parse_env(vars, funcs, ret), parse_sx(typed)) {
                    (Some(env), Some(t)) => r.type_case(&env, &t, out),
                    _ => out.case(&line, "-", "SKIP:bad request"),
                },
                _ => {}
            }
        }
        out.stat(&format!("{{\"mode\":\"replay\",\"compiles\":{},\"ir_nodes_walked\":{},\"hist\":{}}}", r.compiles, r.nodes, r.hist.json()));
        return;
    }
    let mut rng = Rng::new(args.seed);

    // (1) exhaustive find / get_target_type table
    let uni = conv_universe(args.thorough());
    for s in &uni {
        real.conv_row(*s, &uni, out, &mut r.hist);
    }

    // (2) environments: return type varies; variables and functions fixed
    let rets: Vec<Option<Ty>> = vec![
        None,
        Some(plain(Layer::Scalar(S_INT))),
        Some(plain(Layer::Scalar(S_FLOAT))),
        Some(plain(Layer::Vector(S_FLOAT, 3))),
        Some(plain(Layer::Other(0))),
        Some(Ty { mods: Mods(1), layer: Layer::Scalar(S_FLOAT) }),
    ];
    let envs: Vec<Envr> = rets.iter().map(|ret| Envr { vars: base_vars(), funcs: base_funcs(), ret: *ret }).collect();

    // (2a) exhaustive small statements over the base environment: every unary operator on every variable and literal,
    //      every binary operator on a seeded slice of the operand pairs (thorough: all pairs)
    let env0 = &envs[0];
    let mut operands: Vec<Sx> = (0..env0.vars.len()).map(var).collect();
    operands.extend(LITS.iter().map(|k| lit(k)));
    for op in UNOPS {
        for x in &operands {
            r.prog_case(env0, &s_expr(un(op, x.clone())), "any", out);
        }
    }
    let stride = if args.thorough() { 1 } else { 7 };
    let mut k = rng.below(stride);
    for op in ARITH.iter().chain(ASSIGN.iter()).chain(["Sequence"].iter()) {
        for x in &operands {
            for y in &operands {
                k += 1;
                if k % stride != 0 {
                    continue;
                }
                r.prog_case(env0, &s_expr(bin(op, x.clone(), y.clone())), "any", out);
            }
        }
    }
    let tstride = if args.thorough() { 3 } else { 41 };
    for c in &operands {
        for x in &operands {
            for y in &operands {
                k += 1;
                if k % tstride != 0 {
                    continue;
                }
                r.prog_case(env0, &s_expr(tern(c.clone(), x.clone(), y.clone())), "any", out);
            }
        }
    }
    // calls with one argument to every function name, returns and initialisers of every operand
    for name in 0..6u32 {
        for x in &operands {
            r.prog_case(env0, &s_expr(call(name, vec![x.clone()])), "any", out);
        }
    }
    for env in &envs {
        for x in &operands {
            r.prog_case(env, &s_ret(x.clone()), "any", out);
        }
    }
    for t in env0.vars.iter() {
        for (j, x) in operands.iter().enumerate() {
            if (j as u64 + k) % (if args.thorough() { 1 } else { 3 }) == 0 {
                r.prog_case(env0, &s_init(*t, x.clone()), "any", out);
            }
        }
    }

    // (2b) well-typed by construction, and the same environments with one injected violation
    for env in &envs {
        let wt = well_typed(env);
        let wstride = if args.thorough() { 1 } else { 5 };
        for (i, s) in wt.iter().enumerate() {
            if (i as u64 + k) % wstride == 0 {
                r.prog_case(env, s, "accept", out);
            }
        }
        for (kind, s) in violations(env) {
            r.hist.add(&format!("violation:{}", kind));
            r.prog_case(env, &s, "reject", out);
        }
    }

    // (2c) the modifiers outside the property's list (volatile, row_major, column_major): small exhaustive stream
    let envm = Envr { vars: modified_vars(), funcs: base_funcs(), ret: Some(plain(Layer::Scalar(S_FLOAT))) };
    let mut mops: Vec<Sx> = (0..envm.vars.len()).map(var).collect();
    mops.push(lit("IntLiteral"));
    mops.push(lit("Float32"));
    for op in UNOPS {
        for x in &mops {
            r.prog_case(&envm, &s_expr(un(op, x.clone())), "any", out);
        }
    }
    for op in ["Add", "LessThan", "BooleanAnd", "Assignment", "SumAssignment", "LeftShiftAssignment"] {
        for x in &mops {
            for y in &mops {
                r.prog_case(&envm, &s_expr(bin(op, x.clone(), y.clone())), "any", out);
            }
        }
    }
    for x in &mops {
        for y in &mops {
            r.prog_case(&envm, &s_expr(tern(var(8), x.clone(), y.clone())), "any", out);
        }
        r.prog_case(&envm, &s_ret(x.clone()), "any", out);
    }

    // (3) random statements
    let n = args.n.unwrap_or(if args.thorough() { 30000 } else { 1500 });
    for i in 0..n {
        let env = &envs[(i % envs.len() as u64) as usize];
        let depth = 1 + rng.below(3) as u32;
        let e = random_expr(&mut rng, env, depth);
        let stmt = match rng.below(8) {
            0 => s_ret(e),
            1 => s_init(*rng.pick(&env.vars), e),
            _ => s_expr(e),
        };
        r.prog_case(env, &stmt, "any", out);
    }

    // (4) the typed statements the real type checker produced, re-typed node by node with the real get_type
    let typed = std::mem::take(&mut r.typed);
    let tcap = if args.thorough() { 20000 } else { 1200 };
    let tstep = (typed.len() / tcap).max(1);
    for (i, line) in typed.iter().enumerate() {
        if i % tstep != 0 {
            continue;
        }
        let f: Vec<&str> = line.split('\t').collect();
        if let ["C03.type", vars, funcs, ret, t] = f.as_slice() {
            if let (Some(env), Some(t)) = (parse_env(vars, funcs, ret), parse_sx(t)) {
                r.type_case(&env, &t, out);
            }
        }
    }

    // (4b) default arguments: every parameter type with default expressions of every type (raw programs, oracle only)
    {
        let tys = ["int", "uint", "float", "bool", "float3", "int2", "float2x2", "S0", "half"];
        let exprs = ["1", "1u", "1.5", "true", "1.0f", "float3(1, 2, 3)", "int2(1, 2)", "(S0)0", "g0", "g1", "g2", "float2x2(1, 2, 3, 4)", "(half)1"];
        for t in tys {
            for e in exprs {
                let src = format!("struct S0 {{ int q; }}; static int g0; static float3 g1; static S0 g2; void f({} p = {}) {{}} void t() {{ f(); }}", t, e);
                r.src_case(&src, out);
            }
        }
    }

    // (4c) methods of resources and structs: arguments (also out / inout) go through the same overload machinery (raw
    //      programs, oracle only)
    {
        let pre = "struct S0 { int q; float3 v; void set(out float x, float y) { x = y; } float get(inout int k) { return q; } }; \
                   Texture2D<float4> tx; RWTexture2D<float4> rw; ByteAddressBuffer bab; RWByteAddressBuffer rwb; StructuredBuffer<float4> sb; \
                   float3 mk(); static const float cf = 1; static float3 gv; enum E0 { E0_A, E0_B, E0_C };";
        let bodies = [
            "uint w; uint h; tx.GetDimensions(w, h);",
            "const uint w = 1; uint h; tx.GetDimensions(w, h);",
            "uint h; tx.GetDimensions(1u, h);",
            "uint2 d; tx.GetDimensions(d.x, d.y);",
            "uint2 d; tx.GetDimensions(d.x, d.xx);",
            "float w; float h; tx.GetDimensions(w, h);",
            "int w; uint h; tx.GetDimensions(w, h);",
            "uint3 d; rw.GetDimensions(d[0], d[1]);",
            "uint s; uint v = bab.Load(0, s);",
            "uint v = bab.Load(0, mk().x);",
            "uint o; rwb.InterlockedAdd(0, 1, o);",
            "rwb.InterlockedAdd(0, 1, cf);",
            "uint n; uint st; sb.GetDimensions(n, st);",
            "S0 s; float f; s.set(f, 1);",
            "S0 s; s.set(cf, 1);",
            "S0 s; s.set(gv.x, 1);",
            "S0 s; s.set(mk().x, 1);",
            "S0 s; s.set(mk()[0], 1);",
            "S0 s; int k; float f = s.get(k);",
            "S0 s; float f = s.get(1);",
            "S0 s; float f = s.get(s.q);",
            "const S0 s = (S0)0; float f = s.get(s.q);",
            "float4 c = tx.Load(int3(0, 0, 0));",
            "float4 c = tx.Load(1);",
            "float4 c = tx.Load(gv);",
            "float4 c = tx.mips[0][uint2(0, 0)];",
            "tx.mips[0][uint2(0, 0)] = 1;",
            "RayDesc rd; rd.TMin = 1; rd.Origin.x = cf; float3 d = rd.Direction;",
            "const RayDesc rd = (RayDesc)0; rd.TMax = 1;",
            "RayDesc rd; rd.Nope = 1;",
            "uint n = sizeof(float3) + sizeof(S0) + sizeof(gv);",
            "uint n = sizeof(1);",
            "E0 e = E0_A; int i = E0_B; e = E0_C; i = e + 1; bool b = e == E0_A; e++; E0_A = e;",
            "E0 e = 1;",
            "E0 e; e = 2;",
            "int i = -E0_B + ~E0_C; bool b = !E0_A;",
        ];
        for b in bodies {
            r.src_case(&format!("{} void t() {{ {} }}", pre, b), out);
        }
    }

    // (5) the extended language: swizzles, members, subscripts, constructors, intrinsic functions
    ext::run_ext(&mut r, &mut rng, args, out);

    // (6) declared types: typedef chains / template parameters carrying modifiers x use-site modifiers x storage x writes
    decl::run_decl(&mut r, &mut rng, args.thorough(), if args.thorough() { 30000 } else { 3000 }, out);

    // (7) return statements after template instantiations in the middle of a function body: the containing function decides
    ret::run_ret(&mut r, &mut rng, args.thorough(), if args.thorough() { 12000 } else { 1500 }, out);

    out.stat(&format!(
        "{{\"conv_universe\":{},\"conv_pairs\":{},\"random_statements\":{},\"compiles\":{},\"ir_nodes_walked\":{},\"hist\":{}}}",
        uni.len(),
        uni.len() * uni.len(),
        n,
        r.compiles,
        r.nodes,
        r.hist.json()
    ));
}

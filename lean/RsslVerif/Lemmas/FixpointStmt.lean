import RsslVerif.Lemmas.FixpointMain
set_option linter.unusedSimpArgs false
/-!
Lemmas for C04, part 6: debug / release builds, statements (`parse_expr` + the conversion to the return / variable
type), the executable `unelab` is an instance of `Unelab`, exported trees satisfy `SrcOk` again.
-/
namespace RsslVerif.Lemmas.FixpointStmt
open RsslVerif.Gen.RankTable RsslVerif.Gen.TypingTables
open RsslVerif.Model.Conv RsslVerif.Model.Overload RsslVerif.Model.IrTyping RsslVerif.Model.Elab
open RsslVerif.Model.Fixpoint RsslVerif.Lemmas.ElabConv RsslVerif.Lemmas.Elab RsslVerif.Lemmas.ElabExact
open RsslVerif.Lemmas.ElabRelease RsslVerif.Lemmas.FixpointElab RsslVerif.Lemmas.FixpointArith RsslVerif.Lemmas.FixpointArithDim
open RsslVerif.Lemmas.FixpointForms RsslVerif.Lemmas.FixpointCall RsslVerif.Lemmas.FixpointMain

variable {Γ Γ' : Env}

/-- the theorem for either build mode (`cfg(debug_assertions)` on or off, independently for the two generations) -/
theorem reelab_any (hR : Renamed Γ Γ') (dbg dbg' : Bool) {s : SExpr} {i : IExpr} {τ : ETy} (hs : SrcOk s)
    (h : elabE dbg Γ s = .ok (i, τ)) {s' : SExpr} (hu : Unelab Γ' i s') :
    elabE dbg' Γ' s' = .ok (i, τ) := by
  have h0 : elabE false Γ s = .ok (i, τ) := by
    cases dbg
    · exact h
    · rw [← elab_debug_eq]; exact h
  have := reelab_aux hR s i τ hs h0 s' hu
  cases dbg'
  · exact this
  · rw [elab_debug_eq]; exact this

/-- since fix 3758fdd, in either build mode: no accepted expression passes a `Cast` for an `out` / `inout` parameter -/
theorem outArgsPlain_any (dbg : Bool) {s : SExpr} {i : IExpr} {τ : ETy} (h : elabE dbg Γ s = .ok (i, τ)) :
    OutArgsPlain Γ i := by
  have h0 : elabE false Γ s = .ok (i, τ) := by
    cases dbg
    · exact h
    · rw [← elab_debug_eq]; exact h
  exact elab_outArgsPlain s i τ h0

/-- `parse_expr` = `parse_expr_internal` (its unconditional type query never fires) -/
theorem elabTop_eq (dbg : Bool) (Γ : Env) (e : SExpr) : elabTop dbg Γ e = elabE false Γ e := by
  unfold elabTop
  have : elabE dbg Γ e = elabE false Γ e := by
    cases dbg
    · rfl
    · exact elab_debug_eq e
  rw [this]
  cases h : elabE false Γ e with
  | error m => rfl
  | ok r =>
    obtain ⟨e', τ⟩ := r
    simp only
    exact selfCheck_eq (typeOf_of_hasType _ _ (elab_sound_any false e e' τ h))

/-- **statements**: expression statements, `return` and initialised definitions are rebuilt identically -/
theorem reelab_stmt (hR : Renamed Γ Γ') (dbg dbg' : Bool) {s : SStmt} {st : IStmt} (hs : SrcStmtOk s)
    (h : elabStmt dbg Γ s = .ok st) {s' : SStmt} (hu : UnelabStmt Γ' st s') :
    elabStmt dbg' Γ' s' = .ok st := by
  cases s with
  | expr e =>
    simp only [elabStmt, elabTop_eq] at h
    split at h
    · simp at h
    · rename_i e' τ he
      simp at h; subst h
      cases hu with
      | expr hue =>
        have := reelab_aux hR e e' τ hs he _ hue
        simp [elabStmt, elabTop_eq, this]
  | ret eo =>
    cases eo with
    | none =>
      simp only [elabStmt] at h
      split at h
      · rename_i hr
        simp at h; subst h
        cases hu
        simp [elabStmt, hR.ret, hr]
      · simp at h
    | some e =>
      simp only [elabStmt, elabTop_eq] at h
      split at h
      · simp at h
      · rename_i e' τ he
        split at h
        · simp at h
        · rename_i rt hrt
          split at h
          · simp at h
          · simp at h
          · rename_i e2 t2 hc
            simp at h; subst h
            obtain ⟨c, hf, ha, _⟩ := convert_inv hc
            cases hu with
            | ret hue =>
              obtain ⟨e0, τ0, hel, hb⟩ := reconv (elab_sound_any false e e' τ he)
                (reelab_aux hR e e' τ hs he) hf ha (Or.inl rfl) _ hue
              simp [elabStmt, elabTop_eq, hel, hR.ret, hrt, back_convert hf ha hb]
  | init t e =>
    simp only [elabStmt, elabTop_eq] at h
    split at h
    · simp at h
    · rename_i e' τ he
      split at h
      · simp at h
      · simp at h
      · rename_i e2 t2 hc
        simp at h; subst h
        obtain ⟨c, hf, ha, _⟩ := convert_inv hc
        cases hu with
        | init hue =>
          obtain ⟨e0, τ0, hel, hb⟩ := reconv (elab_sound_any false e e' τ he)
            (reelab_aux hR e e' τ hs he) hf ha (Or.inl rfl) _ hue
          simp [elabStmt, elabTop_eq, hel, back_convert hf ha hb]

/-- the same for statements: the conversion to the return / variable type is applied to the whole expression and adds
    no call -/
theorem outArgsPlainStmt_any (dbg : Bool) {s : SStmt} {st : IStmt} (h : elabStmt dbg Γ s = .ok st) :
    OutArgsPlainStmt Γ st := by
  cases s with
  | expr e =>
    simp only [elabStmt, elabTop_eq] at h
    split at h
    · simp at h
    · rename_i e' τ he
      simp at h; subst h
      exact elab_outArgsPlain e e' τ he
  | ret eo =>
    cases eo with
    | none =>
      simp only [elabStmt] at h
      split at h
      · simp at h; subst h; trivial
      · simp at h
    | some e =>
      simp only [elabStmt, elabTop_eq] at h
      split at h
      · simp at h
      · rename_i e' τ he
        split at h
        · simp at h
        · split at h
          · simp at h
          · simp at h
          · rename_i e2 t2 hc
            simp at h; subst h
            exact convert_out hc (elab_outArgsPlain e e' τ he)
  | init t e =>
    simp only [elabStmt, elabTop_eq] at h
    split at h
    · simp at h
    · rename_i e' τ he
      split at h
      · simp at h
      · simp at h
      · rename_i e2 t2 hc
        simp at h; subst h
        exact convert_out hc (elab_outArgsPlain e e' τ he)

/-! ## the executable exporter shadow -/

mutual
theorem unelab_sound : ∀ (i : IExpr) (s : SExpr), unelab Γ' i = some s → Unelab Γ' i s
  | .lit k, s, h => by simp [unelab] at h; subst h; exact .lit k
  | .var v, s, h => by simp [unelab] at h; subst h; exact .var v
  | .tern c a b, s, h => by
    simp only [unelab] at h
    split at h
    · rename_i c' a' b' hc ha hb
      simp at h; subst h
      exact .tern (unelab_sound c c' hc) (unelab_sound a a' ha) (unelab_sound b b' hb)
    · simp at h
  | .seq a b, s, h => by
    simp only [unelab] at h
    split at h
    · rename_i a' b' ha hb
      simp at h; subst h
      exact .seq (unelab_sound a a' ha) (unelab_sound b b' hb)
    · simp at h
  | .call f args, s, h => by
    simp only [unelab] at h
    split at h
    · rename_i sg args' hf ha
      simp at h; subst h
      exact .call hf (unelabArgs_sound args args' ha)
    · simp at h
  | .cast t e, s, h => by
    simp only [unelab] at h
    split at h
    · rename_i e' he
      by_cases hl : litTyped t = true
      · simp [hl] at h; subst h; exact .castDrop hl (unelab_sound e e' he)
      · simp [hl] at h; subst h; exact .cast (by simpa using hl) (unelab_sound e e' he)
    · exact absurd h (by simp)
  | .op o args, s, h => by
    unfold unelab at h
    split at h
    · rename_i u e ho
      cases he : unelab Γ' e with
      | none => simp [he] at h
      | some e' => simp [he] at h; subst h; exact .un ho (unelab_sound e e' he)
    · rename_i b x y ho
      split at h
      · rename_i x' y' hx hy
        simp at h; subst h
        exact .bin ho (unelab_sound x x' hx) (unelab_sound y y' hy)
      · simp at h
    · simp at h
theorem unelabArgs_sound : ∀ (as : IArgs) (ss : SArgs), unelabArgs Γ' as = some ss → UnelabArgs Γ' as ss
  | .nil, ss, h => by simp [unelabArgs] at h; subst h; exact .nil
  | .cons e r, ss, h => by
    simp only [unelabArgs] at h
    split at h
    · rename_i e' r' he hr
      simp at h; subst h
      exact .cons (unelab_sound e e' he) (unelabArgs_sound r r' hr)
    · simp at h
end

mutual
/-- an exported tree is again a tree the parser can produce: the second generation satisfies the hypothesis of the
    theorem, so the theorem applies to every further generation -/
theorem unelab_srcOk : ∀ (i : IExpr) (s : SExpr), Unelab Γ' i s → SrcOk s
  | _, _, .lit k => by simp [SrcOk, rereadKind_idem]
  | _, _, .litNeg k _ => by simp [SrcOk, rereadKind_idem]
  | _, _, .var _ => by simp [SrcOk]
  | _, _, .tern hc ha hb => by
    simp only [SrcOk]; exact ⟨unelab_srcOk _ _ hc, unelab_srcOk _ _ ha, unelab_srcOk _ _ hb⟩
  | _, _, .seq ha hb => by simp only [SrcOk]; exact ⟨unelab_srcOk _ _ ha, unelab_srcOk _ _ hb⟩
  | _, _, .call _ ha => by simp only [SrcOk]; exact unelabArgs_srcOk _ _ ha
  | _, _, .castDrop _ he => unelab_srcOk _ _ he
  | _, _, .cast hl he => by simp only [SrcOk]; exact ⟨hl, unelab_srcOk _ _ he⟩
  | _, _, .un _ he => by simp only [SrcOk]; exact unelab_srcOk _ _ he
  | _, _, .bin _ hx hy => by simp only [SrcOk]; exact ⟨unelab_srcOk _ _ hx, unelab_srcOk _ _ hy⟩
theorem unelabArgs_srcOk : ∀ (as : IArgs) (ss : SArgs), UnelabArgs Γ' as ss → SrcArgsOk ss
  | _, _, .nil => by simp [SrcArgsOk]
  | _, _, .cons he hr => by simp only [SrcArgsOk]; exact ⟨unelab_srcOk _ _ he, unelabArgs_srcOk _ _ hr⟩
end

theorem renamed_uniqueNames (Γ : Env) : Renamed Γ (uniqueNames Γ) where
  vars := rfl
  ret := rfl
  sig f sg h := ⟨{ sg with name := f }, by simp [uniqueNames, List.getElem?_mapIdx, h], rfl, rfl, rfl⟩
  uniq f g sf sg hf hg hn := by
    simp [uniqueNames, List.getElem?_mapIdx] at hf hg
    obtain ⟨a, _, rfl⟩ := hf
    obtain ⟨b, _, rfl⟩ := hg
    simpa using hn

end RsslVerif.Lemmas.FixpointStmt

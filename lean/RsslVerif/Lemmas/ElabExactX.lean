import RsslVerif.Lemmas.ElabFormsX
/-! Lemmas for C03, extended language: the type of an operand after `ImplicitConversion::apply`; call arguments match parameter types (port of `Lemmas/ElabExact.lean`). Core Lean only. -/
namespace RsslVerif.Lemmas.ElabExactX
open RsslVerif.Gen.RankTable RsslVerif.Gen.TypingTables RsslVerif.Model.Conv RsslVerif.Model.Overload
open RsslVerif.Model.IrTyping (FuncSig opReturn boolOf)
open RsslVerif.Model.Elab (Err boolR intR minusFolds enforceIncrement unwrapPanic nvRank nvIsInteger arithTarget
  mostSigScalar ternTargets candsFrom)
open RsslVerif.Model.IrTypingX RsslVerif.Model.ElabX RsslVerif.Lemmas.ElabConv RsslVerif.Lemmas.ElabX
open RsslVerif.Lemmas.ElabFormsX

variable {Γ : Env}

theorem ty_ext {a b : Ty} (h1 : a.mod = b.mod) (h2 : a.layer = b.layer) : a = b := by
  cases a; cases b; simp_all

/-- the literal re-tagging tables of `apply` keep the scalar kind of the target (table fact) -/
theorem retag_same (k k' : Scalar) : (retagInt k = some k' → k' = k) ∧ (retagFloat k = some k' → k' = k) := by
  cases k <;> cases k' <;> decide

theorem ofDim_dim {l : Layer} {ss : Scalar} {dm : Dim} (h1 : l.extractScalar = some ss) (h2 : l.dim = some dm) :
    Layer.ofDim ss dm = l := by
  cases l <;> simp [Layer.extractScalar, Layer.dim] at h1 h2 <;> subst h1 <;> subst h2 <;> rfl

/-- a conversion without dimension, primary and modifier cast connects equal types -/
theorem trivial_conv_same {s d : ETy} {c : Conversion} (hf : find s d = .ok (some c))
    (hc : c.dimCast = none ∧ c.primary = none ∧ c.modCast = none) : s.ty = d.ty := by
  obtain ⟨_, _, _, hdc, hpc, mc0, hmc, hsh⟩ := find_inv hf
  rw [hc.1] at hdc; rw [hc.2.1] at hpc; rw [hc.2.2, hc.2.1] at hsh
  have hmc0 : mc0 = none := by cases mc0 <;> simp [sharedModifierCast] at hsh ⊢
  subst hmc0
  have hm : s.ty.mod = d.ty.mod := by
    rcases modifierCast_some hmc with ⟨h, _⟩ | ⟨_, h⟩
    · simp at h
    · exact h
  have hl := noPrimary_layer hdc hpc
  have hlay : s.ty.layer = d.ty.layer := by
    simp only at hl
    cases hdim : s.ty.layer.dim with
    | none => rw [hdim] at hl; exact hl
    | some dm =>
      rw [hdim] at hl
      obtain ⟨ss, h1, h2⟩ := hl
      rw [← h2, ofDim_dim h1 hdim]
  obtain ⟨⟨sm, sl⟩, sv⟩ := s
  obtain ⟨⟨dm, dl⟩, dv⟩ := d
  simp only at hm hlay
  subst hm hlay
  rfl

/-- **Type of a converted operand.**  After `apply` the operand has exactly the destination type; it is either the
    operand itself (then it already had that type) or an rvalue (a re-tagged literal or a cast). -/
theorem applyConv_type {e e' : IExpr} {s d : ETy} {c : Conversion} (he : HasType Γ e s)
    (hf : find s d = .ok (some c)) (ha : applyConv c e = .ok e') :
    ∃ τ', HasType Γ e' τ' ∧ τ'.ty = d.ty ∧ ((e' = e ∧ τ' = s) ∨ τ'.vt = .rvalue) := by
  have ht := targetType_ok hf
  unfold applyConv at ha
  split at ha
  · rename_i hc
    simp at ha; subst ha
    exact ⟨s, he, trivial_conv_same hf hc, Or.inl ⟨rfl, rfl⟩⟩
  · rw [ht] at ha
    simp only at ha
    split at ha
    · simp at ha; subst ha
      exact ⟨d.ty.r, .cast he, rfl, Or.inr rfl⟩
    · rename_i hg
      have hd0 : d.ty.mod = {} := by
        by_cases h0 : d.ty.mod = {}
        · exact h0
        · exfalso; apply hg; simp [h0]; decide
      split at ha
      · rename_i k hk
        split at ha
        · rename_i k' hk'
          simp at ha; subst ha
          have := (retag_same k k').1 hk'
          subst this
          exact ⟨(scalarTy k').r, .lit _, ty_ext (by simp [scalarTy, Ty.r, hd0]) (by simp [scalarTy, Ty.r, hk]), Or.inr rfl⟩
        · simp at ha; subst ha
          exact ⟨d.ty.r, .cast he, rfl, Or.inr rfl⟩
      · rename_i k hk
        split at ha
        · rename_i k' hk'
          simp at ha; subst ha
          have := (retag_same k k').2 hk'
          subst this
          exact ⟨(scalarTy k').r, .lit _, ty_ext (by simp [scalarTy, Ty.r, hd0]) (by simp [scalarTy, Ty.r, hk]), Or.inr rfl⟩
        · simp at ha; subst ha
          exact ⟨d.ty.r, .cast he, rfl, Or.inr rfl⟩
      · simp at ha; subst ha
        exact ⟨d.ty.r, .cast he, rfl, Or.inr rfl⟩

theorem convert_type {e e' : IExpr} {s d t : ETy} (he : HasType Γ e s) (h : convert e s d = .ok (some (e', t))) :
    t = d ∧ ∃ τ', HasType Γ e' τ' ∧ τ'.ty = d.ty ∧ ((e' = e ∧ τ' = s) ∨ τ'.vt = .rvalue) := by
  unfold convert at h
  split at h
  · simp at h
  · simp at h
  · rename_i c hf
    split at h
    · simp at h
    · rename_i e'' ha
      rw [targetType_ok hf] at h
      simp at h; obtain ⟨rfl, rfl⟩ := h
      exact ⟨rfl, applyConv_type he hf ha⟩

/-- argument types against parameter types: exactly equal, position by position (fewer arguments than parameters are
    allowed: defaulted parameters) -/
def ArgsMatch : List ETy → List Param → Prop
  | [], _ => True
  | t :: ts, p :: ps => t.ty = p.ty ∧ ArgsMatch ts ps
  | _ :: _, [] => False

theorem castArgs_exact : ∀ (ps : List Param) (as : IArgs) (ts : List ETy) (as' : IArgs),
    HasArgs Γ as ts → castArgs ps as ts = .ok as' →
    ∃ us, HasArgs Γ as' us ∧ ArgsMatch us ps
  | p :: ps, .cons e r, t :: ts, as', hu, h => by
    cases hu with
    | cons he hr =>
      simp only [castArgs] at h
      split at h
      · simp at h
      · simp at h
      · rename_i e' _ hc
        split at h
        · simp at h
        · rename_i r' hr'
          simp at h; subst h
          obtain ⟨_, τ', h1, hty, _⟩ := convert_type he hc
          obtain ⟨us, h2, h3⟩ := castArgs_exact ps r ts r' hr hr'
          exact ⟨τ' :: us, .cons h1 h2, by simpa [Param.ety] using hty, h3⟩
  | _, .nil, [], as', _, h => by
    simp [castArgs] at h; subst h; exact ⟨[], .nil, trivial⟩
  | [], .cons _ _, _ :: _, _, _, h => by simp [castArgs] at h
  | _, .cons _ _, [], _, _, h => by simp [castArgs] at h
  | _, .nil, _ :: _, _, _, h => by simp [castArgs] at h


end RsslVerif.Lemmas.ElabExactX

import RsslVerif.Gen.FmtTables
import RsslVerif.Gen.ParseTables
/-!
# C09 model, printing half: `format_subexpression` and friends of `formatter/src/formatter.rs`

The printer produces *pieces*: tokens (with their text) and explicit spaces, so that both the text
(`render`) and the token stream the lexer will produce (`toks`) can be read off the same value.
Tables (precedence, associativity, spelling, the equal-precedence rule, the sign characters, the
(outer precedence, side) used at every child position) come from `Gen.FmtTables`; the lexer's symbol
tables from `Gen.ParseTables`.

After fix batch 2: a negative literal has the precedence of a prefix operation (`litPrec`, e7611e2) and an integer
literal that is the object of a member access is printed in parentheses (`litMemParen`, 07e6b1c); the kinds and the
precedence come from `Gen.ParseTables` (`negLiteralKinds`, `precNegLiteral`, `memParen…LiteralKinds`).

Abstractions (stated in notes/C09.md): a scoped identifier `a::b` and a literal are one token each,
named by their text / by `kind value`; float literals are modelled only on a dyadic subset where Rust's
shortest-round-trip `Display` is the exact decimal expansion.
-/
namespace RsslVerif.Model.Format
open RsslVerif.Gen.FmtTables RsslVerif.Gen.ParseTables

/-! ## Syntax trees -/
mutual
inductive Expr where
  /-- literal value (kind, sign, magnitude / bit pattern) -/
  | lit (l : Lit)
  /-- (scoped) identifier, named by its text, e.g. `a`, `N::v`, `::a` -/
  | id (n : String)
  | un (op : UnOp) (e : Expr)
  | bin (op : BinOp) (l r : Expr)
  | tern (c a b : Expr)
  | sub (o i : Expr)
  | mem (o : Expr) (n : String)
  | call (f : Expr) (args : Args)
inductive Args where
  | nil
  | cons (e : Expr) (rest : Args)
end

deriving instance Repr for Expr
deriving instance Repr for Args

mutual
def Expr.beq : Expr → Expr → Bool
  | .lit a, .lit b => a == b
  | .id a, .id b => a == b
  | .un o e, .un o' e' => o == o' && Expr.beq e e'
  | .bin o l r, .bin o' l' r' => o == o' && Expr.beq l l' && Expr.beq r r'
  | .tern c a b, .tern c' a' b' => Expr.beq c c' && Expr.beq a a' && Expr.beq b b'
  | .sub o i, .sub o' i' => Expr.beq o o' && Expr.beq i i'
  | .mem o n, .mem o' n' => Expr.beq o o' && n == n'
  | .call f a, .call f' a' => Expr.beq f f' && Args.beq a a'
  | _, _ => false
def Args.beq : Args → Args → Bool
  | .nil, .nil => true
  | .cons e r, .cons e' r' => Expr.beq e e' && Args.beq r r'
  | _, _ => false
end

/-! ## Pieces -/
inductive Piece where
  | t (tok : Tok) (text : String)
  | sp
  deriving Repr

def toks : List Piece → List Tok
  | [] => []
  | .t tok _ :: r => tok :: toks r
  | .sp :: r => toks r

def render : List Piece → String
  | [] => ""
  | .t _ s :: r => s ++ render r
  | .sp :: r => " " ++ render r

@[simp] theorem toks_nil : toks [] = [] := rfl
@[simp] theorem toks_cons_t (tok : Tok) (s : String) (r : List Piece) : toks (.t tok s :: r) = tok :: toks r := rfl
@[simp] theorem toks_cons_sp (r : List Piece) : toks (.sp :: r) = toks r := rfl
@[simp] theorem toks_append (a b : List Piece) : toks (a ++ b) = toks a ++ toks b := by
  induction a with
  | nil => rfl
  | cons p a ih => cases p <;> simp [toks, ih]

/-! ## Spelling of punctuation (inverse of the lexer's symbol tables) -/
def punctChars (p : Punct) : List Char :=
  match symOps.find? (fun e => e.2.1 == p) with
  | some e => [e.1]
  | none =>
    match symOps.find? (fun e => e.2.2.1 == some p) with
    | some e => [e.1, '=']
    | none =>
      match symOps.find? (fun e => e.2.2.2 == some p) with
      | some e => [e.1, e.1]
      | none =>
        match symSingles.find? (fun e => e.2 == p) with
        | some e => [e.1]
        | none => ['?', '?']

def pp (p : Punct) : Piece := .t (.p p) (String.ofList (punctChars p))

/-! ## A lexer for strings of operator characters (`symbol_op_or_op_equals`, `symbol_single`, `<`, `>`)

`lexSyms cs` lexes a string consisting of operator characters and spaces, maximal munch as the Rust
functions do it. Used to tie the operator token tables below to the generated spellings, and for
`glue_safe`. `none` = a character that is not an operator character. -/
def isSpace (c : Char) : Bool := c == ' '

def lexSym1 (c : Char) (rest : List Char) : Option (Tok × List Char) :=
  if c == '<' then some (.lt (match rest with | [] => false | d :: _ => !isSpace d), rest)
  else if c == '>' then some (.gt (match rest with | [] => false | d :: _ => !isSpace d), rest)
  else
    match symOps.find? (fun e => e.1 == c) with
    | some (_, op, opEq, opOp) =>
      match rest with
      | d :: rest' =>
        if d == '=' && opEq.isSome then opEq.map (fun t => (.p t, rest'))
        else if d == c && opOp.isSome then opOp.map (fun t => (.p t, rest'))
        else some (.p op, rest)
      | [] => some (.p op, rest)
    | none =>
      match symSingles.find? (fun e => e.1 == c) with
      | some (_, t) => some (.p t, rest)
      | none => none

def lexSyms : Nat → List Char → Option (List Tok)
  | 0, _ => none
  | _ + 1, [] => some []
  | f + 1, c :: rest =>
    if isSpace c then lexSyms f rest
    else
      match lexSym1 c rest with
      | some (t, rest') => (lexSyms f rest').map (t :: ·)
      | none => none

/-! ## Operator tokens (hand-written tables, tied to the generated spellings by `Thm.C09.*_lexes`) -/
def unTok : UnOp → Tok
  | .PrefixIncrement => .p .PlusPlus
  | .PrefixDecrement => .p .MinusMinus
  | .PostfixIncrement => .p .PlusPlus
  | .PostfixDecrement => .p .MinusMinus
  | .Plus => .p .Plus
  | .Minus => .p .Minus
  | .LogicalNot => .p .ExclamationPoint
  | .BitwiseNot => .p .Tilde
  | .Dereference => .p .Asterix
  | .AddressOf => .p .Ampersand

/-- tokens of a binary operator as printed, i.e. followed by a space -/
def binToks : BinOp → List Tok
  | .Add => [.p .Plus]
  | .Subtract => [.p .Minus]
  | .Multiply => [.p .Asterix]
  | .Divide => [.p .ForwardSlash]
  | .Modulus => [.p .Percent]
  | .LeftShift => [.lt true, .lt false]
  | .RightShift => [.gt true, .gt false]
  | .BitwiseAnd => [.p .Ampersand]
  | .BitwiseOr => [.p .VerticalBar]
  | .BitwiseXor => [.p .Hat]
  | .BooleanAnd => [.p .AmpersandAmpersand]
  | .BooleanOr => [.p .VerticalBarVerticalBar]
  | .LessThan => [.lt false]
  | .LessEqual => [.lt true, .p .Equals]
  | .GreaterThan => [.gt false]
  | .GreaterEqual => [.gt true, .p .Equals]
  | .Equality => [.p .EqualsEquals]
  | .Inequality => [.p .ExclamationPointEquals]
  | .Assignment => [.p .Equals]
  | .SumAssignment => [.p .PlusEquals]
  | .DifferenceAssignment => [.p .MinusEquals]
  | .ProductAssignment => [.p .AsterixEquals]
  | .QuotientAssignment => [.p .ForwardSlashEquals]
  | .RemainderAssignment => [.p .PercentEquals]
  | .LeftShiftAssignment => [.lt true, .lt true, .p .Equals]
  | .RightShiftAssignment => [.gt true, .gt true, .p .Equals]
  | .BitwiseAndAssignment => [.p .AmpersandEquals]
  | .BitwiseOrAssignment => [.p .VerticalBarEquals]
  | .BitwiseXorAssignment => [.p .HatEquals]
  | .Sequence => [.p .Comma]

/-- the operator as one piece carrying the whole spelling followed by the remaining tokens without text -/
def binPieces (op : BinOp) : List Piece :=
  match binToks op with
  | [] => []
  | t :: ts => .t t (binSpell op) :: ts.map (fun t => .t t "")

def unPiece (op : UnOp) : Piece := .t (unTok op) (unSpell op)

@[simp] theorem toks_binPieces (op : BinOp) : toks (binPieces op) = binToks op := by
  cases op <;> rfl

/-! ## Literals (`format_literal`, target HLSL) followed by what the lexer makes of the text -/

/-- eighths of a binary float given without its sign bit: `q` with value `q/8`, when the value is a multiple of 1/8
below 4096 (there Rust's shortest-round-trip `Display` is the exact decimal expansion).
Since 265a080 `format_literal` has one more guarded arm for `Float16` / `Float32` (`f32_digits_round_twice(v)`: the
`Display` digits, read as a double and narrowed, name another single; then the digits of `v as f64` are printed).  On this
subset the guard is false: a whole value is taken by the earlier `.0` arm, and for the other values the `Display` text is
the exact expansion of a value that is a single, so reading it as a double and narrowing gives `v` back — the default arm
prints, as modelled.  (The arm itself is modelled and proved in property C10's `Model/LitFormat.lean`; its order among the
arms is pinned by `Thm.C10.literal_tables_as_modelled`, which is part of C09's build.) -/
def eighths? (expBits manBits bits : Nat) : Option Nat :=
  let e := bits / 2 ^ manBits % 2 ^ expBits
  let m := bits % 2 ^ manBits
  let bias := 2 ^ (expBits - 1) - 1
  if bits ≥ 2 ^ (expBits + manBits) then none
  else if e == 0 then (if m == 0 then some 0 else none)
  else if e == 2 ^ expBits - 1 then none
  else
    -- value = (2^manBits + m) * 2^(e - bias - manBits); times 8
    let sig := 2 ^ manBits + m
    let sh := e + 3
    let lo := bias + manBits
    if sh ≥ lo then
      let q := sig * 2 ^ (sh - lo)
      if q < 8 * 4096 then some q else none
    else
      let d := 2 ^ (lo - sh)
      -- (the bound also here: above it the shortest round-trip form has fewer digits than the exact expansion,
      -- e.g. 524288.125f prints `524288.1f`)
      if sig % d == 0 && sig / d < 8 * 4096 then some (sig / d) else none

/-- Rust `Display` of `q/8` when it is not integral -/
def fracText (q : Nat) : String :=
  let frac := match q % 8 with
    | 1 => "125" | 2 => "25" | 3 => "375" | 4 => "5" | 5 => "625" | 6 => "75" | _ => "875"
  toString (q / 8) ++ "." ++ frac

/-- text of a non-negative float of `q` eighths: whole values get `.0` (all four kinds since 8468e83) -/
def floatText (q : Nat) (suffix : String) : String :=
  (if q % 8 == 0 then toString (q / 8) ++ ".0" else fracText q) ++ suffix

def minusPiece : Piece := .t (.p .Minus) "-"

/-- a float literal: the token is the non-negative literal; a set sign bit prints a `-` in front (also on zero,
since 1157dad: `-0.0`, `-0.0f`, `-0.0h`, `-0.0L`) -/
def floatPieces (l : Lit) (expBits manBits : Nat) (suffix : String) : Option (List Piece) :=
  match eighths? expBits manBits l.mag with
  | some q =>
    let tok : Piece := .t (.lit { l with neg := false }) (floatText q suffix)
    some (if l.neg then [minusPiece, tok] else [tok])
  | none => none

/-- pieces of a literal; `none` = outside the modelled subset (strings, non-dyadic or large floats, inf, NaN).
The tokens are the ones the lexer produces for the printed text (so a negative literal is a `-` and a literal). -/
def litPieces (l : Lit) : Option (List Piece) :=
  match l.kind with
  | .Bool => if l.neg || l.mag > 1 then none else some [.t (.lit l) (if l.mag == 1 then "true" else "false")]
  | .IntUntyped => if l.neg then none else some [.t (.lit l) (toString l.mag)]
  | .IntUnsigned32 => if l.neg then none else some [.t (.lit l) (toString l.mag ++ "u")]
  | .IntUnsigned64 => if l.neg then none else some [.t (.lit l) (toString l.mag ++ "ul")]
  | .IntSigned64 =>
    -- `{v}l`: a negative value prints its sign; the digits are lexed on their own
    let tok : Piece := .t (.lit { l with neg := false }) (toString l.mag ++ "l")
    if l.neg then (if l.mag == 0 then none else some [minusPiece, tok]) else some [tok]
  | .FloatUntyped => floatPieces l 11 52 ""
  | .Float16 => floatPieces l 8 23 "h"
  | .Float32 => floatPieces l 8 23 "f"
  | .Float64 => floatPieces l 11 52 "L"
  | .String => none

/-- an `l`-suffixed literal whose digits do not fit in a signed 64-bit value is a lexer error (dc17362), and so is a
`u`-suffixed one that does not fit in 32 bits (93e9a96) -/
def litTooLarge (l : Lit) : Bool :=
  (l.kind == .IntSigned64 && l.mag ≥ 2 ^ 63) || (l.kind == .IntUnsigned32 && l.mag ≥ 2 ^ 32)

/-- the literal prints as exactly one token that reads back as itself -/
def LitOk (l : Lit) : Bool :=
  match litPieces l with
  | some [.t (.lit m) _] => m == l && !litTooLarge l
  | _ => false

/-! ## `format_subexpression` -/

/-- the guard of the literal arms of `get_expression_precedence` (e7611e2): the value is negative — `*v < 0` for the
signed integer kind, `is_sign_negative()` for the float kinds (so `-0.0` counts) — and the kind is one of the generated
`negLiteralKinds` -/
def litNegative (l : Lit) : Bool := l.neg && negLiteralKinds.contains l.kind

/-- `get_expression_precedence` on a literal: a negative literal is printed with a sign and binds like a prefix operation -/
def litPrec (l : Lit) : Nat := if litNegative l then precNegLiteral else precLiteral

/-- `is_int_literal` of the `Member` arm (07e6b1c): the digits of an integer literal directly followed by the period would lex
as the start of a float, so the object is parenthesised: `(1).x`.  (A negative literal already is, as a prefix operation.) -/
def litMemParen (l : Lit) : Bool :=
  memParenLiteralKinds.contains l.kind || (memParenNonNegLiteralKinds.contains l.kind && !l.neg)

def Expr.prec : Expr → Nat
  | .lit l => litPrec l
  | .id _ => precIdentifier
  | .un op _ => unPrec op
  | .bin op _ _ => binPrec op
  | .tern _ _ _ => precTernaryConditional
  | .sub _ _ => precArraySubscript
  | .mem _ _ => precMember
  | .call _ _ => precCall

/-- `requires_paren` -/
def needParen (p outer : Nat) (side : Side) : Bool :=
  if p > outer then true
  else if p < outer then false
  else !(noParenAtEqual side (assoc p))

def lp : Piece := pp .LeftParen
def rp : Piece := pp .RightParen

def wrap (b : Bool) (body : List Piece) : List Piece := if b then lp :: (body ++ [rp]) else body

/-- does the printed operand start with the operator's sign character? -/
def startsWithSign (op : UnOp) (operand : List Piece) : Bool :=
  match unSign op, operand with
  | some c, .t _ s :: _ => s.toList.head? == some c
  | _, _ => false

/-- `false_is_assignment` of the conditional arm -/
def falseIsAssignment (b : Expr) : Bool :=
  ternFalseAssignmentParens &&
  match b with
  | .bin op _ _ => binPrec op == precTernaryConditional && op != .Sequence
  | _ => false

/-- literal pieces, total: outside the modelled subset a placeholder (the driver answers `unsupported` there,
see `Expr.supported`; theorems assume `LitOk`) -/
def litPiecesT (l : Lit) : List Piece := (litPieces l).getD [.t (.lit l) "?"]

/-- the object of a member access is an integer literal that `is_int_literal` parenthesises -/
def memObjParen : Expr → Bool
  | .lit l => litMemParen l
  | _ => false

mutual
/-- `format_subexpression expr outer side` -/
def fmtSub : Expr → Nat → Side → List Piece
  | .lit n, outer, side => wrap (needParen (litPrec n) outer side) (litPiecesT n)
  | .id n, outer, side => wrap (needParen precIdentifier outer side) [.t (.id n) n]
  | .un op x, outer, side =>
    let inner := fmtSub x (unPrec op) (if isPostfix op then postfixOperandSide else prefixOperandSide)
    wrap (needParen (unPrec op) outer side)
      (if isPostfix op then inner ++ [unPiece op]
       else unPiece op :: (if startsWithSign op inner then .sp :: inner else inner))
  | .bin op l r, outer, side =>
    wrap (needParen (binPrec op) outer side)
      (fmtSub l (binPrec op) binLeftSide ++ ((if spaceBeforeBin op then [.sp] else []) ++
        (binPieces op ++ (.sp :: fmtSub r (binPrec op) binRightSide))))
  | .tern c a b, outer, side =>
    wrap (needParen precTernaryConditional outer side)
      (fmtSub c precTernaryConditional ternCondSide ++ (.sp :: pp .QuestionMark :: .sp ::
        (fmtSub a precTernaryConditional ternTrueSide ++ (.sp :: pp .Colon :: .sp ::
          wrap (falseIsAssignment b) (fmtSub b precTernaryConditional ternFalseSide)))))
  | .sub o i, outer, side =>
    wrap (needParen precArraySubscript outer side)
      (fmtSub o precArraySubscript subObjectSide ++ (pp .LeftSquareBracket ::
        (fmtSub i precArraySubscript subIndexSide ++ [pp .RightSquareBracket])))
  | .mem o n, outer, side =>
    wrap (needParen precMember outer side)
      (wrap (memObjParen o) (fmtSub o precMember memObjectSide) ++ [pp .Period, .t (.id n) n])
  | .call f args, outer, side =>
    wrap (needParen precCall outer side)
      (fmtSub f callObjectPrec callObjectSide ++ (pp .LeftParen :: (fmtArgs args ++ [pp .RightParen])))
/-- the argument list of a call: `a, b, c` -/
def fmtArgs : Args → List Piece
  | .nil => []
  | .cons e .nil => fmtSub e callArgPrec callArgSide
  | .cons e (.cons e' rest) =>
    fmtSub e callArgMainPrec callArgMainSide ++ (pp .Comma :: .sp :: fmtArgs (.cons e' rest))
end

mutual
/-- every literal of the tree lies in the modelled subset of `format_literal` -/
def Expr.supported : Expr → Bool
  | .lit n => (litPieces n).isSome
  | .id _ => true
  | .un _ x => x.supported
  | .bin _ l r => l.supported && r.supported
  | .tern c a b => c.supported && a.supported && b.supported
  | .sub o i => o.supported && i.supported
  | .mem o _ => o.supported
  | .call f args => f.supported && args.supported
def Args.supported : Args → Bool
  | .nil => true
  | .cons e r => e.supported && r.supported
end

/-- `format_expression` -/
def fmtExpr (e : Expr) : List Piece := fmtSub e topPrec topSide

/-- `format_initializer_inner` on `Initializer::Expression` -/
def fmtInit (e : Expr) : List Piece := fmtSub e initPrec initSide

end RsslVerif.Model.Format

import RsslVerif.Lemmas.RoundtripFull7
import RsslVerif.Model.ParseStmt
/-! Round trip of statements: first tokens, expression positions of statements. -/
set_option linter.unusedSimpArgs false
set_option linter.unusedVariables false
namespace RsslVerif.Lemmas.StmtRT
open RsslVerif.Gen.FmtTables RsslVerif.Gen.ParseTables RsslVerif.Gen.SyntaxTables RsslVerif.Model.Format
open RsslVerif.Model.FormatFull RsslVerif.Model.ParseFull RsslVerif.Model.FormatStmt RsslVerif.Model.ParseStmt
open RsslVerif.Lemmas.FmtParseTables RsslVerif.Lemmas.RoundtripFull

variable (W : List String)

/-- tokens an expression starts with -/
def ExprHead (t : Tok) : Prop :=
  (∃ n, t = .id n) ∨ (∃ l, t = .lit l) ∨ t = .p .LeftParen ∨ (∃ op, prefixOp t = some op) ∨ t = .p .SizeOf

theorem exprHead_fmt : (e : XExpr) → WF W e → ∀ outer side, ∃ t ts', toks (fmtSubX e outer side) = t :: ts' ∧ ExprHead t
  | e, hwf, outer, side => by
    rw [fmtSubX_eq]
    cases hp : needParen e.prec outer side with
    | true => exact ⟨.p .LeftParen, _, by rw [toks_wrap_true], Or.inr (Or.inr (Or.inl rfl))⟩
    | false =>
      simp only [wrap_false]
      match e, hwf with
      | .lit n, hwf => exact ⟨.lit n, [], toks_lit n hwf, Or.inr (Or.inl ⟨n, rfl⟩)⟩
      | .id n, _ => exact ⟨.id n, [], toks_id n, Or.inl ⟨n, rfl⟩⟩
      | .un op x, hwf =>
        cases hpost : isPostfix op with
        | true =>
          obtain ⟨t, ts', h1, h2⟩ := exprHead_fmt x hwf (unPrec op) postfixOperandSide
          exact ⟨t, ts' ++ [unTok op], by rw [toks_postfix op x hpost, h1]; simp, h2⟩
        | false =>
          refine ⟨unTok op, _, toks_prefix op x hpost, Or.inr (Or.inr (Or.inr (Or.inl ⟨op, ?_⟩)))⟩
          cases op <;> simp [isPostfix] at hpost <;> rfl
      | .bin op l r, hwf =>
        obtain ⟨t, ts', h1, h2⟩ := exprHead_fmt l hwf.2.1 (binPrec op) binLeftSide
        exact ⟨t, _, by rw [toks_bin, h1]; simp; rfl, h2⟩
      | .tern c a b, hwf =>
        obtain ⟨t, ts', h1, h2⟩ := exprHead_fmt c hwf.2.1 precTernaryConditional ternCondSide
        exact ⟨t, _, by rw [toks_tern, h1]; simp; rfl, h2⟩
      | .sub o i, hwf =>
        obtain ⟨t, ts', h1, h2⟩ := exprHead_fmt o hwf.1 precArraySubscript subObjectSide
        exact ⟨t, _, by rw [toks_sub, h1]; simp; rfl, h2⟩
      | .mem o n, hwf =>
        cases hmp : memObjParenX o with
        | true =>
          exact ⟨.p .LeftParen, (toks (fmtSubX o precMember memObjectSide) ++ [.p .RightParen]) ++ [.p .Period, .id n],
            by rw [toks_mem, hmp, toks_wrap_true]; rfl, Or.inr (Or.inr (Or.inl rfl))⟩
        | false =>
          obtain ⟨t, ts', h1, h2⟩ := exprHead_fmt o hwf precMember memObjectSide
          exact ⟨t, _, by rw [toks_mem, hmp, wrap_false, h1]; simp; rfl, h2⟩
      | .call f targs args, hwf =>
        obtain ⟨t, ts', h1, h2⟩ := exprHead_fmt f hwf.1 callObjectPrec callObjectSide
        exact ⟨t, _, by rw [toks_call, h1]; simp; rfl, h2⟩
      | .cast t x, _ => exact ⟨.p .LeftParen, _, toks_cast t x, Or.inr (Or.inr (Or.inl rfl))⟩
      | .sizeof a, _ => exact ⟨.p .SizeOf, _, toks_sizeof a, Or.inr (Or.inr (Or.inr (Or.inr rfl)))⟩

/-- a whole expression in front of one of `)`, `;`, `:`, `]` -/
def StdCloser (t : Tok) : Prop :=
  t = .p .RightParen ∨ t = .p .RightSquareBracket ∨ t = .p .Colon ∨ t = .p .Semicolon

theorem expr_reads (e : XExpr) (hwf : WF W e) (c : Tok) (hc : StdCloser c) (rest : List Tok)
    (hsafe : hasLt e = true → TmplFree (toks (fmtExprX e) ++ c :: rest) = true) :
    ∃ N, ∀ f, N ≤ f → xparseLvl W f 15 .Standard (toks (fmtExprX e) ++ c :: rest) = some (e, c :: rest) := by
  have hcl : Closes .Standard c rest := by
    rcases hc with h | h | h | h
    · exact Or.inl h
    · exact Or.inr (Or.inl h)
    · exact Or.inr (Or.inr (Or.inl h))
    · exact Or.inr (Or.inr (Or.inr (Or.inl h)))
  exact rt W e hwf 15 .Standard (c :: rest) (e, c :: rest) (fun h => by cases h) (lvl_le e) (Nat.le_refl _)
    (fun _ => rfl) (noLow_closes W _ _ _ _ hcl) hsafe
    (fin_self W e e.lvl 15 .Standard _ (lvl_le e) (fun _ => inert_closes W _ _ _ _ hcl))

end RsslVerif.Lemmas.StmtRT

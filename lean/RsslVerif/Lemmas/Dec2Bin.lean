import RsslVerif.Spec.Dec2Bin
/-!
# The rounding reference against the mathematical statement (core Lean, `Nat` cross-multiplication)

`x = N / M`, `q = chooseExp f N M`, `(A, B) = scale N M q` so that `x / 2^q = A / B` exactly, and
`m = roundQuot A B`.  Proved here:

* `scale_exact`      : `A / B` is exactly `x / 2^q` (cross-multiplied);
* `roundQuot_half`   : `|A / B - m| ≤ ½` and a tie picks the even `m` (round to nearest, ties to even);
* `roundQuot_nearest`: no integer is closer to `A / B` than `m`;
* `chooseExp_ge` / `chooseExp_norm`: `q ≥ emin`, `⌊x / 2^q⌋ < 2^p`, and `2^(p-1) ≤ ⌊x / 2^q⌋` unless `q = emin`
  (the unit in the last place is the one of the binade of `x`; gradual underflow at `emin`).
-/
namespace RsslVerif.Spec.Dec2Bin

theorem roundQuot_cases (A B : Nat) : roundQuot A B = A / B ∨ roundQuot A B = A / B + 1 := by
  unfold roundQuot
  dsimp only
  split
  · exact .inr rfl
  · exact .inl rfl

/-- round to nearest: `|A/B - m| ≤ 1/2`, written as `2A ≤ (2m+1)B` and `(2m-1)B ≤ 2A` -/
theorem roundQuot_half (A B : Nat) (hB : 0 < B) :
    2 * A ≤ 2 * (roundQuot A B * B) + B ∧ 2 * (roundQuot A B * B) ≤ 2 * A + B := by
  have hdm := Nat.div_add_mod A B
  have hr := Nat.mod_lt A hB
  unfold roundQuot
  dsimp only
  split
  · rename_i h
    rw [Nat.add_mul, Nat.one_mul]
    have : A / B * B = B * (A / B) := Nat.mul_comm _ _
    rcases h with h | h <;> omega
  · rename_i h
    have : A / B * B = B * (A / B) := Nat.mul_comm _ _
    have h1 : ¬ B < 2 * (A % B) := fun hh => h (.inl hh)
    omega

/-- ties to even: when `A/B` is exactly halfway between two integers the even one is chosen -/
theorem roundQuot_tie_even (A B : Nat) (hB : 0 < B)
    (htie : 2 * A = 2 * (roundQuot A B * B) + B ∨ 2 * (roundQuot A B * B) = 2 * A + B) :
    roundQuot A B % 2 = 0 := by
  have hdm := Nat.div_add_mod A B
  have hr := Nat.mod_lt A hB
  have hc : A / B * B = B * (A / B) := Nat.mul_comm _ _
  unfold roundQuot at htie ⊢
  dsimp only at htie ⊢
  split
  · rename_i h
    rw [if_pos h, Nat.add_mul, Nat.one_mul] at htie
    rcases h with h | h
    · omega
    · omega
  · rename_i h
    rw [if_neg h] at htie
    have h1 : ¬ B < 2 * (A % B) := fun hh => h (.inl hh)
    have h2 : ¬ (2 * (A % B) = B ∧ A / B % 2 = 1) := fun hh => h (.inr hh)
    have : 2 * (A % B) = B := by omega
    omega

/-- no integer `k` is closer to `A/B` than `roundQuot A B` (distances cross-multiplied by `2B`, so that
`|2A - 2kB|` is compared) -/
theorem roundQuot_nearest (A B k : Nat) (hB : 0 < B) :
    (2 * A - 2 * (roundQuot A B * B)) + (2 * (roundQuot A B * B) - 2 * A) ≤
    (2 * A - 2 * (k * B)) + (2 * (k * B) - 2 * A) := by
  have hdm := Nat.div_add_mod A B
  have hr := Nat.mod_lt A hB
  have hc : A / B * B = B * (A / B) := Nat.mul_comm _ _
  have hh := roundQuot_half A B hB
  -- k ≤ ⌊A/B⌋ or k ≥ ⌊A/B⌋ + 1
  by_cases hk : k ≤ A / B
  · have : k * B ≤ A / B * B := Nat.mul_le_mul_right B hk
    rcases roundQuot_cases A B with h | h
    · rw [h] at hh ⊢; omega
    · rw [h] at hh ⊢
      rw [Nat.add_mul, Nat.one_mul] at hh ⊢
      unfold roundQuot at h
      dsimp only at h
      split at h
      · rename_i hc2; rcases hc2 with hc2 | hc2 <;> omega
      · omega
  · have hk' : A / B + 1 ≤ k := by omega
    have : (A / B + 1) * B ≤ k * B := Nat.mul_le_mul_right B hk'
    rw [Nat.add_mul, Nat.one_mul] at this
    rcases roundQuot_cases A B with h | h
    · rw [h] at hh ⊢
      unfold roundQuot at h
      dsimp only at h
      split at h
      · omega
      · rename_i hc2
        have h1 : ¬ B < 2 * (A % B) := fun hh => hc2 (.inl hh)
        omega
    · rw [h] at hh ⊢
      rw [Nat.add_mul, Nat.one_mul] at hh ⊢; omega

/-! ### the exponent choice -/

/-- both components of `scale` in one formula (`2^0 = 1` on the unused side) -/
theorem scale_eq (N M : Nat) (q : Int) : scale N M q = (N * 2 ^ (-q).toNat, M * 2 ^ q.toNat) := by
  unfold scale
  split
  · rename_i h
    have : (-q).toNat = 0 := Int.toNat_eq_zero.mpr (by omega)
    simp [this]
  · rename_i h
    have : q.toNat = 0 := Int.toNat_eq_zero.mpr (by omega)
    simp [this]

/-- `scale` is exact: `A / B = (N / M) / 2^q`, cross-multiplied -/
theorem scale_exact (N M : Nat) (q : Int) :
    (scale N M q).1 * (M * 2 ^ q.toNat) = N * 2 ^ (-q).toNat * (scale N M q).2 := by
  rw [scale_eq]

theorem scale_pos (N M : Nat) (q : Int) (hM : 0 < M) : 0 < (scale N M q).2 := by
  rw [scale_eq]; exact Nat.mul_pos hM (Nat.pow_pos (by omega))

theorem two_pow_pos (k : Nat) : 0 < 2 ^ k := Nat.pow_pos (by omega)

/-- `N < 2^(a+1)`, `2^b ≤ M`, `a + 1 + u ≤ e + b + w` ⟹ `N·2^u < 2^e·(M·2^w)` -/
theorem pow_bound_upper {N M a b u w e : Nat} (hN : N < 2 ^ (a + 1)) (hM : 2 ^ b ≤ M)
    (h : a + 1 + u ≤ e + b + w) : N * 2 ^ u < 2 ^ e * (M * 2 ^ w) := by
  have h1 : N * 2 ^ u < 2 ^ (a + 1) * 2 ^ u := Nat.mul_lt_mul_of_lt_of_le hN (Nat.le_refl _) (two_pow_pos u)
  have h2 : 2 ^ (a + 1) * 2 ^ u = 2 ^ (a + 1 + u) := (Nat.pow_add 2 _ _).symm
  have h3 : 2 ^ (a + 1 + u) ≤ 2 ^ (e + b + w) := Nat.pow_le_pow_right (by omega) h
  have h4 : 2 ^ (e + b + w) = 2 ^ e * (2 ^ b * 2 ^ w) := by
    rw [Nat.pow_add, Nat.pow_add, Nat.mul_assoc]
  have h5 : 2 ^ e * (2 ^ b * 2 ^ w) ≤ 2 ^ e * (M * 2 ^ w) :=
    Nat.mul_le_mul (Nat.le_refl _) (Nat.mul_le_mul hM (Nat.le_refl _))
  omega

/-- `2^a ≤ N`, `M < 2^(b+1)`, `e + b + 1 + w ≤ a + u` ⟹ `2^e·(M·2^w) ≤ N·2^u` -/
theorem pow_bound_lower {N M a b u w e : Nat} (hN : 2 ^ a ≤ N) (hM : M < 2 ^ (b + 1))
    (h : e + b + 1 + w ≤ a + u) : 2 ^ e * (M * 2 ^ w) ≤ N * 2 ^ u := by
  have h1 : 2 ^ a * 2 ^ u ≤ N * 2 ^ u := Nat.mul_le_mul hN (Nat.le_refl _)
  have h2 : 2 ^ a * 2 ^ u = 2 ^ (a + u) := (Nat.pow_add 2 _ _).symm
  have h3 : 2 ^ (e + b + 1 + w) ≤ 2 ^ (a + u) := Nat.pow_le_pow_right (by omega) h
  have h4 : 2 ^ (e + b + 1 + w) = 2 ^ e * (2 ^ (b + 1) * 2 ^ w) := by
    rw [Nat.add_assoc e b 1, Nat.pow_add, Nat.pow_add 2 e, Nat.mul_assoc]
  have h5 : 2 ^ e * (M * 2 ^ w) ≤ 2 ^ e * (2 ^ (b + 1) * 2 ^ w) :=
    Nat.mul_le_mul (Nat.le_refl _) (Nat.mul_le_mul (Nat.le_of_lt hM) (Nat.le_refl _))
  omega

theorem quotAt_lt {N M a b e : Nat} {q : Int} (hM0 : 0 < M) (hN : N < 2 ^ (a + 1)) (hM : 2 ^ b ≤ M)
    (h : (a : Int) + 1 ≤ e + b + q) : quotAt N M q < 2 ^ e := by
  unfold quotAt
  rw [Nat.div_lt_iff_lt_mul (scale_pos N M q hM0), scale_eq]
  apply pow_bound_upper hN hM
  omega

theorem quotAt_ge {N M a b e : Nat} {q : Int} (hM0 : 0 < M) (hN : 2 ^ a ≤ N) (hM : M < 2 ^ (b + 1))
    (h : (e : Int) + b + 1 + q ≤ a) : 2 ^ e ≤ quotAt N M q := by
  unfold quotAt
  rw [Nat.le_div_iff_mul_le (scale_pos N M q hM0), scale_eq]
  apply pow_bound_lower hN hM
  omega

theorem chooseExp_ge (f : Fmt) (N M : Nat) : f.emin ≤ chooseExp f N M := by
  unfold chooseExp
  dsimp only
  split <;> omega

/-- **normalisation**: at the chosen exponent the integer part of `x / 2^q` has at most `p` bits, and exactly
`p` bits unless the exponent was clamped to `emin` (subnormal range) -/
theorem chooseExp_norm (f : Fmt) (hp : 2 ≤ f.p) (N M : Nat) (hN : 0 < N) (hM : 0 < M) :
    quotAt N M (chooseExp f N M) < 2 ^ f.p ∧
    (f.emin < chooseExp f N M → 2 ^ (f.p - 1) ≤ quotAt N M (chooseExp f N M)) := by
  have hNa := Nat.log2_self_le (Nat.pos_iff_ne_zero.mp hN)
  have hNb := @Nat.lt_log2_self N
  have hMa := Nat.log2_self_le (Nat.pos_iff_ne_zero.mp hM)
  have hMb := @Nat.lt_log2_self M
  unfold chooseExp
  dsimp only
  have hq1 : quotAt N M ((N.log2 : Int) - M.log2 - ((f.p : Int) - 1)) < 2 ^ f.p :=
    quotAt_lt hM hNb hMa (by omega)
  -- the tentative exponent q1, corrected by one when the quotient has only p-1 bits
  by_cases hc : (scale N M ((N.log2 : Int) - M.log2 - ((f.p : Int) - 1))).1 /
      (scale N M ((N.log2 : Int) - M.log2 - ((f.p : Int) - 1))).2 < 2 ^ (f.p - 1)
  · simp only [hc, if_true]
    have hup : quotAt N M ((N.log2 : Int) - M.log2 - ((f.p : Int) - 1) - 1) < 2 ^ f.p := by
      -- x / 2^q1 < 2^(p-1)  ⟹  x / 2^(q1-1) < 2^p
      unfold quotAt
      rw [Nat.div_lt_iff_lt_mul (scale_pos N M _ hM), scale_eq]
      have hc' := hc
      rw [Nat.div_lt_iff_lt_mul (scale_pos N M _ hM), scale_eq] at hc'
      dsimp only at hc' ⊢
      generalize hq : (N.log2 : Int) - M.log2 - ((f.p : Int) - 1) = q1 at hc' ⊢
      -- express both sides with u,w of q1
      by_cases hq0 : 1 ≤ q1
      · have e1 : (-q1).toNat = 0 := Int.toNat_eq_zero.mpr (by omega)
        have e2 : (-(q1 - 1)).toNat = 0 := Int.toNat_eq_zero.mpr (by omega)
        have e3 : q1.toNat = (q1 - 1).toNat + 1 := by omega
        rw [e1, e3, Nat.pow_succ] at hc'
        rw [e2]
        have e4 : 2 ^ f.p = 2 ^ (f.p - 1) * 2 := by
          rw [← Nat.pow_succ]; congr 1; omega
        rw [e4]
        simp only [Nat.pow_zero, Nat.mul_one] at hc' ⊢
        calc N < 2 ^ (f.p - 1) * (M * (2 ^ (q1 - 1).toNat * 2)) := hc'
          _ = 2 ^ (f.p - 1) * 2 * (M * 2 ^ (q1 - 1).toNat) := by
            simp only [Nat.mul_assoc, Nat.mul_comm, Nat.mul_left_comm]
      · have e1 : q1.toNat = 0 := Int.toNat_eq_zero.mpr (by omega)
        have e2 : (q1 - 1).toNat = 0 := Int.toNat_eq_zero.mpr (by omega)
        have e3 : (-(q1 - 1)).toNat = (-q1).toNat + 1 := by omega
        rw [e1] at hc'
        rw [e2, e3, Nat.pow_succ]
        have e4 : 2 ^ f.p = 2 ^ (f.p - 1) * 2 := by
          rw [← Nat.pow_succ]; congr 1; omega
        rw [e4]
        simp only [Nat.pow_zero, Nat.mul_one] at hc' ⊢
        calc N * (2 ^ (-q1).toNat * 2) = (N * 2 ^ (-q1).toNat) * 2 := by
              simp only [Nat.mul_assoc]
          _ < (2 ^ (f.p - 1) * M) * 2 := Nat.mul_lt_mul_of_lt_of_le hc' (Nat.le_refl _) (by omega)
          _ = 2 ^ (f.p - 1) * 2 * M := by simp only [Nat.mul_comm, Nat.mul_left_comm]
    have hlow : 2 ^ (f.p - 1) ≤ quotAt N M ((N.log2 : Int) - M.log2 - ((f.p : Int) - 1) - 1) :=
      quotAt_ge hM hNa hMb (by omega)
    split
    · rename_i hcl
      -- clamped to emin ≥ the chosen exponent: the quotient only gets smaller
      refine ⟨?_, fun h => absurd h (Int.lt_irrefl _)⟩
      exact quotAt_lt hM hNb hMa (by omega)
    · exact ⟨hup, fun _ => hlow⟩
  · simp only [hc, if_false]
    split
    · refine ⟨?_, fun h => absurd h (Int.lt_irrefl _)⟩
      exact quotAt_lt hM hNb hMa (by omega)
    · exact ⟨hq1, fun _ => by unfold quotAt; omega⟩

/-- `2^a ≤ N`, `M ≤ 2^b`, `e + b + w ≤ a + u` ⟹ `2^e·(M·2^w) ≤ N·2^u` -/
theorem pow_bound_lower' {N M a b u w e : Nat} (hN : 2 ^ a ≤ N) (hM : M ≤ 2 ^ b)
    (h : e + b + w ≤ a + u) : 2 ^ e * (M * 2 ^ w) ≤ N * 2 ^ u := by
  have h1 : 2 ^ a * 2 ^ u ≤ N * 2 ^ u := Nat.mul_le_mul hN (Nat.le_refl _)
  have h2 : 2 ^ a * 2 ^ u = 2 ^ (a + u) := (Nat.pow_add 2 _ _).symm
  have h3 : 2 ^ (e + b + w) ≤ 2 ^ (a + u) := Nat.pow_le_pow_right (by omega) h
  have h4 : 2 ^ (e + b + w) = 2 ^ e * (2 ^ b * 2 ^ w) := by
    rw [Nat.pow_add, Nat.pow_add 2 e, Nat.mul_assoc]
  have h5 : 2 ^ e * (M * 2 ^ w) ≤ 2 ^ e * (2 ^ b * 2 ^ w) :=
    Nat.mul_le_mul (Nat.le_refl _) (Nat.mul_le_mul hM (Nat.le_refl _))
  omega

/-- `(m, q)` is the canonical significand / exponent of a positive finite value of the format -/
def Canon (f : Fmt) (m : Nat) (q : Int) : Prop :=
  0 < m ∧ f.emin ≤ q ∧ m < 2 ^ f.p ∧ (f.emin < q → 2 ^ (f.p - 1) ≤ m)

theorem roundQuot_exact (m K : Nat) (hK : 0 < K) : roundQuot (m * K) K = m := by
  unfold roundQuot
  dsimp only
  rw [Nat.mul_mod_left, Nat.mul_div_cancel m hK]
  have : ¬ (K < 2 * 0 ∨ (2 * 0 = K ∧ m % 2 = 1)) := by omega
  rw [if_neg this]

/-- the exponent chosen for a representable value is its own exponent -/
theorem chooseExp_canon (f : Fmt) (hp : 2 ≤ f.p) (m : Nat) (q : Int) (hc : Canon f m q) :
    chooseExp f (m * 2 ^ q.toNat) (2 ^ (-q).toNat) = q := by
  obtain ⟨hm, hq, hlt, hnorm⟩ := hc
  have hN : 0 < m * 2 ^ q.toNat := Nat.mul_pos hm (two_pow_pos _)
  have hM : 0 < 2 ^ (-q).toNat := two_pow_pos _
  have hge := chooseExp_ge f (m * 2 ^ q.toNat) (2 ^ (-q).toNat)
  obtain ⟨h1, h2⟩ := chooseExp_norm f hp _ _ hN hM
  generalize chooseExp f (m * 2 ^ q.toNat) (2 ^ (-q).toNat) = qs at hge h1 h2
  -- bounds of N and M as powers of two
  have hL1 := Nat.log2_self_le (Nat.pos_iff_ne_zero.mp hm)
  have hL2 := @Nat.lt_log2_self m
  have hLp : m.log2 < f.p := (Nat.log2_lt (Nat.pos_iff_ne_zero.mp hm)).mpr hlt
  have hNlo : 2 ^ (m.log2 + q.toNat) ≤ m * 2 ^ q.toNat := by
    rw [Nat.pow_add]; exact Nat.mul_le_mul hL1 (Nat.le_refl _)
  have hNhi : m * 2 ^ q.toNat < 2 ^ (m.log2 + q.toNat + 1) := by
    have : m.log2 + q.toNat + 1 = (m.log2 + 1) + q.toNat := by omega
    rw [this, Nat.pow_add]
    exact Nat.mul_lt_mul_of_lt_of_le hL2 (Nat.le_refl _) (two_pow_pos _)
  apply Int.le_antisymm
  · -- qs ≤ q: otherwise the quotient would have fewer than p bits although qs > emin
    apply Int.not_lt.mp
    intro hgt
    have hlow := h2 (by omega)
    have : quotAt (m * 2 ^ q.toNat) (2 ^ (-q).toNat) qs < 2 ^ (f.p - 1) :=
      quotAt_lt hM hNhi (Nat.le_refl _) (by omega)
    omega
  · -- q ≤ qs: otherwise m has p bits and the quotient would have more than p
    apply Int.not_lt.mp
    intro hgt
    have hmn := hnorm (by omega)
    have hLeq : f.p - 1 ≤ m.log2 := (Nat.le_log2 (Nat.pos_iff_ne_zero.mp hm)).mpr hmn
    have : 2 ^ f.p ≤ quotAt (m * 2 ^ q.toNat) (2 ^ (-q).toNat) qs := by
      unfold quotAt
      rw [Nat.le_div_iff_mul_le (scale_pos _ _ qs hM), scale_eq]
      apply pow_bound_lower' hNlo (Nat.le_refl _)
      omega
    omega

/-- **nearest_exact_on_representable**: a value of the format is returned unchanged (its own bit pattern) -/
theorem nearestRat_exact (f : Fmt) (hp : 2 ≤ f.p) (m : Nat) (q : Int) (hc : Canon f m q) :
    nearestRat f (m * 2 ^ q.toNat) (2 ^ (-q).toNat) = Nat.min (encode f m q) f.infBits := by
  have hN : m * 2 ^ q.toNat ≠ 0 := Nat.pos_iff_ne_zero.mp (Nat.mul_pos hc.1 (two_pow_pos _))
  unfold nearestRat
  rw [if_neg hN]
  dsimp only
  rw [chooseExp_canon f hp m q hc, scale_eq]
  dsimp only
  have : m * 2 ^ q.toNat * 2 ^ (-q).toNat = m * (2 ^ (-q).toNat * 2 ^ q.toNat) := by
    rw [Nat.mul_assoc, Nat.mul_comm (2 ^ q.toNat)]
  rw [this, roundQuot_exact m _ (Nat.mul_pos (two_pow_pos _) (two_pow_pos _))]

/-- **nearest_correct (partial)**: the structure of every result of `nearestRat`.  With `x = N / M`:
there are an exponent `q ≥ emin` and integers `A / B = x / 2^q` (exactly) and `m` such that
* `m` is the integer nearest to `x / 2^q` (`|x/2^q - m| ≤ ½`, no integer is closer), the even one on a tie;
* `2^q` is the unit in the last place of the binade of `x`: `⌊x/2^q⌋ < 2^p`, and `≥ 2^(p-1)` unless `q = emin`
  (gradual underflow); hence `m ≤ 2^p`;
* the result is the encoding of `m·2^q`, or `+∞` when that encoding reaches the infinity pattern (overflow). -/
theorem nearestRat_spec (f : Fmt) (hp : 2 ≤ f.p) (N M : Nat) (hN : 0 < N) (hM : 0 < M) :
    ∃ (q : Int) (A B m : Nat),
      f.emin ≤ q ∧ 0 < B ∧ A * (M * 2 ^ q.toNat) = N * 2 ^ (-q).toNat * B ∧
      (2 * A ≤ 2 * (m * B) + B ∧ 2 * (m * B) ≤ 2 * A + B) ∧
      ((2 * A = 2 * (m * B) + B ∨ 2 * (m * B) = 2 * A + B) → m % 2 = 0) ∧
      (∀ k, (2 * A - 2 * (m * B)) + (2 * (m * B) - 2 * A) ≤ (2 * A - 2 * (k * B)) + (2 * (k * B) - 2 * A)) ∧
      A / B < 2 ^ f.p ∧ (f.emin < q → 2 ^ (f.p - 1) ≤ A / B) ∧ m ≤ 2 ^ f.p ∧ (f.emin < q → 2 ^ (f.p - 1) ≤ m) ∧
      nearestRat f N M = Nat.min (encode f m q) f.infBits := by
  obtain ⟨h1, h2⟩ := chooseExp_norm f hp N M hN hM
  have hB := scale_pos N M (chooseExp f N M) hM
  refine ⟨chooseExp f N M, (scale N M (chooseExp f N M)).1, (scale N M (chooseExp f N M)).2,
    roundQuot (scale N M (chooseExp f N M)).1 (scale N M (chooseExp f N M)).2,
    chooseExp_ge f N M, hB, scale_exact N M _, roundQuot_half _ _ hB, roundQuot_tie_even _ _ hB,
    fun k => roundQuot_nearest _ _ k hB, h1, h2, ?_, ?_, ?_⟩
  · unfold quotAt at h1
    rcases roundQuot_cases (scale N M (chooseExp f N M)).1 (scale N M (chooseExp f N M)).2 with h | h <;>
      rw [h] <;> omega
  · intro hq
    have := h2 hq
    unfold quotAt at this
    rcases roundQuot_cases (scale N M (chooseExp f N M)).1 (scale N M (chooseExp f N M)).2 with h | h <;>
      rw [h] <;> omega
  · unfold nearestRat
    rw [if_neg (Nat.pos_iff_ne_zero.mp hN)]

/-- **finer grid**: a value `m' · 2^q / T` of a smaller exponent (`T = 2^(q - q') ≥ 2`, `m' < 2^p`) lies below
`2^(p-1) · 2^q ≤ x` by at least half a unit of `2^q`, hence is not closer to `x` than the rounded `m`
(distances cross-multiplied by `2·B·T`). Needs `2^(p-1) ≤ ⌊A/B⌋`, which holds whenever `q > emin`. -/
theorem finer_grid_not_closer (p A B m m' T : Nat) (hB : 0 < B) (hp : 1 ≤ p)
    (hnorm : 2 ^ (p - 1) ≤ A / B) (hm' : m' < 2 ^ p) (hT : 2 ≤ T)
    (hhalf : 2 * A ≤ 2 * (m * B) + B ∧ 2 * (m * B) ≤ 2 * A + B) :
    2 * (B * m') ≤ 2 * (A * T) ∧
    ((2 * A - 2 * (m * B)) + (2 * (m * B) - 2 * A)) * T ≤ 2 * (A * T) - 2 * (B * m') := by
  -- 2^(p-1)·B ≤ A
  have hA : 2 ^ (p - 1) * B ≤ A := (Nat.le_div_iff_mul_le hB).mp hnorm
  have hpow : 2 ^ p = 2 * 2 ^ (p - 1) := by
    have : p = (p - 1) + 1 := by omega
    rw [this, Nat.pow_succ, Nat.mul_comm]; simp
  -- 2·m' + 2 ≤ 2^p·... : 2·m' ≤ (2^p - 1)·T because T ≥ 2
  have h1 : 2 * m' + T ≤ 2 ^ p * T := by
    have : m' + 1 ≤ 2 ^ p := hm'
    have h2 : (m' + 1) * T ≤ 2 ^ p * T := Nat.mul_le_mul this (Nat.le_refl _)
    have h3 : m' * 2 ≤ m' * T := Nat.mul_le_mul (Nat.le_refl _) hT
    rw [Nat.add_mul, Nat.one_mul] at h2
    omega
  -- multiply by B:  2·B·m' + B·T ≤ 2^p·B·T ≤ 2·A·T
  have h4 : B * (2 * m' + T) ≤ B * (2 ^ p * T) := Nat.mul_le_mul (Nat.le_refl _) h1
  have h5 : B * (2 ^ p * T) = 2 * ((2 ^ (p - 1) * B) * T) := by
    rw [hpow]; simp only [Nat.mul_comm, Nat.mul_left_comm]
  have h6 : (2 ^ (p - 1) * B) * T ≤ A * T := Nat.mul_le_mul hA (Nat.le_refl _)
  have h7 : B * (2 * m' + T) = 2 * (B * m') + B * T := by
    rw [Nat.mul_add]; simp only [Nat.mul_assoc, Nat.mul_comm]
  -- the rounded distance is at most B (in units of 1/(2B)), so times T at most B·T
  have h8 : ((2 * A - 2 * (m * B)) + (2 * (m * B) - 2 * A)) * T ≤ B * T :=
    Nat.mul_le_mul (by omega) (Nat.le_refl _)
  omega

end RsslVerif.Spec.Dec2Bin

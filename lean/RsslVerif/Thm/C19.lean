import RsslVerif.Lemmas.Layout
import RsslVerif.Lemmas.LayoutFix
/-!
# C19 — layout-consistency validation is sound

Statements are about `Model.Layout.get` / `checkAll` (the model of `get_type_layout` / `check_layout`,
driven by the op programs regenerated from `/repo` into `Gen.LayoutTables`) and the independent
reference calculators `Spec.Layout.hlslSB` / `Spec.Layout.metal`.

The full-strength statements

* `check_sound  : wf t → checkAll [t] = .ok → Agree t`  (accepted ⇒ same size, same offset of every field)
* `reported_true: wf t → checkAll [t] = .mismatch 0 h m → h.size = size .hlsl t ∧ m.size = size .metal t`

are **false on the pinned tree**; their negations are proved below with concrete witnesses
(`check_sound_refuted`, `reported_true_refuted`) which the correspondence run replays on the real code
(corpus/C19.txt).  What does hold is proved for every type of the stated classes, of any size and depth.
-/
namespace RsslVerif.Thm.C19
open RsslVerif.Gen.LayoutTables RsslVerif.Model.Layout RsslVerif.Spec.Layout RsslVerif.Lemmas.Layout
open RsslVerif.Lemmas.LayoutFix

/-! ## Tie to the source tables -/

/-- `ScalarType::get_size` gives the reference byte sizes on the property's scalar grid, `bool` has no
    layout, and the arms of `get_type_layout` have the kinds the model assumes. -/
theorem tables_pinned :
    (∀ s, sized s = true → scalarSize s = some (bytes s)) ∧ boolHasNoLayout = true ∧
    layerKind .Scalar = .scalar ∧ layerKind .Vector = .vector ∧ layerKind .Struct = .struct ∧
    layerKind .ArraySized = .array ∧ layerKind .Enum = .underlying ∧ layerKind .Modifier = .inner ∧
    layerKind .Matrix = .none ∧ layerKind .ArrayUnsized = .none ∧ layerKind .Object = .none ∧
    layerKind .Void = .none := by
  refine ⟨fun s => by cases s <;> decide, ?_⟩
  decide

/-- `check_layout` looks at exactly the uses the property names: (RW)StructuredBuffer element types and
    the template argument of typed raw-buffer / buffer-address loads and stores. -/
theorem checked_sites :
    checkedObjects = ["StructuredBuffer", "RWStructuredBuffer"] ∧
    checkedIntrinsics = ["ByteAddressBufferLoadT", "RWByteAddressBufferLoadT", "RWByteAddressBufferStore",
      "BufferAddressLoad", "RWBufferAddressLoad", "RWBufferAddressStore"] := by
  decide

/-! ## The full statements are false: witnesses -/

private def f : Ty := .scalar .Float32
private def h : Ty := .scalar .Float16
private def S (l : List Ty) : Ty := .struct (Tys.ofList l)

/-- `{ struct{float2; float}; float }` -/
def witnessNested : Ty := S [S [.vec .Float32 2, f], f]
/-- `{ half; half2; float }` -/
def witnessOffsets : Ty := S [h, .vec .Float16 2, f]
/-- `{ struct{float2; float}[2] }` -/
def witnessArray : Ty := S [.arr (S [.vec .Float32 2, f]) 2]
/-- `{ struct{float2; float}; float; float3 }` -/
def witnessReported : Ty := S [S [.vec .Float32 2, f], f, .vec .Float32 3]

/-- accepted although Metal lays the struct out in 24 bytes and HLSL in 16 (nested tail padding) -/
theorem check_unsound_nested :
    wf witnessNested = true ∧ checkAll [witnessNested] = .ok ∧
    size .hlsl witnessNested = 16 ∧ size .metal witnessNested = 24 := by decide

/-- accepted with equal sizes (12/12) although the second field is at offset 2 under HLSL packing and
    at offset 4 under Metal: sizes are compared, offsets are not -/
theorem check_unsound_offsets :
    wf witnessOffsets = true ∧ checkAll [witnessOffsets] = .ok ∧
    size .hlsl witnessOffsets = size .metal witnessOffsets ∧
    offsets .hlsl (Tys.ofList [h, .vec .Float16 2, f]) 0 = [0, 2, 8] ∧
    offsets .metal (Tys.ofList [h, .vec .Float16 2, f]) 0 = [0, 4, 8] := by decide

/-- accepted although the array stride is 12 under HLSL packing and 16 under Metal -/
theorem check_unsound_array :
    wf witnessArray = true ∧ checkAll [witnessArray] = .ok ∧
    size .hlsl witnessArray = 24 ∧ size .metal witnessArray = 32 := by decide

/-- **negation of the desired `check_sound`** -/
theorem check_sound_refuted : ¬ ∀ t : Ty, wf t = true → checkAll [t] = .ok → Agree t := by
  intro hall
  exact absurd (hall witnessOffsets (by decide) (by decide)) (by decide)

/-- rejected, but the reported Metal size (32) is not the true one (48) -/
theorem reported_true_refuted :
    ¬ ∀ (t : Ty) (lh lm : Layout), wf t = true → checkAll [t] = .mismatch 0 lh lm →
        lh.size = size .hlsl t ∧ lm.size = size .metal t := by
  intro hall
  have := hall witnessReported ⟨28, 4⟩ ⟨32, 16⟩ (by decide) (by decide)
  exact absurd this.2 (by decide)

/-! ## What does hold, for every type of the stated class (any size, any nesting depth) -/

/-- **Reported sizes are true sizes (partial).**  If no struct strictly below `t` needs tail padding
    under rule `m`, then whatever `get_type_layout` returns has the reference alignment, and its size
    rounded up to that alignment (what `check_layout` reports) is the reference size.
    Partial: the hypothesis `noInnerTailPad` excludes exactly the types on which the pinned
    `get_type_layout` is wrong (`reported_true_refuted`). -/
theorem get_matches_spec_partial (m : Mode) (t : Ty) (l : Layout) (hw : wf t = true)
    (hp : noInnerTailPad m t = true) (h : get m t = .ok l) :
    l.align = align m t ∧ roundUp l.size l.align = size m t := by
  obtain ⟨a, s⟩ := get_spec m t l hw hp h
  exact ⟨a, by rw [a, s, roundUp_raw m t hw]⟩

/-- flat structs (members are scalars, vectors, enums): the sizes are always the true ones -/
theorem get_matches_spec_flat (m : Mode) (ms : Tys) (l : Layout) (hw : wf (.struct ms) = true)
    (hf : flat ms = true) (h : get m (.struct ms) = .ok l) :
    l.align = align m (.struct ms) ∧ roundUp l.size l.align = size m (.struct ms) :=
  get_matches_spec_partial m (.struct ms) l hw (closedAll_of_flat m ms hf) h

/-- on the class without inner tail padding `check_layout` decides exactly "the two reference sizes are
    equal", and what it reports on rejection are the reference sizes and alignments -/
theorem check_decides_sizes_partial (t : Ty) (r : Option (Layout × Layout)) (hw : wf t = true)
    (hh : noInnerTailPad .hlsl t = true) (hm : noInnerTailPad .metal t = true)
    (h : checkOne t = .ok r) :
    r = if size .hlsl t ≠ size .metal t then
          some (⟨size .hlsl t, align .hlsl t⟩, ⟨size .metal t, align .metal t⟩) else none :=
  checkOne_spec hw hh hm h

/-- **rejected ⇒ the reported sizes are the true sizes (partial: no inner tail padding)** -/
theorem reported_true_partial (t : Ty) (lh lm : Layout) (hw : wf t = true)
    (hh : noInnerTailPad .hlsl t = true) (hm : noInnerTailPad .metal t = true)
    (h : checkAll [t] = .mismatch 0 lh lm) :
    lh = ⟨size .hlsl t, align .hlsl t⟩ ∧ lm = ⟨size .metal t, align .metal t⟩ := by
  simp only [checkAll, checkFrom] at h
  split at h
  · cases h
  · cases h
  · rename_i a b hc
    have := checkOne_spec hw hh hm hc
    split at this
    · cases this; cases h; exact ⟨rfl, rfl⟩
    · cases this
  · cases h

/-- **Soundness (partial).**  For every list of element types: if `check_layout` accepts, then every
    type of the list that (a) has no inner tail padding under the Metal rules and (b) is laid out without
    any padding by HLSL structured-buffer packing has the same total size and the same offset for
    every field, recursively, under both rules.
    Partial: (a) and (b) are needed on the pinned tree — `check_unsound_nested`/`check_unsound_array`
    violate (a), `check_unsound_offsets` violates (b). -/
theorem check_sound_partial (ts : List Ty) (h : checkAll ts = .ok) (t : Ty) (ht : t ∈ ts)
    (hw : wf t = true) (hm : noInnerTailPad .metal t = true) (hd : hlslDense t) : Agree t := by
  have hh : noInnerTailPad .hlsl t = true := noInner_of_closed _ t (dense_closed _ t hw hd)
  have hc := checkFrom_ok ts 0 h t ht
  have := checkOne_spec hw hh hm hc
  have hs : size .hlsl t = size .metal t := by
    by_cases e : size .hlsl t = size .metal t
    · exact e
    · simp only [ne_eq, e, not_false_eq_true, if_true] at this; cases this
  exact ⟨hs, dense_agree t hw hd (by rw [← hs]; exact hd)⟩

/-- `Agree` is what the property says in terms of the two reference calculators: the same total size
    and the same absolute byte offset for every field, recursively (every array element included) -/
theorem agree_same_size_and_fields (t : Ty) (hw : wf t = true) (h : Agree t) :
    ∃ rh rm, hlslSB t = some rh ∧ metal t = some rm ∧ rh.size = rm.size ∧ rh.fields = rm.fields := by
  refine ⟨⟨size .hlsl t, align .hlsl t, fieldsAt .hlsl t 0⟩, ⟨size .metal t, align .metal t, fieldsAt .metal t 0⟩,
    by simp only [hlslSB, ref, hw, if_true], by simp only [metal, ref, hw, if_true], h.1, ?_⟩
  exact agree_fields t h.2 0

/-- without vectors (scalars, enums, arrays and structs of them, to any depth) the two rule sets give
    the same layout, whatever the checker says -/
theorem vector_free_agree (t : Ty) (hv : vectorFree t = true) : Agree t :=
  ⟨(vectorFree_same t hv).2.1, (vectorFree_same t hv).2.2⟩

/-- **No panic, no "unknown size" on the grid.**  For every type that has a reference layout and whose
    two reference sizes fit in `u32`, `check_layout`'s loop body reaches the comparison: none of the
    overflow / `unwrap` / `panic!` sites of `get_type_layout` fires and neither call returns `None`. -/
theorem check_total (t : Ty) (hw : wf t = true) (hh : size .hlsl t ≤ u32Max)
    (hm : size .metal t ≤ u32Max) : ∃ r, checkOne t = .ok r :=
  checkOne_total t hw hh hm

/-- the computed size never exceeds the reference size and the alignment is always the reference
    alignment — also on the types where the size is wrong (the defect only ever *under*-estimates) -/
theorem get_le_spec (m : Mode) (t : Ty) (hw : wf t = true) (hb : size m t ≤ u32Max) :
    ∃ l, get m t = .ok l ∧ l.size ≤ size m t ∧ l.align = align m t :=
  get_total m t hw hb

/-- **No false rejection (partial).**  On the class without inner tail padding, a type whose two
    reference layouts agree (and whose sizes fit `u32`) is accepted: the pinned checker errs only towards
    accepting too much there. (Outside the class it also rejects agreeing types, see
    `check_rejects_agreeing_witness`.) -/
theorem check_accepts_agreeing_partial (t : Ty) (hw : wf t = true)
    (hh : noInnerTailPad .hlsl t = true) (hm : noInnerTailPad .metal t = true)
    (bh : size .hlsl t ≤ u32Max) (bm : size .metal t ≤ u32Max) (ha : Agree t) :
    checkAll [t] = .ok := by
  obtain ⟨r, hr⟩ := checkOne_total t hw bh bm
  have := checkOne_spec hw hh hm hr
  simp only [ne_eq, ha.1, not_true_eq_false, if_false] at this
  subst this
  simp only [checkAll, checkFrom, hr]

/-- outside that class the pinned checker also rejects types whose layouts agree:
    `{ struct{float2; half3}[4] }` is 64 bytes with identical offsets under both rules, but is
    rejected as "56 vs 64" -/
theorem check_rejects_agreeing_witness :
    let t := S [.arr (S [.vec .Float32 2, .vec .Float16 3]) 4]
    wf t = true ∧ Agree t ∧ size .hlsl t = 64 ∧ checkAll [t] = .mismatch 0 ⟨56, 4⟩ ⟨64, 8⟩ := by
  decide

/-! ## The candidate fix (notes/C19.md) restores the full statements

`getFix` = `get` + one statement at the end of the `Struct` arm (op `.roundSizeToAlign`);
`checkFix` additionally compares member offsets and array strides at every level
(`Lemmas/LayoutFix.lean`).  These are statements about the *proposed* code, not about `/repo`. -/

/-- full-strength `get_matches_spec` for the fixed `get_type_layout`: every type of the grid -/
theorem fixed_get_matches_spec (m : Mode) (t : Ty) (l : Layout) (hw : wf t = true)
    (h : getFix m t = .ok l) : l.size = size m t ∧ l.align = align m t :=
  getFix_spec m t l hw h

/-- full-strength `check_sound` for the fixed `check_layout`: no side condition on the type -/
theorem fixed_check_sound (t : Ty) (hw : wf t = true) (h : checkFix t = .ok true) : Agree t :=
  fix_sound t hw h

/-! ### non-vacuity: a depth-3 type with arrays and vectors satisfies every hypothesis of
    `check_sound_partial` and is accepted -/
private def d : Ty := .scalar .Float64
private def f4 : Ty := .vec .Float32 4
private def f2 : Ty := .vec .Float32 2
private def deep : Ty :=
  S [f4, S [f2, f2, S [.vec .Float64 2, d, .enum .Int32, f, f2, d]], .arr f4 3, .arr (S [d, d]) 2, d, d]

example : wf deep = true ∧ noInnerTailPad .metal deep = true ∧
    hlslDense deep ∧ checkAll [f, deep] = .ok := by unfold hlslDense; decide

/-- and a rejected one satisfies the hypotheses of `reported_true_partial` -/
example : wf (S [f, f2]) = true ∧ noInnerTailPad .hlsl (S [f, f2]) = true ∧
    checkAll [S [f, f2]] = .mismatch 0 ⟨12, 4⟩ ⟨16, 8⟩ := by decide

end RsslVerif.Thm.C19

//! Matrix programs in the forms the Metal backend accepts (float matrices, no subscripts / `_mRC` members — those are
//! rejected with a diagnostic): whole-matrix parameters, locals, statics, struct members, out / inout matrix parameters,
//! `+ - *`, construction from scalars / row vectors / one scalar, casts.  Complements `c01/vgen.rs`, whose matrix programs
//! mostly use subscripts.
#![allow(dead_code)]
use crate::util::Rng;

fn lit(rng: &mut Rng) -> String {
    rng.pick(&["0.0f", "1.0f", "2.5f", "-1.5f", "0.25f", "100.0f", "3.0f"]).to_string()
}

/// `mul` / `transpose` on matrix parameters (shapes the type checker has `mul` for): the orientation of the emitted objects
pub fn mul_program(rng: &mut Rng) -> String {
    let (r, c) = *rng.pick(&[(3usize, 3usize), (3, 4), (4, 3), (4, 4)]);
    let mt = format!("float{}x{}", r, c);
    let (vin, vout) = (format!("float{}", c), format!("float{}", r));
    let mut out = format!("{} fmul({} m, {} n, {} v, {} w)\n{{\n", vout, mt, mt, vin, vout);
    out.push_str(&format!("    {} t = m {} n;\n", mt, rng.pick(&["+", "-"])));
    out.push_str(&format!("    {} a = mul({}, v);\n", vout, rng.pick(&["m", "t", "n"])));
    if r == c {
        out.push_str(&format!("    a = a + mul(w, {});\n", rng.pick(&["m", "t"])));
        if rng.chance(1, 2) {
            out.push_str("    a = mul(transpose(t), a);\n");
        }
    } else if rng.chance(1, 2) {
        out.push_str("    a = a - w;\n");
    }
    if r == c && rng.chance(1, 2) {
        out.push_str("    a = mul(m, mul(transpose(n), a));\n");
    }
    out.push_str("    return a;\n}\n");
    out
}

/// kinds of statement: 0 = passing around only (must agree), 1 = + -, 2 = constructors, 3 = scalar casts, 4 = products
pub fn program(rng: &mut Rng) -> String {
    if rng.chance(1, 4) {
        return mul_program(rng);
    }
    let (r, c) = (2 + rng.below(3) as usize, 2 + rng.below(3) as usize);
    let mt = format!("float{}x{}", r, c);
    let rowt = format!("float{}", c);
    let level = rng.below(5);
    let mut out = String::new();
    let with_struct = rng.chance(1, 3);
    let with_static = rng.chance(1, 2);
    let with_const = level >= 2 && rng.chance(1, 2);
    if with_struct {
        out.push_str(&format!("struct SM\n{{\n    {} m;\n    float k;\n}};\n", mt));
    }
    if with_static {
        out.push_str(&format!("static {} gm = ({})0.0f;\n", mt, mt));
    }
    if with_const {
        let xs: Vec<String> = (0..r * c).map(|_| lit(rng)).collect();
        out.push_str(&format!("static const {} cm = {}({});\n", mt, mt, xs.join(", ")));
    }
    // a helper with out / inout matrix parameters
    out.push_str(&format!("void hm(inout {} a, out {} b, {} d)\n{{\n    b = a;\n    a = d;\n", mt, mt, mt));
    if level >= 1 {
        out.push_str("    a = a + b;\n    b -= d;\n");
    }
    if with_static {
        out.push_str("    gm = b;\n");
    }
    out.push_str("}\n\n");
    let ret_matrix = rng.chance(2, 3);
    out.push_str(&format!("{} fm({} p, {} q, {} v, float s{})\n{{\n", if ret_matrix { mt.clone() } else { rowt.clone() }, mt, mt, rowt, if with_struct { ", SM t" } else { "" }));
    out.push_str(&format!("    {} x = p;\n    {} y;\n", mt, mt));
    out.push_str("    hm(x, y, q);\n");
    let n = 1 + rng.below(3);
    for _ in 0..n {
        let k = rng.below(level + 1);
        let st = match k {
            0 => match rng.below(3) {
                0 => "x = y;".to_string(),
                1 if with_struct => "t.m = x;\n    y = t.m;".to_string(),
                2 if with_static => "gm = x;\n    y = gm;".to_string(),
                _ => "y = s > 1.0f ? x : q;".to_string(),
            },
            1 => match rng.below(3) {
                0 => "x = x + y;".to_string(),
                1 => "x -= q;".to_string(),
                _ => "y = (p - q) + x;".to_string(),
            },
            2 => match rng.below(3) {
                0 => {
                    let rows: Vec<String> = (0..r).map(|i| if i == 0 { "v".to_string() } else { format!("{}({})", rowt, (0..c).map(|_| lit(rng)).collect::<Vec<_>>().join(", ")) }).collect();
                    format!("x = {}({});", mt, rows.join(", "))
                }
                1 => {
                    let xs: Vec<String> = (0..r * c).map(|i| if i == 1 { "s".to_string() } else { lit(rng) }).collect();
                    format!("y = {}({});", mt, xs.join(", "))
                }
                _ if with_const => "x = cm;".to_string(),
                _ => format!("x = {}({});", mt, (0..r).map(|_| "v").collect::<Vec<_>>().join(", ")),
            },
            3 => match rng.below(2) {
                0 => format!("x = ({})s;", mt),
                _ => "y = x + s;".to_string(),
            },
            _ => match rng.below(3) {
                0 => "x = x * y;".to_string(),
                1 => "y = y * s;".to_string(),
                _ => "x *= q;".to_string(),
            },
        };
        out.push_str(&format!("    {}\n", st));
    }
    if ret_matrix {
        out.push_str(&format!("    return {};\n}}\n", rng.pick(&["x", "y", "x - y"])));
    } else {
        out.push_str(&format!("    return v + ({})s;\n}}\n", rowt));
    }
    out
}

// ------------------------------------------------------------------------------------------------ other forms
const KINDS: [&str; 3] = ["int", "uint", "float"];
const COMP: [&str; 4] = ["x", "y", "z", "w"];

fn klit(rng: &mut Rng, k: &str) -> String {
    match k {
        "int" => rng.pick(&["0", "1", "2", "7", "-3", "100", "2147483647"]).to_string(),
        "uint" => rng.pick(&["0u", "1u", "2u", "7u", "33u", "4294967295u"]).to_string(),
        "bool" => rng.pick(&["true", "false"]).to_string(),
        _ => lit(rng),
    }
}

fn vt(k: &str, n: usize) -> String {
    if n == 1 { k.to_string() } else { format!("{}{}", k, n) }
}

fn swz(rng: &mut Rng, from: usize, n: usize) -> String {
    (0..n).map(|_| COMP[rng.below(from as u64) as usize]).collect()
}

/// programs around the forms `c01/vgen.rs` does not produce: swizzles of scalars, arithmetic on enumerations and
/// enumeration constants without an enumerator, prototypes of functions with out parameters, value template parameters,
/// nested structs / arrays of structs, struct out parameters, methods with out parameters
pub fn extra_program(rng: &mut Rng) -> String {
    match rng.below(6) {
        5 => qualified_matrix_subscript(rng),
        0 => scalar_swizzles(rng),
        1 => enums(rng),
        2 => prototypes(rng),
        3 => value_templates(rng),
        _ => nested_structs(rng),
    }
}

/// a subscript on a matrix whose type carries a modifier (`const` local, `static const` global): the exporter refuses every
/// matrix subscript (`UnimplementedMatrixIndex`: `m[i]` is a COLUMN in Metal, a row in the source) — the guard looks at the
/// type WITHOUT its modifiers; an exporter that lets these through is judged on what it emits (seeded mutant C02-5)
fn qualified_matrix_subscript(rng: &mut Rng) -> String {
    let (r, c) = (2 + rng.below(3) as usize, 2 + rng.below(3) as usize);
    let mt = format!("float{}x{}", r, c);
    let rowt = format!("float{}", c);
    let xs: Vec<String> = (0..r * c).map(|i| format!("{}.0f", i + 1)).collect();
    let i = rng.below(r as u64);
    let j = rng.below(c as u64);
    let mut out = format!("static const {} cm = {}({});\n", mt, mt, xs.join(", "));
    out.push_str(&format!("{} pick({} p, {} v)\n{{\n    const {} m = p;\n    return m[{}] + v;\n}}\n", rowt, mt, rowt, mt, i));
    out.push_str(&format!("float elem({} p)\n{{\n    const {} m = p;\n    return m[{}][{}] + m[0][{}];\n}}\n", mt, mt, i, j, c - 1));
    out.push_str(&format!("{} fromconst({} v)\n{{\n    return cm[{}] + v;\n}}\n", rowt, rowt, i));
    out
}

fn scalar_swizzles(rng: &mut Rng) -> String {
    let k = *rng.pick(&KINDS);
    let n = 2 + rng.below(3) as usize;
    let m = 2 + rng.below(3) as usize;
    let mut out = format!("{} fx({} s, {} v, bool b)\n{{\n", vt(k, n), k, vt(k, m));
    out.push_str(&format!("    {} a = s.{};\n", vt(k, n), "x".repeat(n)));
    out.push_str(&format!("    {} c = v.{};\n", k, swz(rng, m, 1)));
    let op = *rng.pick(&["+", "-", "*"]);
    match rng.below(4) {
        0 => out.push_str(&format!("    a = a {} c.{}.{};\n", op, "x".repeat(4), swz(rng, 4, n))),
        1 => out.push_str(&format!("    a.{} = s.x;\n", COMP[rng.below(n as u64) as usize])),
        2 => out.push_str(&format!("    a {}= (b ? s : c).{};\n", op, "x".repeat(n))),
        _ => out.push_str(&format!("    c = (s {} c).x;\n    a = c.{};\n", op, "x".repeat(n))),
    }
    if rng.chance(1, 2) {
        out.push_str(&format!("    s.x = {};\n    a = a {} s.{};\n", klit(rng, k), op, "x".repeat(n)));
    }
    out.push_str(&format!("    return a {} ({})c;\n}}\n", op, vt(k, n)));
    out
}

fn enums(rng: &mut Rng) -> String {
    let mut out = String::from("enum E1 { P0, P1 = 3, P2, P3 = 16 };\n");
    let in_struct = rng.chance(1, 2);
    if in_struct {
        out.push_str("struct SE\n{\n    E1 e;\n    int2 w;\n};\n");
    }
    out.push_str("void he(inout E1 a, out E1 b, int k)\n{\n    b = a;\n");
    out.push_str(&format!("    a = (E1)(a {} k);\n}}\n\n", rng.pick(&["+", "|", "^", "&", "*"])));
    out.push_str(&format!("int fe(E1 p, E1 q, int i{})\n{{\n", if in_struct { ", SE t" } else { "" }));
    out.push_str(&format!("    E1 c = p {} q;\n", rng.pick(&["|", "&", "^"])));
    out.push_str(&format!("    E1 d = (E1){};\n", rng.pick(&["7", "1", "16", "100", "-1"])));
    out.push_str("    E1 o;\n    he(c, o, i);\n");
    if in_struct {
        out.push_str("    t.e = o;\n    o = t.e;\n    t.w.x += (int)t.e;\n");
    }
    match rng.below(3) {
        0 => out.push_str("    if (c == P1 || d > q)\n    {\n        c = E1::P2;\n    }\n"),
        1 => out.push_str("    switch (c)\n    {\n        case P0:\n        {\n            i = 1;\n            break;\n        }\n        case E1::P3:\n        {\n            i += 2;\n        }\n        default:\n        {\n            i = i * 3;\n        }\n    }\n"),
        _ => out.push_str("    c = i > 2 ? p : d;\n"),
    }
    out.push_str(&format!("    return (int)c + (int)o * 7 + (int)d * 31 + i{};\n}}\n", if in_struct { " + t.w.x" } else { "" }));
    out
}

fn prototypes(rng: &mut Rng) -> String {
    let k = *rng.pick(&KINDS);
    let n = 2 + rng.below(3) as usize;
    let t = vt(k, n);
    let ns = rng.chance(1, 2);
    let void_ret = rng.chance(1, 2);
    let ret = if void_ret { "void".to_string() } else { t.clone() };
    let mut out = String::new();
    if ns {
        out.push_str("namespace NP\n{\n");
    }
    out.push_str(&format!("static {} gp = {};\n", t, klit(rng, k)));
    out.push_str(&format!("{} hp(out {} o, inout {} q, {} d = {});\n", ret, t, t, k, klit(rng, k)));
    out.push_str(&format!("{} up({} v)\n{{\n    {} o;\n    {} q = v;\n", t, t, t, t));
    if void_ret {
        out.push_str(&format!("    hp(o, q{});\n", if rng.chance(1, 2) { String::new() } else { format!(", {}", klit(rng, k)) }));
    } else {
        out.push_str("    o = hp(o, q) + o;\n");
    }
    out.push_str("    return o - q + gp;\n}\n");
    out.push_str(&format!("{} hp(out {} o, inout {} q, {} d)\n{{\n    o = q + d;\n    q.{} = d;\n    gp = gp + o;\n", ret, t, t, k, COMP[rng.below(n as u64) as usize]));
    if !void_ret {
        out.push_str("    return q;\n");
    }
    out.push_str("}\n");
    if ns {
        out.push_str("}\n");
    }
    let q = if ns { "NP::" } else { "" };
    out.push_str(&format!("\n{} fp({} v)\n{{\n    {} a = {}up(v);\n    {} b;\n    {}hp(b, a);\n    return a + b + {}gp;\n}}\n", t, t, t, q, t, q, q));
    out
}

fn value_templates(rng: &mut Rng) -> String {
    let k = *rng.pick(&KINDS);
    let n = 1 + rng.below(4) as usize;
    let t = vt(k, n);
    let (c1, c2) = (1 + rng.below(5), 1 + rng.below(5));
    let mut out = String::new();
    out.push_str("template<int N> int tv(int a)\n{\n    return a * N + N;\n}\n");
    out.push_str("template<typename T, int K> T tw(T a, T b)\n{\n    T r = a;\n    for (int i = 0; i < K; ++i)\n    {\n        r = r + b;\n    }\n    return r;\n}\n");
    out.push_str(&format!("{} ft({} v, {} w, int i)\n{{\n", t, t, t));
    out.push_str(&format!("    int j = tv<{}>(i) + tv<{}>(i);\n", c1, c2));
    out.push_str(&format!("    {} r = tw<{}, {}>(v, w);\n", t, t, 1 + rng.below(3)));
    if rng.chance(1, 2) {
        out.push_str(&format!("    r = r + tw<{}, {}>(w, ({})j);\n", t, 1 + rng.below(3), t));
    }
    out.push_str(&format!("    return r + ({})j;\n}}\n", t));
    out
}

fn nested_structs(rng: &mut Rng) -> String {
    let k = *rng.pick(&KINDS);
    let n = 2 + rng.below(3) as usize;
    let t = vt(k, n);
    let mut out = String::new();
    out.push_str(&format!("struct SI\n{{\n    {} v;\n    {} s;\n    void set({} a, out {} old)\n    {{\n        old = v;\n        v = a;\n    }}\n    {} sum()\n    {{\n        return v + s;\n    }}\n}};\n", t, k, t, t, t));
    out.push_str("struct SO\n{\n    SI one;\n    SI two[2];\n    bool flag;\n};\n");
    out.push_str(&format!("static SO gs = {{ {{ {}, {} }}, {{ {{ {}, {} }}, {{ {}, {} }} }}, true }};\n", klit(rng, k), klit(rng, k), klit(rng, k), klit(rng, k), klit(rng, k), klit(rng, k)));
    out.push_str(&format!("void hs(inout SO a, out SI b, SI c)\n{{\n    b = a.two[1];\n    a.two[0] = c;\n    a.one.v.{} = c.s;\n    a.flag = !a.flag;\n}}\n\n", COMP[rng.below(n as u64) as usize]));
    out.push_str(&format!("{} fs(SO p, SI q, {} v, uint i)\n{{\n    SI r;\n    hs(p, r, q);\n    {} old;\n", t, t, t));
    match rng.below(3) {
        0 => out.push_str("    p.one.set(v, old);\n"),
        1 => out.push_str("    p.two[i & 1u].set(r.v, old);\n"),
        _ => out.push_str("    gs.two[1].set(q.sum(), old);\n    p = gs;\n"),
    }
    out.push_str("    SO copy = p;\n    copy.two[1] = copy.one;\n");
    if rng.chance(1, 2) {
        out.push_str("    gs = copy;\n");
    }
    out.push_str(&format!("    return old + copy.two[1].sum() + r.sum() + (p.flag ? v : ({})q.s) + gs.one.v;\n}}\n", t));
    out
}

/// expression functions with the forms `c01/vgen.rs` (pure mode) does not produce: swizzles of scalars (the scalar half of
/// the Swizzle arm), `%` on float vectors (`metal::fmod`), narrowing casts of expressions
pub fn vex_extra(rng: &mut Rng) -> String {
    let k = *rng.pick(&KINDS);
    let n = 2 + rng.below(3) as usize;
    let m = 2 + rng.below(3) as usize;
    if rng.chance(1, 5) {
        // statement-level `%=` on a floating-point vector place: `l = metal::fmod(l, r)` since fixes 92d66eb + 35faaaa (the refusals
        // — a right operand that may write, a target that is not a plain place — are tied by the streams C02.gen and C02.dup: a
        // rejected module has no IR to send to the vector model)
        let j = 1 + rng.below(n as u64) as usize;
        let distinct = ["x", "y", "z", "w"][..n].to_vec();
        let mut pick = distinct.clone();
        let mut place = String::new();
        for _ in 0..j {
            let i = rng.below(pick.len() as u64) as usize;
            place.push_str(pick.remove(i));
        }
        let st = match rng.below(6) {
            0 => format!("v %= ({})s;", vt("float", n)),
            1 => format!("v %= w.{} + ({})s;", swz(rng, n, n), vt("float", n)),
            2 => format!("v.{} %= ({})s;", place, vt("float", j)),
            3 => format!("v.{} %= w.{};", place, swz(rng, n, j)),
            4 => format!("v %= -w.{};", swz(rng, n, n)),
            _ => format!("v %= (b ? w : v) * ({})s;", vt("float", n)),
        };
        return format!("{0} f1(float s, {0} v, {0} w, bool b)\n{{\n    {1}\n    return v;\n}}\n", vt("float", n), st);
    }
    let op = if k == "float" { *rng.pick(&["+", "-", "*", "/", "%"]) } else { *rng.pick(&["+", "-", "*", "%", "&", "|", "<<", ">>"]) };
    let rep = |len: usize| "x".repeat(len);
    // a literal next to a vector of a lower kind: typed in the concrete vector type the literal receives since fixes 40c6233
    // (binary operations) and c05bffa (the arms of ?:) — before, a vector of the literal type that the exporter could not name
    let lk = *rng.pick(&["bool", "int", "uint"]);
    let lit = if lk == "bool" { *rng.pick(&["7", "-3", "1.5", "2147483647", "-0.25"]) } else { *rng.pick(&["1.5", "0.5", "-2.5"]) };
    let aop = *rng.pick(&["+", "-", "*"]);
    let e = match rng.below(8) {
        6 => format!("({})((({})v.{}) {} {})", vt(k, n), vt(lk, n), swz(rng, m, n), aop, lit),
        7 => format!("({})(b ? (({})v.{}) : {})", vt(k, n), vt(lk, n), swz(rng, m, n), lit),
        0 => format!("s.{} {} ({})v", rep(n), op, vt(k, n)),
        1 => format!("(({})v.{}) {} s.{}", vt(k, n), swz(rng, m, m), op, rep(n)),
        2 => format!("({})(v.{} {} s.{})", vt(k, n), swz(rng, m, 4), op, rep(4)),
        3 => format!("b ? s.{} : ({})(({})v)", rep(n), vt(k, n), k),
        4 => format!("{}(s.x, ({})v.{})", vt(k, n), vt(k, n - 1), swz(rng, m, n - 1)),
        _ => format!("s.{}.{} {} ({})({})v", rep(4), swz(rng, 4, n), op, vt(k, n), vt(if k == "float" { "int" } else { "float" }, n.min(m))),
    };
    format!("{} f1({} s, {} v, bool b)\n{{\n    return {};\n}}\n", vt(k, n), k, vt(k, m), e)
}
